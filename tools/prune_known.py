"""Developer aid: drop known-finding keys of a property that no longer fire in either tier.
usage: prune_known.py C13 [C14 ...]   (runs bin/check quick + thorough; rewrites known_findings.d/<pid>.json)"""
import json, subprocess, sys, os
for pid in sys.argv[1:]:
    fp = f"/verif/known_findings.d/{pid}.json"
    if not os.path.exists(fp):
        print(pid, "no file"); continue
    seen = set(); rcs = []
    for tier in ("quick", "thorough"):
        cp = subprocess.run(["bin/check", pid, tier], cwd="/verif", capture_output=True, text=True)
        rcs.append(cp.returncode)
        ev = json.load(open(f"/verif/evidence/{pid}.json"))
        seen |= set(ev["coverage"].get("known_findings_seen", []))
        if cp.returncode != 0:
            print(pid, tier, "EXIT", cp.returncode, [l for l in cp.stdout.splitlines() if l.startswith(("VIOLATION", "MACHINERY", "  clause"))][:6])
    data = json.load(open(fp))
    keep = [f for f in data["findings"] if f["key"] in seen]
    gone = [f for f in data["findings"] if f["key"] not in seen]
    data["findings"] = keep
    json.dump(data, open(fp, "w"), indent=1)
    with open(f"/verif/known_findings.d/{pid}_removed.txt", "w") as fh:
        json.dump(gone, fh, indent=1)
    print(pid, "rcs", rcs, "kept", len(keep), "removed", len(gone))

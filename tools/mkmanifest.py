#!/venv/bin/python
"""Generate /verif/MANIFEST.json from checks/registry.py and validate it against the schema."""
import json, sys
sys.path.insert(0, "/verif")
from checks.registry import CHECKS

BASE = json.load(open("/root/.vp/BASELINE.json")) if __import__("os").path.exists("/root/.vp/BASELINE.json") else {}
man = {
    "version": 1,
    "setup_cmd": "make -C /verif setup",
    "hooks": {
        "guard": "RAMSES_RF_VERIF",
        "enable": "no source hooks are needed: checks import /repo/src live and observe through the event loop, wrappers and substituted clocks (bin/check exports RAMSES_RF_VERIF=1 for uniformity)",
        "baseline_off_cmd": "cd /repo && env -u RAMSES_RF_VERIF /venv/bin/python -m pytest -ra -q -p no:cacheprovider --timeout=900 --continue-on-collection-errors",
        "source_commits": [],
        "add_only": True,
    },
    "engines": [
        {"name": "tlc", "path": "/verif/harness/tlc.py", "serves_properties": sorted(p for p, c in CHECKS.items() if c["built"]),
         "kind_free_text": "TLC 1.8 model checking of /verif/spec/*.tla plus batch trace/table validation of recorded executions of the real code"},
        {"name": "vloop", "path": "/verif/harness/vloop.py", "serves_properties": sorted(p for p, c in CHECKS.items() if c["built"]),
         "kind_free_text": "deterministic virtual-time / directed asyncio loop running the unmodified library"},
    ],
    "checks": [],
    "not_applicable": [],
    "notes": "Model-based verification with explicit TLA+ specifications; see DESIGN.md. Exit 2 + MACHINERY-FAILURE = tooling problem, never a verdict.",
}
for pid in sorted(CHECKS):
    c = CHECKS[pid]
    if not c["built"]:
        man["not_applicable"].append({"property_id": pid, "reason": c["reason"]})
        continue
    man["checks"].append({
        "property_id": pid,
        "quick_cmd": f"bin/check {pid} quick",
        "thorough_cmd": f"bin/check {pid} thorough",
        "evidence_file": f"/verif/evidence/{pid}.json",
        "replay_cmd_template": f"bin/check {pid} --replay {{path}}",
        "engine": "tlc",
        "level_claimed": {"category": c["category"], "text": c["text"], "design_ref": c["design_ref"]},
        "level_note": c["note"],
        "technique": c["technique"],
    })
json.dump(man, open("/verif/MANIFEST.json", "w"), indent=1)
try:
    import jsonschema
    jsonschema.validate(man, json.load(open("/root/.vp/MANIFEST.schema.json")))
    print("MANIFEST.json valid;", len(man["checks"]), "checks,", len(man["not_applicable"]), "not claimed")
except ImportError:
    print("MANIFEST.json written (jsonschema not importable here; run with python3-vt to validate)")

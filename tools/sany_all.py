"""Parse every module in /verif/spec with SANY (in parallel)."""
import sys, glob, os
from concurrent.futures import ThreadPoolExecutor
sys.path.insert(0, "/verif")
from harness import tlc
mods = sorted(os.path.basename(p)[:-4] for p in glob.glob("/verif/spec/*.tla"))
bad = 0
with ThreadPoolExecutor(8) as ex:
    for m, (ok, out) in zip(mods, ex.map(tlc.sany, mods)):
        if not ok:
            bad += 1
            print("SANY FAILED", m); print(out[-1500:])
print(f"sany: {len(mods)} modules, {bad} failed")
sys.exit(1 if bad else 0)

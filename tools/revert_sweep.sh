#!/bin/sh
# Developer aid: for every "fix:" commit in /repo, re-introduce the defect in a scratch copy (reverse diff of that
# commit alone) and run the check(s) of the property it belongs to: each must report VIOLATION ("a fixed entry
# suppresses nothing").  usage: tools/revert_sweep.sh [tier] > log
tier="${1:-quick}"
cd /verif || exit 2
d=$(mktemp -d /tmp/revsweep_XXXX)
while read -r c ids; do
  git -C /repo diff "$c" "$c~1" -- src > "$d/$c.diff"
  if ! (cd /repo && git apply --check "$d/$c.diff" 2>/dev/null); then echo "== $c ($ids): reverse diff does not apply on HEAD (later commits touch the same lines)"; continue; fi
  echo "== $c ($ids): $(git -C /repo log -1 --format=%s $c)"
  python3 tools/seedtest.py "$d/$c.diff" --ids "$ids" --tier "$tier" --par 3; echo "   -> rc=$?"
done <<LIST
e8dcebb C15
ea72cfe C12
a06d5b4 C05
07a611e C01
deae078 C01
006aa1c C13
4f70a97 C13
2907076 C13
9df3729 C13
de9ab84 C13
2c90447 C14
2f05aca C14
abebbc5 C14,C13
4cc6562 C20
83c67d2 C18
09ecd69 C18
26cc74a C19
b28bd9c C17,C04
d4aaa48 C03
b4b44f2 C03
e99f708 C02
c894015 C02
432cae7 C04
cf49945 C04,C03
a0bc49e C04,C03
180de9b C09,C07
4132fd8 C09,C07
5c11877 C09,C07,C08
c00606e C09,C08
c7adf55 C09
LIST
rm -rf "$d"

"""Developer aid: build scratch copies of /repo/src with chosen subsets of the candidate QoS repairs."""
import shutil, sys, os
EDITS = {
 "stale": [('''        def effect_state(timed_out: bool) -> None:
            """Take any actions indicated by state, and optionally set expiry timer."""
            # a separate function, so can be spawned off with call_soon()
''','''        def effect_state(timed_out: bool, state: _ProtocolStateT) -> None:
            """Take any actions indicated by state, and optionally set expiry timer."""
            # a separate function, so can be spawned off with call_soon()

            if state is not self._state:  # superseded: the newer state has its own effect
                return
'''),('''        self._loop.call_soon_threadsafe(effect_state, timed_out)  # calls expire_state''','''        self._loop.call_soon_threadsafe(
            effect_state, timed_out, self._state
        )  # calls expire_state''')],
 "clearfut": [('''            self._cmd = self._qos = None
            self._cmd_tx_count = 0  # was: = None''','''            self._cmd = self._qos = self._fut = None
            self._cmd_tx_count = 0  # was: = None''')],
 "lock": [('''        self._lock.acquire()
        assert isinstance(self.is_sending, bool), f"{self}: Coding error"  # mypy hint
''','''        self._lock.acquire()
        try:
            assert isinstance(
                self.is_sending, bool
            ), f"{self}: Coding error"  # mypy hint
        except AssertionError:
            self._lock.release()  # else the next call blocks the event loop forever
            raise
''')],
 "checkidle": [('''        if self._fut is not None and not self._fut.done():
            self._lock.release()
            return
''','''        if not isinstance(self._state, IsInIdle) or (
            self._fut is not None and not self._fut.done()
        ):  # a queued command can only be started from idle
            self._lock.release()
            return
''')],
 "writefail": [('''            except exc.TransportError as err:
                self.set_state(IsInIdle, exception=err)

        # TODO: check what happens''','''            except exc.TransportError as err:
                if self._cmd is cmd and isinstance(self._state, WantEcho | WantRply):
                    self.set_state(IsInIdle, exception=err)

        # TODO: check what happens''')],
}
def build(dst, names):
    if os.path.exists(dst): shutil.rmtree(dst)
    shutil.copytree("/repo/src", dst + "/src")
    p = dst + "/src/ramses_tx/protocol_fsm.py"; s = open(p).read()
    for n in names:
        for a, b in EDITS[n]:
            assert a in s, (n, a[:40]); s = s.replace(a, b)
    open(p, "w").write(s)
if __name__ == "__main__":
    build(sys.argv[1], sys.argv[2:])

#!/usr/bin/env python3
"""Developer aid: record the outcome of an individual tools/seedtest.py run in seeded/<name>/meta.json ("detection"), for
seeds that were evaluated one by one rather than through tools/seed_matrix.py.

  tools/seed_record.py NAME CAUGHT_BY CHECK [KEY ...]      e.g.  tools/seed_record.py C13-J "quick (by C11)" C11 "d:lost|serial+sync"
  tools/seed_record.py NAME --json FILE                    (FILE written by tools/seedtest.py --json; quick tier)
Afterwards `tools/seed_matrix.py --only NONE` regenerates seeded/RESULTS.md from all meta.json files."""
import json, subprocess, sys
name = sys.argv[1]
mp = f"/verif/seeded/{name}/meta.json"
meta = json.load(open(mp))
pid = name.split("-")[0]
head = subprocess.run(["git", "-C", "/verif", "rev-parse", "--short", "HEAD"], capture_output=True, text=True).stdout.strip()
det = {"verif_commit_or_later": head, "target_check": pid}
if sys.argv[2] == "--json":
    res = json.load(open(sys.argv[3]))
    det["quick"] = {x["id"]: {"exit": x["rc"], "keys": x["keys"][:8], "drift_lines": x["drift"]} for x in res}
    hit = [x["id"] for x in res if x["rc"] == 1]
    det["caught_by"] = "quick" if pid in hit else f"quick (by {hit[0]})" if hit else "MISSED"
else:
    caught, chk, keys = sys.argv[2], sys.argv[3], sys.argv[4:]
    tier = "thorough" if caught.startswith("thorough") else "quick"
    det[tier] = {chk: {"exit": 1 if keys else 0, "keys": keys[:8], "drift_lines": 0}}
    det["caught_by"] = caught
meta["detection"] = det
json.dump(meta, open(mp, "w"), indent=1)
print(name, det["caught_by"])

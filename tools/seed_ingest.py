#!/usr/bin/env python3
"""Developer aid: confirm a seeded change delivered by a sub-agent and file it under /verif/seeded/<name>/.

  tools/seed_ingest.py C07 A /tmp/wt/C07/seeded        (reads A.diff, demo_A.py, notes.md there)

In a fresh scratch worktree of /repo (removed afterwards):
  1. the demonstration exits 0 on the pristine tree;
  2. the patch applies; the repository's test suite gives the baseline result with it (491 passed, the one
     pre-existing failure, no new failure; one retry for the real-time pty tests);
  3. the demonstration exits 1 with the patch.
Only then is /verif/seeded/<pid>-<letter>/ written: patch.diff, demo.py, meta.json (confirmed = true).
"""
from __future__ import annotations

import json
import os
import re
import shutil
import subprocess
import sys
import tempfile

BASE_FAIL = {"tests/tests/test_vol_schemas.py::test_known_list_bad[5]"}


def sh(cmd, cwd, env=None, timeout=900):
    return subprocess.run(cmd, cwd=cwd, env=env, capture_output=True, text=True, timeout=timeout, shell=isinstance(cmd, str))


def suite(wt: str) -> tuple[bool, str]:
    """Baseline result with the patch?  The real-time pty tests (tests/tests_rf) flake when the machine is loaded:
    a non-baseline failure counts only if the test still fails when re-run on its own (up to 3 times)."""
    env = dict(os.environ, PYTHONPATH=f"{wt}/src")
    env.pop("RAMSES_RF_VERIF", None)
    base = ["/venv/bin/python", "-m", "pytest", "-q", "-p", "no:cacheprovider", "--timeout=900"]
    cp = sh(base + ["--continue-on-collection-errors"], wt, env)
    failed = set(re.findall(r"^FAILED (\S+)", cp.stdout, re.M)) | set(re.findall(r"^ERROR (\S+)", cp.stdout, re.M))
    last = (cp.stdout.strip().splitlines() or [""])[-1]
    m = re.search(r"(\d+) passed", last)
    if not m:
        return False, last
    extra = sorted(failed - BASE_FAIL)
    still = []
    for t in extra:
        for _ in range(3):
            if sh(base + [t], wt, env).returncode == 0:
                break
        else:
            still.append(t)
    if still:
        return False, last + " :: still failing alone: " + ",".join(still)[:400]
    if int(m.group(1)) + len(extra) < 491:
        return False, last + " :: fewer tests than the baseline"
    return True, last + (f" (+{len(extra)} real-time flake(s) that pass when re-run alone: {','.join(extra)[:300]})" if extra else "")


def demo(wt: str, path: str) -> tuple[int, str]:
    env = dict(os.environ, PYTHONPATH=f"{wt}/src", PYTHONHASHSEED="0")
    try:
        cp = sh(["/venv/bin/python", path], wt, env, timeout=180)
    except subprocess.TimeoutExpired:
        return 124, "timeout"
    return cp.returncode, (cp.stdout + cp.stderr)[-600:]


def main() -> int:
    pid, letter, src = sys.argv[1], sys.argv[2], sys.argv[3]
    as_letter = sys.argv[4] if len(sys.argv) > 4 else letter      # round 2 files its A/B as C/D
    patch, dem = f"{src}/{letter}.diff", f"{src}/demo_{letter}.py"
    notes = open(f"{src}/notes.md").read() if os.path.exists(f"{src}/notes.md") else ""
    wt = tempfile.mkdtemp(prefix=f"ingest_{pid}{letter}_")
    os.rmdir(wt)
    sh(["git", "-C", "/repo", "worktree", "add", "-q", "--detach", wt, "HEAD"], "/")
    rec = {"property": pid, "variant": as_letter, "repo_head": sh("git -C /repo rev-parse --short HEAD", "/").stdout.strip()}
    try:
        shutil.copy(dem, f"{wt}/demo.py")
        rc0, out0 = demo(wt, "demo.py")
        rec["demo_pristine_rc"] = rc0
        cp = sh(["git", "apply", "--whitespace=nowarn", os.path.abspath(patch)], wt)
        rec["applies"] = cp.returncode == 0
        if not rec["applies"]:
            print("patch does not apply:", cp.stderr[:300])
            return 2
        ok, line = suite(wt)
        rec["suite_with_patch"] = line
        rec["suite_ok"] = ok
        rc1, out1 = demo(wt, "demo.py")
        rec["demo_patched_rc"] = rc1
        rec["demo_patched_output_tail"] = out1[-400:]
        rec["confirmed"] = bool(rc0 == 0 and ok and rc1 == 1)
        print(json.dumps({k: rec[k] for k in ("demo_pristine_rc", "suite_ok", "suite_with_patch", "demo_patched_rc", "confirmed")}))
        if not rec["confirmed"]:
            print("pristine demo tail:", out0[-300:])
            print("patched demo tail:", out1[-300:])
            return 1
        dst = f"/verif/seeded/{pid}-{as_letter}"
        os.makedirs(dst, exist_ok=True)
        shutil.copy(patch, f"{dst}/patch.diff")
        shutil.copy(dem, f"{dst}/demo.py")
        # the agent's own description of this variant (section of notes.md), kept verbatim for meta.json
        rec["agent_notes"] = notes[-6000:]
        rec["what_ran"] = ("fresh scratch worktree of /repo HEAD: demo on pristine tree (exit 0), git apply patch, repo test suite "
                           "(baseline result), demo with patch (exit 1); worktree removed")
        json.dump(rec, open(f"{dst}/meta.json", "w"), indent=1)
        return 0
    finally:
        sh(["git", "-C", "/repo", "worktree", "remove", "--force", wt], "/")
        shutil.rmtree(wt, ignore_errors=True)


if __name__ == "__main__":
    sys.exit(main())

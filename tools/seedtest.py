#!/usr/bin/env python3
"""Developer aid: run registered checks against a *scratch copy* of /repo with a seeded patch applied.

  tools/seedtest.py PATCH [--ids C07,C08] [--tier quick|thorough] [--keep]

Copies /repo/src and /repo/tests to a temp dir, applies PATCH there (git apply), runs `bin/check <id> <tier>`
with VERIF_REPO_SRC pointing at the copy and VERIF_OUT_DIR at the temp dir (so the committed evidence/ is not
touched), prints one line per check (exit code, VIOLATION keys) and removes the temp dir.
/repo itself is never modified.  Exit status: 0 if at least one check reported a VIOLATION, 3 if none did.
"""
from __future__ import annotations

import argparse
import json
import os
import re
import shutil
import subprocess
import sys
import tempfile
from concurrent.futures import ThreadPoolExecutor


def main() -> int:
    ap = argparse.ArgumentParser()
    ap.add_argument("patch")
    ap.add_argument("--ids", default="")
    ap.add_argument("--tier", default="quick")
    ap.add_argument("--par", type=int, default=3)
    ap.add_argument("--keep", action="store_true")
    ap.add_argument("--json", default="")
    a = ap.parse_args()
    ids = [x for x in a.ids.split(",") if x] or [f"C{i:02d}" for i in range(1, 21)]
    tmp = tempfile.mkdtemp(prefix="seedtest_")
    try:
        shutil.copytree("/repo/src", f"{tmp}/src")
        shutil.copytree("/repo/tests", f"{tmp}/tests")
        cp = subprocess.run(["git", "apply", "--whitespace=nowarn", os.path.abspath(a.patch)], cwd=tmp,
                            capture_output=True, text=True)
        if cp.returncode:
            print("PATCH DOES NOT APPLY:", cp.stderr.strip()[:500])
            return 2
        env = dict(os.environ, VERIF_REPO_SRC=f"{tmp}/src", VERIF_OUT_DIR=tmp)

        def one(pid: str) -> dict:
            cp = subprocess.run(["/verif/bin/check", pid, a.tier], capture_output=True, text=True, env=env, cwd="/verif")
            out = cp.stdout
            keys = re.findall(r"^  clause/key: (.*)$", out, re.M)
            mach = re.findall(r"^MACHINERY-FAILURE.*$", out, re.M)
            drift = len(re.findall(r"^MODEL-DRIFT", out, re.M))
            last = [ln for ln in out.splitlines() if ln.strip()][-1:] or [""]
            return {"id": pid, "rc": cp.returncode, "keys": keys, "machinery": mach[:1], "drift": drift, "last": last[0][:200],
                    "tail": out[-3000:] if cp.returncode == 2 else ""}

        with ThreadPoolExecutor(a.par) as ex:
            res = list(ex.map(one, ids))
        caught = False
        for r in res:
            caught |= r["rc"] == 1
            print(f"{r['id']} rc={r['rc']} drift={r['drift']} keys={r['keys'][:6]}{' ...' if len(r['keys']) > 6 else ''} {r['machinery'][0][:300] if r['machinery'] else ''}")
            if r["rc"] == 2:
                print(r["tail"][-1500:])
        if a.json:
            json.dump(res, open(a.json, "w"), indent=1)
        return 0 if caught else 3
    finally:
        if a.keep:
            print("kept", tmp)
        else:
            shutil.rmtree(tmp, ignore_errors=True)


if __name__ == "__main__":
    sys.exit(main())

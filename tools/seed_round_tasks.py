#!/usr/bin/env python3
"""Developer aid: writes TASK.md (property text + what earlier rounds tried) into the scratch worktrees /tmp/wtN/Cnn of a
seeding round.   usage: tools/seed_round_tasks.py N [hint-file]
Makes the worktrees (git -C /repo worktree add --detach /tmp/wtN/Cnn HEAD) if they are missing; every change already filed
under seeded/<pid>-* is listed as "already tried"; the optional hint file replaces the last paragraph of point 4."""
import glob, json, os, subprocess, sys
N=int(sys.argv[1]); HINT=open(sys.argv[2]).read().strip() if len(sys.argv)>2 else None
props=[json.loads(l) for l in open('/verif/properties.jsonl')]
T='''# Task: seed a realistic property-breaking change into zxdavb/ramses_rf (round {rnd})

You work ONLY inside this git worktree: `{wt}` (a scratch checkout of the library zxdavb/ramses_rf,
Python, asyncio; sources in `src/ramses_tx` and `src/ramses_rf`, tests in `tests/`).
Do not read or write anything under `/verif` or `/repo` (other than what `git` itself does for this
worktree), and do not look at other directories under `/tmp`. No network is available.

## The property

**{id} – {title}**

Statement: {statement}

Holds: {quant}

Code anchors: files {files}; mechanism: {mech}

## Already tried in earlier rounds (do NOT repeat these or trivial variants of them; pick other sites/mechanisms)

{tried}

## What to produce

Two *independent* changes (call them A and B; different mechanisms/sites, each on its own) to the
library source (`src/…` only) such that each one:

1. **breaks the property above** – some input / schedule / history / interleaving allowed by the
   "Holds:" text now violates the statement;
2. still imports, and **the existing test suite still passes** exactly as before (baseline: 491 passed,
   1 failed [`tests/tests/test_vol_schemas.py::test_known_list_bad[5]` – fails before your change too],
   39 skipped, 1 xfailed). Run it with:
   `cd {wt} && PYTHONPATH={wt}/src /venv/bin/python -m pytest -q -p no:cacheprovider --timeout=900 --continue-on-collection-errors`
   (the `PYTHONPATH` matters: without it the tests import another checkout). The real-time pty tests in
   `tests/tests_rf` (test_hgi_behaviors, test_flow_qos, …) are flaky when the machine is loaded (it is):
   a failure there counts only if the same test still fails when re-run on its own a few times;
3. is **realistic**: the kind of slip a maintainer could make in a refactor, a clean-up, a performance
   tweak or a feature addition and a reviewer could wave through – not sabotage, not a syntax trick, no
   special-casing of magic values;
4. needs **something specific to manifest** – a particular interleaving or timing coincidence, a fault
   (loss, time-out, disconnect, exception) at a particular point, a multi-step sequence of operations,
   state carried over from an earlier operation, an unusual-but-legal input, or two cooperating sites
   that each look fine alone. Not something that ordinary use or the first packet would expose at once.
{hint}

For each change also write a **demonstration**: a small stand-alone Python program `demo_A.py` /
`demo_B.py` (run as `PYTHONPATH={wt}/src /venv/bin/python demo_A.py`; stdlib + the library only; it
may use asyncio, fake transports, monkey-patched clocks etc.; must finish in < 60 s; must be
deterministic) that **exits 0 on the unchanged library and exits 1 (printing what went wrong) with
your change applied**. The demo must show a violation of the property statement itself (observable
behaviour), not merely that an internal detail changed.

## How to deliver

Leave in `{wt}/seeded/`:
* `A.diff`, `B.diff` – each produced with `git diff -- src > seeded/A.diff` from a state where ONLY that
  change is applied (then `git checkout -- src` before starting the other one). Each must apply cleanly
  with `git apply` to the pristine worktree.
* `demo_A.py`, `demo_B.py`.
* `notes.md` – for each change: which clause of the property it breaks, what exactly is needed for it to
  manifest (input / schedule / fault / sequence), the commands you ran and their results.

Finish with the source tree pristine (`git status` shows only the untracked `seeded/` directory and this
file). Verify everything yourself before you finish: pristine → demo exits 0; apply A → suite at baseline
and demo_A exits 1; same for B. If you cannot find two, deliver one and say so. Your final message:
≤ 15 lines summarising A and B.
'''
DEFAULT_HINT='''   Prefer subtle over blatant; at least one of the two should involve state carried across operations or
   two cooperating sites. Think about less-visited parts of the mechanism (other entry points that reach
   the same machinery, other transports, error paths, boundary sizes, caches, defaults shared between
   calls, ordering assumptions).'''
TT=T.replace('{hint}', (HINT or DEFAULT_HINT).replace('{','{{').replace('}','}}'))
for p in props:
    pid=p['id']; wt=f"/tmp/wt{N}/{pid}"
    if not os.path.isdir(wt):
        os.makedirs(os.path.dirname(wt),exist_ok=True)
        subprocess.run(["git","-C","/repo","worktree","add","-q","--detach",wt,"HEAD"],check=True)
    a=p.get('anchors',{})
    tried=[]
    for mf in sorted(glob.glob(f"/verif/seeded/{pid}-*/meta.json")):
        try:
            m=json.load(open(mf))
            tried.append(f"* {m['summary']} (needs: {m['needs_to_manifest']})")
        except Exception: pass
    open(f"{wt}/TASK.md","w").write(TT.format(rnd=N,wt=wt,id=pid,title=p['title'],statement=p['statement'],quant=p['quantifier']['text'],
        files=', '.join(a.get('files',[])), mech=a.get('mechanism', a.get('mechanisms','')), tried="\n".join(tried)))
print('wrote', N)

"""Setup self-test: tool versions, repo import, batch validation convention, virtual loop."""
import sys, asyncio, subprocess
sys.path.insert(0, "/verif")
assert sys.version_info[:2] == (3, 12), sys.version
from harness import tlc, vloop
import ramses_tx, ramses_rf  # noqa: F401  (the repo must import from /repo/src)
assert ramses_tx.__file__.startswith("/repo/src"), ramses_tx.__file__
subprocess.run(["java", "-version"], check=True, capture_output=True)
items = [{"limit": 1, "ev": [{"k": "w"}, {"k": "w"}]}, {"limit": 2, "ev": [{"k": "w"}]}]
r = tlc.validate_batch("Toy", items, workers=2)
assert [x[0] for x in r["rejects"]] == [0] and r["rejects"][0][1] == (2, "limit"), r
async def m():
    t0 = asyncio.get_running_loop().time(); await asyncio.sleep(3600); return asyncio.get_running_loop().time() - t0
res, loop = vloop.run(m)
assert abs(res - 3600) < 1e-6
print("selftest ok")

#!/bin/sh
# Round 2: as tools/seed_eval.sh, but reads /tmp/wt2/<pid>/seeded/{A,B} and files them as <pid>-C / <pid>-D.
pid="$1"; extra="${2:-}"; src="/tmp/wt2/$pid/seeded"
cd /verif || exit 2
for L in A B; do
  case $L in A) N=C;; B) N=D;; esac
  [ -f "$src/$L.diff" ] || { echo "$pid-$N: no patch delivered"; continue; }
  echo "## $pid-$N ingest: $(python3 tools/seed_ingest.py "$pid" "$L" "$src" "$N" 2>&1 | grep -v '^WARNING' | tr '\n' ' ' | cut -c1-600)"
  [ -d "seeded/$pid-$N" ] || continue
  ids="$pid${extra:+,$extra}"
  python3 tools/seedtest.py "seeded/$pid-$N/patch.diff" --ids "$ids" --tier quick --json "/tmp/runlogs/seed_$pid-$N.quick.json" 2>&1 | grep -v '^WARNING' | sed "s/^/   [$pid-$N quick] /"
  if ! grep -q '"rc": 1' "/tmp/runlogs/seed_$pid-$N.quick.json"; then
    python3 tools/seedtest.py "seeded/$pid-$N/patch.diff" --ids "$ids" --tier thorough --json "/tmp/runlogs/seed_$pid-$N.thorough.json" 2>&1 | grep -v '^WARNING' | sed "s/^/   [$pid-$N thorough] /"
  fi
done

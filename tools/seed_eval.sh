#!/bin/sh
# Developer aid: ingest (confirm) both variants a sub-agent left in /tmp/wt/<pid>/seeded and run the target check
# (quick, then thorough if quick misses) against each.  usage: tools/seed_eval.sh C07 [extra,ids]
pid="$1"; extra="${2:-}"; src="/tmp/wt/$pid/seeded"
cd /verif || exit 2
for L in A B; do
  [ -f "$src/$L.diff" ] || { echo "$pid-$L: no patch delivered"; continue; }
  echo "## $pid-$L ingest: $(python3 tools/seed_ingest.py "$pid" "$L" "$src" 2>&1 | grep -v '^WARNING' | tr '\n' ' ' | cut -c1-600)"
  [ -d "seeded/$pid-$L" ] || continue
  ids="$pid${extra:+,$extra}"
  python3 tools/seedtest.py "seeded/$pid-$L/patch.diff" --ids "$ids" --tier quick --json "/tmp/runlogs/seed_$pid-$L.quick.json" 2>&1 | grep -v '^WARNING' | sed "s/^/   [$pid-$L quick] /"
  if ! grep -q '"rc": 1' "/tmp/runlogs/seed_$pid-$L.quick.json"; then
    python3 tools/seedtest.py "seeded/$pid-$L/patch.diff" --ids "$ids" --tier thorough --json "/tmp/runlogs/seed_$pid-$L.thorough.json" 2>&1 | grep -v '^WARNING' | sed "s/^/   [$pid-$L thorough] /"
  fi
done

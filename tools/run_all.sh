#!/bin/sh
# usage: tools/run_all.sh quick|thorough [parallelism] [ids...]   -> logs in $OUT (default /tmp/verif_runall)
tier="${1:-quick}"; par="${2:-4}"; shift 2 2>/dev/null
ids="${*:-C01 C02 C03 C04 C05 C06 C07 C08 C09 C10 C11 C12 C13 C14 C15 C16 C17 C18 C19 C20}"
out="${OUT:-/tmp/verif_runall}"; mkdir -p "$out"
cd "$(dirname "$0")/.." || exit 2
printf '%s\n' $ids | xargs -P "$par" -I{} sh -c 's=$(date +%s); bin/check {} '"$tier"' > '"$out"'/{}.'"$tier"'.log 2>&1; rc=$?; e=$(date +%s); echo "{} exit=$rc wall=$((e-s))s $(grep -c "^KNOWN-FINDING" '"$out"'/{}.'"$tier"'.log) known $(grep -c "^VIOLATION" '"$out"'/{}.'"$tier"'.log) viol $(grep -c "^MODEL-DRIFT" '"$out"'/{}.'"$tier"'.log) drift"'

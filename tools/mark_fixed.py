"""One-off/maintenance: move known-finding entries whose defect was repaired by a `fix:` commit in /repo
from `findings` (which suppress) to `fixed` (which suppress nothing).  Usage:
   python3 tools/mark_fixed.py            # applies FIXED below
Never run by a check; known_findings*.json are read-only at check time."""
import json, re
from pathlib import Path

V = Path(__file__).resolve().parent.parent
# (property, key-regex) -> commit
FIXED = [
    ("C01", r"AssertionError@frame\._has_array", "deae078"),
    ("C01", r"OverflowError@parsers\.parser_313e", "07a611e"),
    ("C02", r"^C02a:from_cli:", "c894015"),
    ("C02", r"^C02b:(pktlog|gwylog):timestamp", "e99f708"),
    ("C04", r"^C04[ab]:(temp|pct200|pct100|dbl100):enc_lsb_toward_zero", "a0bc49e"),
    ("C04", r"^C04[ab]:sched_setpoint:enc_lsb_toward_zero", "b28bd9c"),
    ("C04", r"^C04e:temp:wrap_", "cf49945"),
    ("C04", r"^C04a:dts:dec_refused_yy00", "432cae7"),
    ("C05", r"^d:2249:", "a06d5b4"),
    ("C12", r"poller-died", "ea72cfe"),
    ("C14", r"^C14e:stale-value", "2f05aca"),
    ("C14", r"^C14c:(expired-raises|not-expired-after-twice-lifetime)", "abebbc5"),
    ("C14", r"^C14b:unknown-before-lifetime:read-during-dispatch", "2c90447"),
    ("C15", r"^C15a:invalid:zones\.sensor:dev-type-00", "e8dcebb"),
    ("C17", r"^C17a-Identity:setpoint-one-lsb-low", "b28bd9c"),
    ("C18", r"^C18c:lock-left:", "09ecd69"),
    ("C18", r"^C18c:followup:.*ackinset", "83c67d2"),
    ("C19", r"view-contradicted-at-or-below-idx", "26cc74a"),
    ("C20", r"^C20[bc]:", "4cc6562"),
]

def main():
    for fp in sorted((V / "known_findings.d").glob("*.json")):
        d = json.loads(fp.read_text())
        keep, fixed = [], list(d.get("fixed", []))
        for f in d.get("findings", []):
            for pid, rx, commit in FIXED:
                if f["property"] == pid and re.search(rx, f["key"]):
                    fixed.append(f"fixed: property={pid} {commit} [{f['key']}] {f['what']}")
                    break
            else:
                keep.append(f)
        if len(keep) != len(d.get("findings", [])):
            d["findings"], d["fixed"] = keep, fixed
            fp.write_text(json.dumps(d, indent=1, ensure_ascii=False) + "\n")
            print(fp.name, "kept", len(keep), "fixed", len(fixed))

if __name__ == "__main__":
    main()

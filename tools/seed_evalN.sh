#!/bin/sh
# Generalised seed evaluation: tools/seed_evalN.sh C07 /tmp/wt3 E F [extra,ids]
# reads <root>/<pid>/seeded/{A,B}.diff and files them as <pid>-<N1> / <pid>-<N2>.
pid="$1"; root="$2"; n1="$3"; n2="$4"; extra="${5:-}"; src="$root/$pid/seeded"
cd /verif || exit 2
for L in A B; do
  case $L in A) N=$n1;; B) N=$n2;; esac
  [ -f "$src/$L.diff" ] || { echo "$pid-$N: no patch delivered"; continue; }
  echo "## $pid-$N ingest: $(python3 tools/seed_ingest.py "$pid" "$L" "$src" "$N" 2>&1 | grep -v '^WARNING' | tr '\n' ' ' | cut -c1-600)"
  [ -d "seeded/$pid-$N" ] || continue
  ids="$pid${extra:+,$extra}"
  python3 tools/seedtest.py "seeded/$pid-$N/patch.diff" --ids "$ids" --tier quick --json "/tmp/runlogs/seed_$pid-$N.quick.json" 2>&1 | grep -v '^WARNING' | sed "s/^/   [$pid-$N quick] /"
  if ! grep -q '"rc": 1' "/tmp/runlogs/seed_$pid-$N.quick.json"; then
    python3 tools/seedtest.py "seeded/$pid-$N/patch.diff" --ids "$ids" --tier thorough --json "/tmp/runlogs/seed_$pid-$N.thorough.json" 2>&1 | grep -v '^WARNING' | sed "s/^/   [$pid-$N thorough] /"
  fi
done

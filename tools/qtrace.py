"""Run a QosFsm config and print a condensed counter-example (developer aid)."""
import sys
sys.path.insert(0, "/verif")
from harness import tlc
cfg = sys.argv[1]
inv = sys.argv[2:] 
r = tlc.run_tlc("MC_QosFsm", cfg, workers=8, timeout=1500)
print("ok", r.ok, "violated", r.violated, "states", r.states, r.distinct, "depth", r.depth, "errors", r.errors[:2], "wall", round(r.wall_s))
def hk(x):
    s = x["k"]
    if x["i"]: s += str(x["i"])
    if x["p"] != ("", 0): s += ":" + x["p"][0] + str(x["p"][1])
    if x["k"] == "effect": s += f"({'T' if x['b'] else 'F'},g{x['g']})"
    return s
for act, st in r.error_trace:
    w = st.get("w")
    if not isinstance(w, dict):
        print(act, st); continue
    fs = ",".join(f"{a}{b or ''}" for a, b in w["fs"])
    tm = ",".join(f"{k+1}:{t['ph']}" for k, t in enumerate(w["tmr"]) if t["ph"] != "free")
    print(f"{w['lastrun']:9s} st={w['st']:8s} cmd={w['cmd']} fut={w['fut']} sent={w['sent']} fs=[{fs}] txc={w['txc']}/{w['txl']} m={w['mult']} gen={w['gen']} cur={w['cur']} tmr[{tm}] "
          f"ready=[{' '.join(hk(x) for x in w['ready'])}] nxt=[{' '.join(hk(x) for x in w['nxt'])}] T={sorted(w['timers'])} pc={w['pc']} out={w['out']} wr={w['writes']} trips={sorted(w['trips'])} {'LOCKED' if w['locked'] else ''}{' FROZEN' if w['frozen'] else ''}")

"""C02 - frame text round-trips: parse then print is the identity, through packet logs too.

  1. TLC model-checks spec/FrameGrammar.tla on the abstract cross product (MC_FrameGrammar: character-level
     print/parse, fixed columns vs split, address shapes, CLI short forms) and spec/PktLog.tla (write ->
     replay identity on all short sequences of annotated lines); the implementation-shaped instance
     (from_cli cuts the payload) yields a counter-example that is replayed on the real code.
  2. spec -> code: the abstract frames are taken out of TLC (-dump), concretised and given to the real
     Command / Command._from_attrs / Command.from_cli / Packet.from_port / Packet.from_file;
     sessions of annotated lines and whole shipped logs go through the real packet-log file handler
     and back through the real FileTransport; histories (the packet log configured several times in one
     process, only the library's own set_pkt_logging in between) run in a forked child, file by file.
  3. code -> spec: TLC judges every recorded row / session (FrameGrammarTrace, PktLogTrace).
"""
from __future__ import annotations

import glob
import json
import os
import sys
import time
from typing import Any

from harness import ext_c02 as X
from harness import ext_c04 as X4
from harness import tlc
from harness.report import Check, main_wrapper

PID = "C02"
JAVA = ["-Xss16m"]


def _workers(tier: str) -> int:
    return int(os.environ.get("VERIF_TLC_WORKERS_N", "8" if tier == "thorough" else "4"))


def judge_frames(rows: list[dict], workers: int) -> dict:
    return X4.validate_items("FrameGrammarTrace", X.group_rows(rows), workers=workers, chunk=400, timeout=1500)


def judge_logs(items: list[dict], workers: int) -> dict:
    return X4.validate_items("PktLogTrace", items, workers=workers, chunk=600, timeout=1500)


def model_check(chk: Check, tier: str, stats: dict) -> list[dict]:
    r, frames = X.abstract_frames(_workers(tier))
    stats["mc_frame"] = {"cfg": "MC_FrameGrammar.cfg", "distinct_states": r.distinct, "generated": r.states, "abstract_frames": len(frames),
                         "clauses": ["InvParsePrint", "InvLenField", "InvSrcDst", "InvCli", "InvShapesDisjoint"], "wall_s": round(r.wall_s, 1)}
    print(f"TLC MC_FrameGrammar: {r.distinct} states, {len(frames)} abstract frames, 5 laws hold ({r.wall_s:.1f}s)")
    cfg = "MC_PktLog_thorough.cfg" if tier == "thorough" else "MC_PktLog.cfg"
    r3 = tlc.run_tlc("MC_PktLog", cfg, workers=_workers(tier), timeout=1500)
    if not r3.ok:
        raise tlc.MachineryFailure(f"MC_PktLog did not hold: {r3.violated} {r3.errors[:2]}\n{r3.out[-1500:]}")
    stats["mc_log"] = {"cfg": cfg, "distinct_states": r3.distinct, "generated": r3.states,
                       "clauses": ["InvLogIdentity", "InvLineShape", "InvHistIdentity"], "wall_s": round(r3.wall_s, 1)}
    print(f"TLC MC_PktLog ({cfg}): {r3.distinct} states (sequences of lines + histories of sessions in one process), "
          f"write->replay identity holds, per log file too ({r3.wall_s:.1f}s)")
    if tier == "thorough":       # the histories with cc_console in every session or not (the handler list then has 3-4 entries)
        r4 = tlc.run_tlc("MC_PktLog", "MC_PktLog_hist_console.cfg", workers=_workers(tier), timeout=1500)
        if not r4.ok:
            raise tlc.MachineryFailure(f"MC_PktLog_hist_console did not hold: {r4.violated} {r4.errors[:2]}\n{r4.out[-1500:]}")
        stats["mc_log_console"] = {"cfg": "MC_PktLog_hist_console.cfg", "distinct_states": r4.distinct, "generated": r4.states,
                                   "clauses": ["InvHistIdentity"], "wall_s": round(r4.wall_s, 1)}
        print(f"TLC MC_PktLog_hist_console: {r4.distinct} histories with cc_console, every file replays as its own sessions ({r4.wall_s:.1f}s)")
    # refuted sensitivity instance: the clean-up loop as it was before e6ce7db (every other handler survives) breaks the
    # law; its counter-example is run on the real code (which no longer has the defect)
    r5 = tlc.run_tlc("MC_PktLog", "MC_PktLog_x_cleanup.cfg", workers=2, timeout=600)
    if r5.errors or "InvHistIdentity" not in r5.violated or not r5.error_trace:
        raise tlc.MachineryFailure(f"MC_PktLog_x_cleanup: expected a counter-example to InvHistIdentity\n{r5.out[-1500:]}")
    plan = X.plan_of_model_history(r5.error_trace[-1][1]["hist"])
    item = X.log_histories([plan])[0]
    n_acc = {fr["name"]: sum(w["acc"] for h in item["hist"] if h["file"] == fr["name"] for w in h["written"]) for fr in item["files"]}
    real = {fr["name"]: {"accepted_while_configured": n_acc[fr["name"]], "replayed": len(fr["replayed"])} for fr in item["files"]}
    reproduced_h = any(v["accepted_while_configured"] != v["replayed"] for v in real.values())
    print(f"TLC MC_PktLog_x_cleanup (clean-up loop as before e6ce7db): InvHistIdentity fails at {plan['name']}; on the real code: "
          f"{'reproduced ' + str(real) if reproduced_h else 'NOT reproduced (the code no longer has this defect)'}")
    cand_h = {"instance": "MC_PktLog_x_cleanup.cfg", "invariant": "InvHistIdentity", "counterexample": plan["name"], "real": real,
              "reproduced_on_code": reproduced_h}
    if reproduced_h:
        chk.note("MC_PktLog_x_cleanup: the real set_pkt_logging behaves like the refuted instance (old handlers survive); "
                 "the judged histories below carry the verdict")
    # implementation-shaped instance: the counter-example is a candidate -> replay it on the code
    r2 = tlc.run_tlc("MC_FrameGrammar", "MC_FrameGrammar_impl_cli.cfg", workers=2, timeout=600)
    if r2.errors or "InvCli" not in r2.violated or not r2.error_trace:
        raise tlc.MachineryFailure(f"MC_FrameGrammar_impl_cli: expected a counter-example to InvCli\n{r2.out[-1500:]}")
    f = r2.error_trace[-1][1]["f"]
    rows = [row for row in X.observe_frame(f, ("cli",)) if row["ctor"] == "cli_full"]
    reproduced = bool(rows) and rows[0]["acc"] == 1 and rows[0]["out"] != X.frame_text(f)
    stats["mc_candidates"] = [{"instance": "MC_FrameGrammar_impl_cli.cfg", "invariant": "InvCli", "counterexample": f,
                               "real": {k: rows[0].get(k) for k in ("text", "acc", "exc", "out")} if rows else None,
                               "reproduced_on_code": reproduced}, cand_h]
    print(f"TLC MC_FrameGrammar_impl_cli: InvCli fails at {X.frame_text(f)!r}; on the real code: "
          f"{'reproduced' if reproduced else 'NOT reproduced (the code no longer has this defect)'}")
    if not reproduced:
        chk.note("MC_FrameGrammar_impl_cli: model counter-example not reproduced by the code (variant 'cli_cut48' no longer describes it)")
    return frames


def report_frames(chk: Check, rows: list[dict], res: dict, stats: dict) -> None:
    per_key: dict[str, int] = {}
    fdrift: dict[str, list] = {}
    c01: dict[str, int] = {}
    for idx, fails in res["rejects"]:
        for (ln, clause, pattern) in sorted(fails):
            row = rows[idx * 200 + ln - 1]
            if clause == "harness":
                raise tlc.MachineryFailure(f"harness fed {row['text']!r} for ctor {row['ctor']} of {row['f']}")
            if clause == "c01":
                c01[f"{row['f']['code']}:{pattern}"] = c01.get(f"{row['f']['code']}:{pattern}", 0) + 1
                continue
            if clause == "drift":
                fdrift.setdefault(f"{row['ctor']}: {pattern}", [0, f"{row['text']!r} -> {row.get('out', row.get('exc'))!r}"])[0] += 1
                continue
            site = "from_cli" if pattern == "payload_cut_at_48_chars" else row["ctor"]
            key = f"C02{clause}:{site}:{pattern}" + (f":{row['why']}" if row.get("why") else "")
            per_key[key] = per_key.get(key, 0) + 1
            chk.violation(key, f"{row['ctor']}({row['text']!r}) -> {row.get('out') or row.get('exc')!r}; expected "
                               f"{X.frame_text(row['f'])!r} [{pattern}]",
                          {"kind": "frame", "ctor": row["ctor"], "f": row["f"], "recorded": {k: row.get(k) for k in ("text", "acc", "exc", "out")},
                           "clause": clause, "pattern": pattern})
    for what, (n, first) in sorted(fdrift.items()):
        chk.model_drift(f"{what} ({n} rows), first: {first[:300]}")
    stats["failing_rows_per_key"] = dict(sorted(per_key.items()))
    stats["received_frames_refused_outside_the_grammar_left_to_C01"] = dict(sorted(c01.items()))


def report_logs(chk: Check, items: list[dict], meta: list[dict], res: dict, stats: dict) -> None:
    per_key: dict[str, int] = {}
    drift: dict[str, list] = {}
    for idx, fails in res["rejects"]:
        if "hist" in items[idx]:
            report_hist(chk, items[idx], meta[idx], fails, per_key, drift)
            continue
        for (pos, clause, pattern) in sorted(fails):
            m = meta[idx]
            if clause == "drift":
                it = items[idx]
                drift.setdefault(pattern, [0, f"{m['name']} #{pos}: line {it['lines'][pos - 1: pos]} regen {it['regen'][pos - 1: pos]}"])[0] += 1
                continue
            key = f"C02{clause}:{m['site']}:{pattern}"
            per_key[key] = per_key.get(key, 0) + 1
            it = items[idx]
            acc = [w for w in it["written"] if w["acc"]]
            chk.violation(key, f"log session {m['name']}: {pattern} at packet #{pos}: written "
                               f"{acc[pos - 1] if 0 < pos <= len(acc) else None} replayed "
                               f"{it['replayed'][pos - 1] if 0 < pos <= len(it['replayed']) else None}",
                          {"kind": "log", **m, "clause": clause, "pattern": pattern, "position": pos})
    for pattern, (n, first) in sorted(drift.items()):
        chk.model_drift(f"log sessions: {pattern} in {n} sessions, first: {first[:300]}")
    stats["failing_sessions_per_key"] = dict(sorted(per_key.items()))


def report_hist(chk: Check, it: dict, m: dict, fails: Any, per_key: dict, drift: dict) -> None:
    """A history item (the packet log configured several times in one process): verdicts are per log file."""
    for (pos, clause, pattern, fi) in sorted(fails):
        fr = it["files"][fi - 1]
        if clause == "drift":
            drift.setdefault(pattern, [0, f"{m['name']} file {fr['name']} #{pos}: lines {fr['lines'][max(0, pos - 2): pos + 1]}"])[0] += 1
            continue
        key = f"C02{clause}:{m['site']}:{pattern}"
        per_key[key] = per_key.get(key, 0) + 1
        acc = [w for h in it["hist"] if h["file"] == fr["name"] for w in h["written"] if w["acc"]]
        chk.violation(key, f"log {m['name']} (packet log configured {len(it['hist'])} times in one process), file {fr['name']}: "
                           f"{pattern} at packet #{pos}: accepted while it was the packet log "
                           f"{acc[pos - 1] if 0 < pos <= len(acc) else None} replayed "
                           f"{fr['replayed'][pos - 1] if 0 < pos <= len(fr['replayed']) else None} "
                           f"({len(acc)} accepted, {len(fr['replayed'])} replayed)",
                      {"kind": "log", **m, "clause": clause, "pattern": pattern, "position": pos, "file": fr["name"]})


def _offers_json(offers: list[dict]) -> list[dict]:
    return [dict(o, dtm=o["dtm"].isoformat(timespec="microseconds")) for o in offers]


def build_log_items(tier: str, seed: int) -> tuple[list[dict], list[dict]]:
    items, meta = [], []
    synth = X.synthetic_sessions(tier, seed)
    for i, offers in enumerate(synth):
        items.append(X.log_session(offers))
        meta.append({"name": f"synthetic#{i}", "offers": _offers_json(offers) if len(offers) <= 4 else None, "synthetic": i,
                     "tier": tier, "seed": seed, "site": "pktlog"})
    # ... and with the packet log configured each other way (size-rotated, midnight-rotated; nothing rolls over)
    for i, offers in enumerate(synth):
        if i % 5 == 2:
            cfgname = ("bytes", "midnight", "bytes+backups")[(i // 5) % 3]
            items.append(X.log_session(offers, logcfg=cfgname))
            meta.append({"name": f"synthetic-{cfgname}#{i}", "offers": _offers_json(offers) if len(offers) <= 4 else None,
                         "synthetic": i, "logcfg": cfgname, "tier": tier, "seed": seed, "site": "pktlog"})
    # the same sessions with the packets built by the Packet constructor itself (annotations passed as keywords):
    # such a packet exists whatever the text of its comment, so the written log must replay it
    for i, offers in enumerate(synth):
        if i % 3 == 0 or len(offers) == 1:
            items.append(X.log_session(offers, via="ctor"))
            meta.append({"name": f"synthetic-ctor#{i}", "offers": _offers_json(offers) if len(offers) <= 4 else None,
                         "synthetic": i, "via": "ctor", "tier": tier, "seed": seed, "site": "pktlog"})
    logs = sorted(glob.glob("/repo/tests/tests/**/*.log", recursive=True))
    if tier != "thorough":
        logs = [p for p in logs if os.path.getsize(p) < 200_000][:12]
    for p in logs:
        items.append(X.real_log_session(p))
        meta.append({"name": p, "path": p, "site": "pktlog"})
    # whole gateways: shipped log -> Gateway + packet log -> Gateway again ("replays as the same sequence")
    for p in (logs if tier == "thorough" else logs[:4]):
        items.append(X.gateway_log_session(p))
        meta.append({"name": "gateway:" + p, "gateway": p, "site": "gwylog"})
    # histories: the packet log configured 2..N times in one process, only the library's own set_pkt_logging in
    # between (every session above starts from a logger the harness has emptied); each file must replay as what was
    # accepted while it was the configured log.
    plans = X.history_plans(tier, seed)
    for plan, item in zip(plans, X.log_histories(plans)):
        items.append(item)
        meta.append({"name": plan["name"], "history": [dict(s, offers=_offers_json(s["offers"])) for s in plan["sessions"]], "site": "pktlog"})
    return items, meta


def replay(path: str) -> None:
    from datetime import datetime as dt

    rp = json.load(open(path))
    rp = rp.get("replay", rp)
    X.quiet()
    if rp["kind"] == "frame":
        ctor = "cli" if rp["ctor"].startswith("cli") else rp["ctor"]
        rows = [r for r in X.observe_frame(rp["f"], (ctor,)) if r["ctor"] == rp["ctor"]]
        print(f"replay {rp['ctor']} on {X.frame_text(rp['f'])!r}")
        for r in rows:
            print(f"  input        : {r['text']!r}")
            print(f"  recorded     : {rp.get('recorded')}")
            print(f"  real code now: accepted={r['acc']} exc={r.get('exc')!r} printed={r.get('out')!r}")
        res = judge_frames(rows, 1)
    else:
        if rp.get("history"):
            item = X.log_histories([{"sessions": [dict(s, offers=[dict(o, dtm=dt.fromisoformat(o["dtm"])) for o in s["offers"]])
                                                  for s in rp["history"]]}])[0]
        elif rp.get("gateway"):
            item = X.gateway_log_session(rp["gateway"])
        elif rp.get("path"):
            item = X.real_log_session(rp["path"])
        elif rp.get("offers"):
            item = X.log_session([dict(o, dtm=dt.fromisoformat(o["dtm"])) for o in rp["offers"]], via=rp.get("via", "port"),
                                 logcfg=rp.get("logcfg", "plain"))
        else:
            item = X.log_session(X.synthetic_sessions(rp.get("tier", "quick"), rp.get("seed", 0))[rp["synthetic"]],
                                 via=rp.get("via", "port"), logcfg=rp.get("logcfg", "plain"))
        if "hist" in item:
            print(f"replay log {rp['name']}: " + "; ".join(
                f"session {k + 1}: file {h['file'] or '-'}{' +console' if h['console'] else ''}, {len(h['written'])} offered, "
                f"{sum(w['acc'] for w in h['written'])} accepted" for k, h in enumerate(item["hist"])))
            for fr in item["files"]:
                print(f"  file {fr['name']}: {len(fr['lines'])} lines, {len(fr['replayed'])} packets replayed")
        else:
            print(f"replay log session {rp['name']}: {len(item['written'])} offered, {sum(w['acc'] for w in item['written'])} accepted, "
                  f"{len(item['lines'])} lines written, {len(item['replayed'])} replayed")
        res = judge_logs([item], 1)
    bad = False
    for _idx, fails in res["rejects"]:
        for (pos, clause, pattern, *fi) in sorted(fails):
            print(f"  TLC verdict  : {'clause ' + clause + ' FAILS' if clause in ('a', 'b') else clause} ({pattern}) at #{pos}"
                  + (f" of file {item['files'][fi[0] - 1]['name']}" if fi else ""))
            bad = bad or clause in ("a", "b")
    if not res["rejects"]:
        print("  TLC verdict  : accepted (all clauses hold)")
    sys.exit(1 if bad else 0)


def main(tier: str, replay_file: str | None) -> None:
    if replay_file:
        replay(replay_file)
        return
    chk = Check(PID, tier, "translation_validation")
    X.quiet()
    stats: dict = {}
    t0 = time.time()
    only = os.environ.get("VERIF_C02_ONLY", "")       # developer aid (self-mutation runs): "frames" | "logs"
    if only:
        chk.note(f"VERIF_C02_ONLY={only}: partial run")
    frames = model_check(chk, tier, stats)
    t1 = time.time()
    rows, fstats = X.frame_rows(frames if only != "logs" else [], tier, chk.seed) if only != "logs" else ([], {"concrete_frames": 0})
    t2 = time.time()
    res = judge_frames(rows, _workers(tier)) if rows else {"rejects": [], "states": 0, "transitions": 0}
    t3 = time.time()
    report_frames(chk, rows, res, stats)
    print(f"frames: {fstats['concrete_frames']} concretised + systematic sweeps = {len(rows)} constructor calls recorded "
          f"(python {t2 - t1:.1f}s), judged by TLC in {t3 - t2:.1f}s; {len(res['rejects'])} items with rejected rows")
    items, meta = build_log_items(tier, chk.seed) if only != "frames" else ([], [])
    t4 = time.time()
    res2 = judge_logs(items, _workers(tier)) if items else {"rejects": [], "states": 0, "transitions": 0}
    t5 = time.time()
    report_logs(chk, items, meta, res2, stats)
    hists = [it for it in items if "hist" in it]
    plain = [it for it in items if "hist" not in it]
    npk = sum(len(it["written"]) for it in plain) + sum(len(h["written"]) for it in hists for h in it["hist"])
    nrep = sum(len(it["replayed"]) for it in plain) + sum(len(fr["replayed"]) for it in hists for fr in it["files"])
    print(f"logs: {len(plain)} write->replay sessions + {len(hists)} histories of 2-{max([len(it['hist']) for it in hists] or [0])} sessions in one "
          f"process ({sum(len(it['files']) for it in hists)} files) ({npk} offered lines, {nrep} packets replayed; "
          f"python {t4 - t3:.1f}s), judged by TLC in {t5 - t4:.1f}s; {len(res2['rejects'])} sessions with findings")
    ok_rows = [r for r in rows if r["acc"]]
    samples = [{"ctor": r["ctor"], "input": r["text"], "printed": r["out"]} for r in ok_rows[:: max(1, len(ok_rows) // 12)][:12]]
    samples += [{"log_session": m["name"], "lines": it["lines"][:2], "replayed": it["replayed"][:2]}
                for it, m in [(it, m) for it, m in zip(items, meta) if "hist" not in it][-3:]]
    samples += [{"log_history": m["name"], "files": {fr["name"]: {"lines": fr["lines"][:2], "replayed": len(fr["replayed"])} for fr in it["files"]}}
                for it, m in [(it, m) for it, m in zip(items, meta) if "hist" in it][:: max(1, len(hists) // 3)][:3]]
    chk.finish(
        coverage={
            "states": stats["mc_frame"]["distinct_states"] + stats["mc_log"]["distinct_states"] + res["states"] + res2["states"],
            "transitions": stats["mc_frame"]["generated"] + stats["mc_log"]["generated"] + res["transitions"] + res2["transitions"],
            "traces_validated_against_impl": len(rows) + len(items),
            "programs": 7,
            "disagreements_checked": len(rows) + npk,
            "model_checking": [stats["mc_frame"], stats["mc_log"]] + ([stats["mc_log_console"]] if "mc_log_console" in stats else []),
            "model_counterexamples_replayed": stats["mc_candidates"],
            "frames": fstats,
            "constructor_calls": len(rows),
            "constructor_calls_accepted": len(ok_rows),
            "log_sessions": len(plain),
            "log_histories": {"histories": len(hists), "sessions": sum(len(it["hist"]) for it in hists),
                              "files_replayed": sum(len(it["files"]) for it in hists),
                              "with_cc_console": sum(any(h["console"] for h in it["hist"]) for it in hists)},
            "log_lines_offered": npk,
            "real_logs": [m["name"] for m in meta if m.get("path")],
            "failing_rows_per_key": stats["failing_rows_per_key"],
            "failing_sessions_per_key": stats["failing_sessions_per_key"],
            "received_frames_refused_outside_the_grammar_left_to_C01": stats["received_frames_refused_outside_the_grammar_left_to_C01"],
            "timing_s": {"model_checking": round(t1 - t0, 1), "constructors": round(t2 - t1, 1), "tlc_frames": round(t3 - t2, 1),
                         "log_sessions": round(t4 - t3, 1), "tlc_logs": round(t5 - t4, 1)},
            "samples": samples,
        },
        assumptions=[
            "CLI short form = 'verb [seqn] addr0 [addr1 [addr2]] code payload' (from_cli's docstring); the full form keeps "
            "the sequence token and all three addresses; abbreviated forms are judged only where from_cli documents the expansion",
            "a received frame refused by something other than the frame grammar (AssertionError / ValueError from payload "
            "inspection in Packet.__init__) is C01's subject and only counted here",
            "device ids: types 00-63; sequence numbers '---' and 000-255; payloads 1-48 bytes; other regex-valid forms are not judged",
            "log sessions run in the process's local time zone; timestamps as ISO text with microseconds",
        ],
    )


if __name__ == "__main__":
    main_wrapper(PID, main)

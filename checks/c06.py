"""C06 - request/reply correlation (spec/Correlate.tla, MC_Correlate, CorrelateTrace).

1. TLC model-checks the header scheme (MC_Correlate): every context family x source kind x gateway
   id x one-dimension near miss, one state per scenario; the states are dumped.
2. Every dumped scenario is concretised (real constructors where the API map has one, payload
   templates / members of the library's own regexes otherwise) and executed against the real
   Command / Packet (tx_header, rx_header, _hdr) and a real one-command PortProtocol on a VLoop with
   the harness FakeTransport (which packet does send_cmd() return?).
3. The RQ/RP and W/I exchanges found in the logs under /repo/tests are executed the same way, with
   near misses drawn from the other answers in the corpus.
4. CorrelateTrace (TLC) judges every recorded row: clauses a/b/c at header and FSM level, and the
   drift of the model (Hdr/Rx/Returned) against the code.
"""
from __future__ import annotations

import json
import os
import random
import shutil
import sys
import tempfile
from datetime import datetime as dt
from typing import Any

from harness import ext_c06 as x
from harness import fakes, tlc
from harness.report import Check, main_wrapper

PID = "C06"
HGI = x.HGI


# ---------------------------------------------------------------------------------------------
# concretisation of abstract commands: real constructors first


def _ctor_cmd(c: dict) -> str | None:
    """Frame text of the command built by the public constructor registered for c's verb|code, if
    there is one that builds this shape; the placeholder source is rewritten to c.src afterwards."""
    from ramses_tx.command import Command as C

    v, code, dst, idx, sub, src = c["verb"], c["code"], c["dst"], c["idx"], c["sub"], c["src"]
    k = (v, code)
    try:
        if c["fam"] == "bind":
            if v == " I" and src == dst:
                cmd = C.put_bind(" I", src, ["30C9"])
            elif v == " W":
                cmd = C.put_bind(" W", src, ["2309"], dst)
            else:
                cmd = C.put_bind(" I", src, ["30C9"], dst)
            return str(cmd)
        if v in (" I", "RP"):
            cmd = {
                (" I", "30C9"): lambda: C.put_sensor_temp(src, 21.0),
                (" I", "1260"): lambda: C.put_dhw_temp(src, 50.0),
                (" I", "3EF0"): lambda: C.put_actuator_state(src, 0.5),
                ("RP", "3EF1"): lambda: C.put_actuator_cycle(src, dst, 0.5, 10),
                (" I", "22F1"): lambda: C.set_fan_mode(dst, 1, src_id=src),
                (" I", "7FFF"): lambda: C._puzzle(),
            }[k]()
            return str(cmd)
        if k == (" W", "22F7"):
            return str(C.set_bypass_position(dst, bypass_position=0.5, src_id=src))
        n = int(sub, 16) if sub else 0
        cmd = {
            ("RQ", "0004"): lambda: C.get_zone_name(dst, idx),
            (" W", "0004"): lambda: C.set_zone_name(dst, idx, "Kitchen"),
            ("RQ", "0006"): lambda: C.get_schedule_version(dst),
            ("RQ", "0008"): lambda: C.get_relay_demand(dst, idx or None),
            ("RQ", "000A"): lambda: C.get_zone_config(dst, idx),
            (" W", "000A"): lambda: C.set_zone_config(dst, idx),
            ("RQ", "0100"): lambda: C.get_system_language(dst),
            ("RQ", "0404"): lambda: C.get_schedule_fragment(dst, idx, n, 0 if n == 1 else max(n, 3)),
            (" W", "0404"): lambda: C.set_schedule_fragment(dst, idx, n, max(n, 3), "AABB"),
            ("RQ", "0418"): lambda: C.get_system_log_entry(dst, n),
            ("RQ", "1030"): lambda: C.get_mix_valve_params(dst, idx),
            (" W", "1030"): lambda: C.set_mix_valve_params(dst, idx),
            ("RQ", "10A0"): lambda: C.get_dhw_params(dst, dhw_idx=int(idx, 16)),
            (" W", "10A0"): lambda: C.set_dhw_params(dst, dhw_idx=int(idx, 16)),
            ("RQ", "1100"): lambda: C.get_tpi_params(dst, domain_id=idx or None),
            (" W", "1100"): lambda: C.set_tpi_params(dst, idx),
            ("RQ", "1260"): lambda: C.get_dhw_temp(dst, dhw_idx=int(idx, 16)),
            ("RQ", "12B0"): lambda: C.get_zone_window_state(dst, idx),
            ("RQ", "1F41"): lambda: C.get_dhw_mode(dst, dhw_idx=int(idx, 16)),
            (" W", "1F41"): lambda: C.set_dhw_mode(dst, mode="follow_schedule", dhw_idx=int(idx, 16)),
            ("RQ", "2349"): lambda: C.get_zone_mode(dst, idx),
            (" W", "2349"): lambda: C.set_zone_mode(dst, idx, mode="permanent_override", setpoint=20.0),
            (" W", "2309"): lambda: C.set_zone_setpoint(dst, idx, 20.0),
            ("RQ", "2E04"): lambda: C.get_system_mode(dst),
            (" W", "2E04"): lambda: C.set_system_mode(dst, "auto"),
            ("RQ", "30C9"): lambda: C.get_zone_temp(dst, idx),
            ("RQ", "313F"): lambda: C.get_system_time(dst),
            (" W", "313F"): lambda: C.set_system_time(dst, dt(2024, 2, 29, 12, 0, 0)),
            ("RQ", "3220"): lambda: C.get_opentherm_data(dst, n),
        }[k]()
    except (KeyError, ValueError):   # no constructor for this verb|code, or not for this shape (e.g. no index)
        return None
    text = str(cmd)
    if text[:2] != v or text.split()[5] != code:
        return None  # the constructor builds another verb/code than it is registered for: C03's business
    if src != HGI:
        text = text.replace(HGI, src, 1)
    return text


def _rx_payload(f: dict, rng: random.Random, schema: dict) -> str | None:
    """A random member of the library's regex for f's verb|code with the context planted."""
    import re

    pat = schema.get(f["code"], {}).get(f["verb"])
    if not pat:
        return None
    for _ in range(8):
        p = x.regen(pat, rng, "rand")
        i, s, fam = f["idx"], f["sub"], f["fam"]
        if fam == "simple":
            p = i + p[2:]
        elif fam == "c4":
            p = i + s + p[4:]
        elif fam == "frag":
            if len(p) < 12:
                continue
            p = ("0023" if i == "HW" else i + "20") + p[4:10] + s + p[12:]
        elif fam in ("log", "msg"):
            if len(p) < 6:
                continue
            p = p[:4] + s + p[6:]
        elif fam == "none" and f["code"] != "2E04":
            p = (i if i not in ("", "00") else "00") + p[2:]
        elif fam == "bind":
            return None
        if len(p) % 2 == 0 and 2 <= len(p) <= 96 and re.match(pat, p) and p != x.NULL_LOG:
            return p
    return None


class Row:
    __slots__ = ("fam", "m", "c", "csrc", "gw", "wait", "pk", "sc", "variant")

    def __init__(self, fam: str, m: bool, c: dict, csrc: str, gw: str, wait: bool, pk: list[dict], sc: x.Scenario, variant: str) -> None:
        self.fam, self.m, self.c, self.csrc, self.gw, self.wait, self.pk, self.sc, self.variant = fam, m, c, csrc, gw, wait, pk, sc, variant


def src_kind(src: str, gw: str) -> str:
    return "placeholder" if src == HGI else "real" if src == gw else "imp"


def rows_from_states(states: list[dict], tier: str, rng: random.Random, stats: dict) -> list[Row]:
    from ramses_tx.ramses import CODES_SCHEMA

    rows: list[Row] = []
    ctor_cache: dict[str, str | None] = {}
    for st in states:
        c, gw, wait = st["c"], st["gw"], st["wait"]
        key = json.dumps(c, sort_keys=True)
        if key not in ctor_cache:
            ctor_cache[key] = _ctor_cmd(c)
        variants: list[tuple[str, str]] = []
        ct = ctor_cache[key]
        if ct is not None:
            variants.append(("ctor", ct))
            stats["ctor_cmds"].add(f"{c['verb']}|{c['code']}")
        else:
            variants.append(("tmpl", x.frame_text(c)))
        if tier == "thorough" or rng.random() < 0.10:
            p = _rx_payload(c, rng, CODES_SCHEMA)
            if p is not None:
                variants.append(("regex", x.frame_text(c, p)))
        for variant, cmd_text in variants:
            pk: list[dict] = []
            frames: list[str] = []
            for p in st["ps"]:
                f = p["f"]
                if p["kind"] == "echo":
                    fr = cmd_text.replace(HGI, gw)  # what the gateway puts on the air
                elif p["kind"] == "null":
                    fr = x.frame_text(f, x.NULL_LOG)
                elif variant == "regex" and (pl := _rx_payload(f, rng, CODES_SCHEMA)) is not None:
                    fr = x.frame_text(f, pl)
                else:
                    fr = x.frame_text(f)
                frames.append(fr)
                pk.append({"kind": p["kind"], "dim": p["dim"], "f": f})
            fam = f"{c['fam']}/{c['verb'].strip()}"
            rows.append(Row(fam, True, c, c["src"], gw, wait, pk, x.Scenario(cmd_text, gw, wait, frames), variant))
    return rows


def rows_from_logs(tier: str, rng: random.Random, stats: dict) -> list[Row]:
    """Exchanges of the shipped logs: [echo, reply] and near misses drawn from the corpus."""
    pairs, answers = x.log_pairs()
    stats["log_pairs"] = len(pairs)
    by_code: dict[str, list[str]] = {}
    for a in answers:
        by_code.setdefault(a.split()[5], []).append(a)
    rows: list[Row] = []
    replies_of: dict[str, set[str]] = {}
    for rq, rp in pairs:
        replies_of.setdefault(rq, set()).add(rp)
    for rq, rp in pairs:
        t = rq.split()
        verb, src, dst, code = rq[:2], t[2], t[3], t[5]
        gw = src if src[:3] == "18:" else "18:111111"
        rp_payload = rp.split()[7]
        kind = "null" if (code == "0418" and rp_payload == x.NULL_LOG) else "reply"
        fam = f"{x.FAMS.get(code, 'other')}/{verb.strip()}"

        def mk(pk: list[tuple[str, str, str]], wait: bool) -> None:
            rows.append(Row(fam, False, dict(x.EMPTY_F), src, gw, wait,
                            [{"kind": k, "dim": d, "f": dict(x.EMPTY_F)} for k, d, _ in pk],
                            x.Scenario(rq, gw, wait, [f for _, _, f in pk]), "log"))

        e = ("echo", "", rq)
        r = (kind, "", rp)
        mk([e], False)
        mk([e, r], True)
        mk([r, e], True)
        # near misses: the same answer from another device / with another verb; other answers of the
        # corpus with another code (same responder where possible)
        rt = rp.split()
        other_src = f"{rt[2][:3]}{(int(rt[2][3:]) + 1) % 262144:06d}"
        nm_src = rp.replace(rt[2], other_src, 1)
        nm_verb = (" I" if rp[:2] == "RP" else "RP") + rp[2:]
        mk([e, ("nm", "src", nm_src)], True)
        mk([e, ("nm", "verb", nm_verb)], True)
        others = [a for c2, lst in by_code.items() if c2 != code for a in lst if a.split()[2] == dst]
        if others:
            mk([e, ("nm", "code", rng.choice(others))], True)
        # an echo look-alike addressed to another device of the same type
        other_dst = f"{dst[:3]}{(int(dst[3:]) + 1) % 262144:06d}"
        mk([("nm", "dst", rq.replace(dst, other_dst, 1))], False)
        # context near misses from the corpus: answers of the same code/responder/addressee whose
        # (generator-side) context differs from the reply's; only for codes whose context is one the
        # statement lists
        my_ctx = x.ctx_of(code, rp_payload)
        if my_ctx is not None and kind == "reply":
            same = [a for a in by_code.get(code, []) if a.split()[2] == dst and a.split()[3] == rt[3] and a[:2] == rp[:2]
                    and a.split()[7] != x.NULL_LOG and x.ctx_of(code, a.split()[7]) != my_ctx]
            rng.shuffle(same)
            for a in same[: (6 if tier == "thorough" else 2)]:
                mk([e, ("nm", "ctx", a), r], True)
                mk([e, ("nm", "ctx", a)], True)
    return rows


# ---------------------------------------------------------------------------------------------


def observe(rows: list[Row], stats: dict) -> list[dict]:
    # every third exchange once more behind an enforced known list that names its devices but not the gateway: the
    # state machine must be handed its echo and reply whatever the receive-side device filter thinks of them
    extra = []
    for n, r in enumerate(rows):
        if n % 3 == 0 and r.sc.cmd_frame[7:9] == "18":
            sc2 = x.Scenario(r.sc.cmd_frame, r.sc.gw, r.sc.wait, list(r.sc.frames), flt="known")
            extra.append(Row(r.fam, r.m, r.c, r.csrc, r.gw, r.wait, r.pk, sc2, r.variant + "+flt"))
        # ... and behind a gateway whose id the transport never learns (the echo then comes from an 18: id that is
        # neither listed nor known to be the gateway): requests / writes from the placeholder to a device
        # (echo-only exchanges: with the gateway's id unknown a reply addressed to it cannot be told from anybody's)
        if (n % 2 == 1 and r.sc.cmd_frame[7:16] == HGI and r.sc.cmd_frame[:2] in ("RQ", " W") and r.sc.gw != HGI
                and not r.sc.wait and r.pk and all(p["kind"] == "echo" for p in r.pk)):
            sc3 = x.Scenario(r.sc.cmd_frame, r.sc.gw, r.sc.wait, list(r.sc.frames), flt="known+nogw")
            extra.append(Row(r.fam, r.m, r.c, r.csrc, r.gw, r.wait, r.pk, sc3, r.variant + "+flt-nogw"))
    stats["rows_behind_enforced_known_list"] = len(extra)
    # ... and every fourth exchange once more with the application taking a state snapshot (pause / resume of the protocol in
    # one callback) while the echo / reply are on their way: what is recognised must not depend on it
    snaps = []
    for n, r in enumerate(rows):
        if n % 4 == 2 and r.sc.flt == "":
            sc4 = x.Scenario(r.sc.cmd_frame, r.sc.gw, r.sc.wait, list(r.sc.frames), flt="snap")
            snaps.append(Row(r.fam, r.m, r.c, r.csrc, r.gw, r.wait, r.pk, sc4, r.variant + "+snap"))
    stats["rows_with_snapshot_mid_exchange"] = len(snaps)
    extra.extend(snaps)
    rows.extend(extra)
    stats["loop_exceptions"] = x.run_scenarios([r.sc for r in rows])
    dropped = [r for r in rows if r.sc.ret < 0]
    stats["rows_dropped_unbuildable"] = len(dropped)
    stats["dropped_examples"] = [r.sc.err for r in dropped[:3]]
    rows[:] = [r for r in rows if r.sc.ret >= 0]
    items = []
    for r in rows:
        sc = r.sc
        ps = []
        for k, p in enumerate(r.pk):
            payload = sc.frames[k].split()[7]
            kind = p["kind"]
            ps.append({"kind": kind, "dim": p["dim"], "src": sc.srcs[k], "dst": sc.dsts[k],
                       "null": payload == x.NULL_LOG, "hdr": x.split_hdr(sc.hdrs[k]), "f": p["f"]})
        items.append({"fam": r.fam, "m": r.m, "c": r.c, "csrc": r.csrc, "gw": r.gw, "wait": r.wait,
                      "txh": x.split_hdr(sc.txh), "rxh": x.split_hdr(sc.rxh), "ps": ps, "ret": sc.ret})
    return items


def replay_obj(r: Row) -> dict:
    return {"cmd": r.sc.cmd_frame, "gw": r.gw, "wait": r.wait, "frames": r.sc.frames,
            "kinds": [f"{p['kind']}:{p['dim']}" for p in r.pk], "variant": r.variant, "flt": r.sc.flt}


CLAUSES = {"a": "a.hdr", "b": "b.hdr", "c": "c.hdr", "h": "drift.hdr", "A": "a.fsm", "B": "b.fsm", "C": "c.fsm",
           "t": "drift.tx", "r": "drift.rx", "f": "drift.fsm"}


def judge(chk: Check, rows: list[Row], items: list[dict], workers: int, stats: dict) -> dict:
    res = x.validate_parallel("CorrelateTrace", items, chunk=2500, procs=workers)
    for idx, fail in res["rejects"]:
        r, it = rows[idx], items[idx]
        n = len(it["ps"])
        pairs = [(int(fail[j]), CLAUSES[fail[j + 1]]) for j in range(0, len(fail), 2)]
        taken_nm = any(cl == "c.fsm" for _, cl in pairs)
        fsm_fail = any(cl in ("a.fsm", "b.fsm", "c.fsm") for _, cl in pairs)
        hdr_detail = sorted({f"{cl}@{line}" for line, cl in pairs if cl.endswith(".hdr") and not cl.startswith("drift")})
        for line, clause in pairs:
            if clause.startswith("drift."):
                stats["drift"] += 1
                chk.model_drift(f"{clause} line {line} fam={r.fam} variant={r.variant}: cmd={r.sc.cmd_frame!r} gw={r.gw} "
                                f"wait={r.wait} tx={r.sc.txh} rx={r.sc.rxh} frames={r.sc.frames} hdrs={r.sc.hdrs} ret={r.sc.ret}")
                continue
            cl, lvl = clause.split(".")
            if lvl == "hdr":
                # Header (in)equality is the mechanism, "taken for the echo/reply" is an act of the FSM: every
                # packet judged here also sits in a scenario where the FSM would take it, so the verdict comes
                # from what send_cmd() returned.  A header-level miss the FSM does not act on is only noted.
                if not fsm_fail:
                    stats["hdr_only"] += 1
                    if stats["hdr_only"] <= 5:
                        chk.note(f"header-level clause {cl} fails but the FSM outcome is right (fam={r.fam}): cmd={r.sc.cmd_frame!r} "
                                 f"tx={r.sc.txh} rx={r.sc.rxh} frames={r.sc.frames} hdrs={r.sc.hdrs} ret={r.sc.ret}")
                continue
            if cl == "b" and taken_nm:
                continue  # the reply was not returned *because* a near miss was taken: reported under c
            p = it["ps"][it["ret"] - 1] if it["ret"] > 0 else None
            if p is None:
                what = "echo-unrecognised" if cl == "a" else "reply-unrecognised"
            elif p["kind"] == "nm":
                what = f"nm:{p['dim']}"
            else:
                what = f"returned-{p['kind']}"
            key = f"C06{cl}:{r.fam}:{src_kind(r.csrc, r.gw)}:{what}"
            chk.violation(key, f"clause {cl} fails for {r.sc.cmd_frame!r} (gw {r.gw}, wait={r.wait}): packets {r.sc.frames} "
                               f"-> send_cmd returned #{r.sc.ret}; tx={r.sc.txh} rx={r.sc.rxh} hdrs={r.sc.hdrs} header-level: {hdr_detail}",
                          replay_obj(r))
    return res


def do_replay(path: str) -> None:
    obj = json.load(open(path))
    rp = obj.get("replay", obj)
    sc = x.Scenario(rp["cmd"], rp["gw"], rp["wait"], rp["frames"], flt=rp.get("flt", ""))
    n_exc = x.run_scenarios([sc])
    print(f"command   {sc.cmd_frame!r}  gateway={sc.gw} wait_for_reply={sc.wait}")
    print(f"tx_header {sc.txh}\nrx_header {sc.rxh}")
    for k, fr in enumerate(sc.frames):
        print(f"  #{k + 1} [{rp.get('kinds', ['?'] * 9)[k]}] {fr!r}  _hdr={sc.hdrs[k]}")
    print(f"send_cmd() returned packet #{sc.ret}" if sc.ret else f"send_cmd() raised {sc.err}")
    print(f"exceptions in the loop: {n_exc}")
    sys.exit(0)


def main(tier: str, replay: str | None) -> None:
    if replay:
        do_replay(replay)
    chk = Check(PID, tier, "model_checking")
    rng = random.Random(chk.seed)
    fakes.quiet_logging()
    workers = 8 if tier == "thorough" else 4
    stats: dict[str, Any] = {"ctor_cmds": set(), "drift": 0, "log_pairs": 0, "hdr_only": 0}

    # 1. model checking + dump of every scenario
    tmp = tempfile.mkdtemp(prefix="c06_")
    try:
        cfg = "MC_Correlate_deep.cfg" if tier == "thorough" else "MC_Correlate.cfg"
        mc = tlc.run_tlc("MC_Correlate", cfg, workers=workers, cont=True, dump=os.path.join(tmp, "mc"), timeout=900)
        if not mc.ok:
            raise tlc.MachineryFailure(f"MC_Correlate: the model itself violates {mc.violated} {mc.errors[:2]}\n{mc.out[-1500:]}")
        states = tlc.read_dump(os.path.join(tmp, "mc"))
    finally:
        shutil.rmtree(tmp, ignore_errors=True)
    if len(states) != mc.distinct:
        raise tlc.MachineryFailure(f"dump has {len(states)} states, TLC reported {mc.distinct}")

    import time
    t1 = time.time()
    # 2./3. concretise + execute on the real code
    rows = rows_from_states(states, tier, rng, stats)
    n_model = len(rows)
    rows += rows_from_logs(tier, rng, stats)
    t2 = time.time()
    items = observe(rows, stats)
    t3 = time.time()

    # sanity of the generator (machinery, not verdict): proper replies are frames the decoder accepts
    _check_conforming(rows, chk)

    # 4. TLC judges
    res = judge(chk, rows, items, workers, stats)
    stats["wall"] = {"tlc_mc+dump_parse": round(t1 - chk.t0, 1), "concretise": round(t2 - t1, 1), "real_code_runs": round(t3 - t2, 1),
                     "tlc_validation": round(time.time() - t3, 1)}

    fams: dict[str, int] = {}
    for r in rows:
        fams[r.fam] = fams.get(r.fam, 0) + 1
    samples = []
    seen = set()
    for r, it in zip(rows, items):
        k = (r.fam, r.variant, tuple(p["kind"] + p["dim"] for p in it["ps"]))
        if k in seen or len(samples) >= 14:
            continue
        seen.add(k)
        samples.append({"cmd": r.sc.cmd_frame, "gw": r.gw, "wait": r.wait, "tx": r.sc.txh, "rx": r.sc.rxh,
                        "packets": [f"{p['kind']}:{p['dim']} {f} -> {h}" for p, f, h in zip(r.pk, r.sc.frames, r.sc.hdrs)],
                        "returned": r.sc.ret})
    chk.finish(
        coverage={
            "states": mc.distinct, "transitions": mc.states, "mc_invariants": 8,
            "traces_validated_against_impl": res["n"], "trace_states": res["states"],
            "scenarios_from_model": n_model, "scenarios_from_logs": len(rows) - n_model,
            "log_exchanges": stats["log_pairs"], "constructors_exercised": sorted(stats["ctor_cmds"]),
            "rows_per_family": fams, "rows_dropped_unbuildable": stats["rows_dropped_unbuildable"],
            "dropped_examples": stats["dropped_examples"], "loop_exceptions_during_runs": stats["loop_exceptions"], "rows_rejected": len(res["rejects"]), "wall_breakdown_s": stats["wall"], "drift_rows": stats["drift"], "header_level_misses_without_fsm_effect": stats["hdr_only"],
            "samples": samples,
        },
        assumptions=[
            "a near miss in the requester of a look-alike request (echo src) or in the addressee of a look-alike reply "
            "(reply dst) is recorded but not judged: the statement lists code, verb, responding device and context",
            "the 0418 null-entry reply is accepted for any log index (the exception the property's anchors name)",
            "commands for which the library expects no reply (rx_header is None: I/RP verbs, RQ|1FC9) are judged on their echo only",
            "contexts judged: zone/domain idx, 0005/000C type, log idx, OpenTherm id, fragment number (the ones the statement lists)",
        ],
    )


def _check_conforming(rows: list[Row], chk: Check) -> None:
    from ramses_tx.message import Message
    from ramses_tx.packet import Packet

    bad: dict[str, str] = {}
    seen: set[str] = set()
    n_rx = n_rx_ok = 0
    for r in rows:
        if not r.m:
            continue
        for p, fr in zip(r.pk, r.sc.frames):
            if p["kind"] != "reply" or fr in seen:
                continue
            seen.add(fr)
            try:
                Message(Packet(dt(2026, 1, 1), "045 " + fr))
                ok = True
            except Exception as err:  # noqa: BLE001
                ok = False
                t = fr.split()
                if r.variant != "regex" and (t[5], t[7]) not in x.SCHEMA_MIN_PAYLOADS:
                    bad.setdefault(fr.split()[5] + fr[:2], f"{fr!r}: {type(err).__name__}: {err}")
            if r.variant == "regex" or (fr.split()[5], fr.split()[7]) in x.SCHEMA_MIN_PAYLOADS:
                n_rx, n_rx_ok = n_rx + 1, n_rx_ok + ok
    chk.note(f"regex-bodied replies: {n_rx_ok} of {n_rx} distinct ones are also accepted by the payload parsers "
             f"(the others match the schema regex only; headers/FSM do not depend on it)")
    for k, v in sorted(bad.items()):
        chk.note(f"generator: proper reply not accepted by the decoder ({k}): {v}")
    if len(bad) > 6:
        raise tlc.MachineryFailure(f"{len(bad)} reply templates are not conforming frames: {list(bad.values())[:3]}")


if __name__ == "__main__":
    main_wrapper(PID, main)

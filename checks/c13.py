"""C13  No traffic can break the gateway: views always answer, the engine keeps running.

spec/Engine.tla        the pause / resume bracket of get_state and _restore_cached_packets, statement
                       by statement, with the body allowed to raise anywhere and nested misuse
spec/MC_Engine*.cfg    as the code is (no try/finally) / the proposed repair / read-only gateways
spec/EngineTrace.*     batch validation of recorded executions of a real Gateway

What runs:
  1. TLC: "running exactly as before after every operation" for all raise points and nestings --
     as the code is (modulo an operation whose body raised: the known defect), strictly for the
     repair, and the strict clause on the code as it is (expected counter-example: a body that
     raises leaves the engine paused).
  2. Histories built from every log under /repo/tests by deletion, duplication, reordering, splicing
     with another log and field mutation inside frames (extreme values: zero countdowns, FF/7F
     sentinels, maximal indexes; mostly kept only if the library's own decoder accepts them),
     eavesdropping on and off, fed to a real Gateway (FakeTransport, sending enabled, virtual
     clock following the log's timestamps).  After every k-th packet and at the end, at
     quiescence: every public view of the gateway and of every device, system and zone is read;
     get_state(include_expired = F, T) and a restore of each result; a probe packet of a fresh
     device, a probe packet of a device the gateway was tracking, and a probe command.
     Every third history begins at point zero: the same views and operations (restoring the snapshot
     an earlier session left of the history's first packets) on the gateway that has not been started
     yet, then start() - Engine.tla's phase 'not yet started' and Bind.
  3. TLC (EngineTrace, with Engine's Running / SameProj operators) judges every recorded trace.
"""
from __future__ import annotations

import concurrent.futures as cf
import json
import random
import sys
import time
from typing import Any

from harness import ext_c13 as X
from harness import fakes, tlc, vloop
from harness.report import Check, main_wrapper

PID = "C13"

MC = [  # name, cfg, expected violation
    ("as-is", "MC_Engine.cfg", None),
    ("as-is-readonly", "MC_Engine_ro.cfg", None),
    ("repaired", "MC_Engine_fixed.cfg", None),
    ("repaired-readonly", "MC_Engine_fixed_ro.cfg", None),
    ("as-is-strict", "MC_Engine_strict.cfg", "AsBefore"),
]


def run_mc(cfg: str) -> tlc.TlcResult:
    return tlc.run_tlc("MC_Engine", cfg, workers=1, timeout=300)


def plan(tier: str, rnd: random.Random, logs: dict) -> list[dict]:
    names = sorted(logs)
    quick = tier == "quick"
    max_len = 120 if quick else 400
    reps = 5 if quick else 24
    out = []
    for rep in range(reps):
        for name in names:
            rows, ops = X.derive(rnd, logs, name, max_len)
            # a targeted extreme value: the sync-cycle countdown (zero / maximal / minimal)
            syncs = [i for i, r in enumerate(rows) if r[1][37:41] == "1F09" and len(r[1]) >= 52]
            if syncs and rnd.random() < 0.35:
                i = rnd.choice(syncs)
                rows[i] = (rows[i][0], rows[i][1][:48] + rnd.choice(("0000", "FFFF", "0001")))
                ops.append("sync-countdown")
            k = max(3, len(rows) // rnd.choice((2, 4, 8)))
            out.append({"log": name, "ops": ops, "eav": rnd.choice((0, 1)), "k": k, "rows": rows,
                        "nodisc": rnd.choice((1, 1, 1, 0))})
    rnd.shuffle(out)
    # role-swapped traffic (valid packets of other device classes sent by this system's own devices)
    small = sorted((n for n in names if 10 <= len(logs[n]) <= 200), key=lambda n: len(logs[n]))
    picks = small[:: max(1, len(small) // (2 if quick else 8))][: (2 if quick else 8)]
    for n, name in enumerate(picks):
        rows = X.role_swapped(rnd, list(logs[name]), 2 if quick else 4, 1)
        out.insert(n, {"log": name, "ops": ["role-swapped"], "eav": n % 2, "k": max(50, len(rows) // 4), "rows": rows,
                       "nodisc": 1})
    # foreign kit: valid traffic of devices that are not this system's (HVAC, another controller, neighbours)
    for n, name in enumerate(picks[: (2 if quick else 6)]):
        rows = X.foreign_kit(rnd, list(logs[name])[-120:], 3 if quick else 5)
        out.insert(n, {"log": name, "ops": ["foreign-kit"], "eav": (n + 1) % 2, "k": max(200, len(rows) // 3),
                       "rows": rows, "nodisc": 1})
    # "snapshot/restore invoked at every point of the history": point zero included (before start())
    for n, hh in enumerate(out):
        hh["pre"] = int(n % 3 == 0)
    return out


async def run_all(hist: list[dict], budget_s: float) -> list[dict]:
    items = []
    t0 = time.time()
    for hh in hist:
        if time.time() - t0 > budget_s:
            break
        items.append(await X.run_history(hh["rows"], hh["eav"], hh["k"], nodisc=hh["nodisc"], pre=hh["pre"]))
    return items


def refine(cls: str, ev: dict, detail: str) -> str:
    """The key is the class TLC computed (clause + failing call site + exception type)."""
    return cls


def do_replay(path: str) -> None:
    obj = json.load(open(path))
    rp = obj.get("replay", obj)
    print(f"replaying {obj.get('key', '?')}: {obj.get('what', '')}")
    fakes.quiet_logging()
    item, _ = vloop.run(lambda: X.run_history([tuple(r) for r in rp["rows"]], rp["eav"], rp["k"], verbose=True,
                                              nodisc=rp.get("nodisc", 1), pre=rp.get("pre", 0)))
    clean = {k: v for k, v in item.items() if not k.startswith("_")}
    res = tlc.validate_batch("EngineTrace", [clean], workers=1)
    for idx, fails in res["rejects"]:
        for line, cls in fails:
            ev = item["ev"][line - 1]
            print(f"TLC: event {line} {ev['k']} {ev['name']} -> {ev['res']}  before={ev['before']} after={ev['after']}  => {refine(cls, ev, '')}")
    print("TLC verdict:", "rejected" if res["rejects"] else "accepted")
    sys.exit(1 if res["rejects"] else 0)


def main(tier: str, replay: str | None) -> None:
    if replay:
        return do_replay(replay)
    fakes.quiet_logging()
    chk = Check(PID, tier, "model_checking")
    rnd = random.Random(chk.seed)
    quick = tier == "quick"
    pool = cf.ThreadPoolExecutor(max_workers=2)
    futs = {name: (pool.submit(run_mc, cfg), cfg, exp) for name, cfg, exp in MC}

    logs = X.load_logs()
    hist = plan(tier, rnd, logs)
    items, _ = vloop.run(lambda: run_all(hist, 50 if quick else 900))
    hist = hist[: len(items)]

    # canaries: corrupted copies the judge must reject
    canaries: list[tuple[dict, str]] = []
    src = next((it for it in items if any(e["k"] == "op" and e["res"] == "ok" for e in it["ev"])), None)
    if src is not None:
        bad = {k: v for k, v in json.loads(json.dumps(src)).items() if not k.startswith("_")}
        e = next(e for e in bad["ev"] if e["k"] == "op" and e["res"] == "ok")
        e["after"] = ["saved", 0, 1, 0, 1, 1]
        canaries.append((bad, "C13b:not-running-as-before-after-"))
        bad2 = {k: v for k, v in json.loads(json.dumps(src)).items() if not k.startswith("_")}
        e = next(e for e in bad2["ev"] if e["k"] == "view")
        e["res"] = "KeyError"
        canaries.append((bad2, "C13a:view-raises"))
    src = next((it for it in items if any(e["k"] == "start" for e in it["ev"])), None)
    if src is not None:     # ... and of a history that begins before start(): writing left paused at point zero
        bad = {k: v for k, v in json.loads(json.dumps(src)).items() if not k.startswith("_")}
        e = next(e for e in bad["ev"] if e["k"] == "op" and e["tr"] == 0 and e["res"] == "ok")
        e["after"] = e["before"][:4] + [1] + e["before"][5:]
        canaries.append((bad, "C13b:not-running-as-before-after-"))
        bad2 = {k: v for k, v in json.loads(json.dumps(src)).items() if not k.startswith("_")}
        e = next(e for e in bad2["ev"] if e["k"] == "start")
        e["after"] = e["after"][:4] + [1] + e["after"][5:]
        canaries.append((bad2, "C13b:not-running-once-started-after-operations-before-start"))
    clean = [{k: v for k, v in it.items() if not k.startswith("_")} for it in items]
    res = tlc.validate_batch("EngineTrace", clean + [c[0] for c in canaries], workers=4 if quick else 8, chunk=300)
    rej = dict(res["rejects"])
    for ci, (_, want) in enumerate(canaries):
        got = rej.pop(len(items) + ci, ())
        if not any(str(f[1]).startswith(want) for f in got):
            raise tlc.MachineryFailure(f"canary {ci} ({want}) not rejected: {got}")

    classes: dict[str, int] = {}
    for idx, fails in sorted(rej.items()):
        hh, it = hist[idx], items[idx]
        for line, cls in fails:
            ev = it["ev"][line - 1]
            key = refine(cls, ev, it["_detail"][line - 1])
            classes[key] = classes.get(key, 0) + 1
            what = (f"{key}: history {hh['log']} ({'+'.join(hh['ops']) or 'as shipped'}, {len(hh['rows'])} packets, "
                    f"eavesdrop={'on' if hh['eav'] else 'off'}, discovery={'off' if hh['nodisc'] else 'on'}"
                    f"{', beginning before start()' if hh['pre'] else ''}), event {line}"
                    f"{' (gateway not yet started)' if not ev['tr'] else ''}: {ev['k']} {ev['name']} "
                    f"{it['_detail'][line - 1]} -> {ev['res']}; engine before {ev['before']} after {ev['after']}")
            chk.violation(key, what, {"rows": hh["rows"], "eav": hh["eav"], "k": hh["k"], "nodisc": hh["nodisc"], "pre": hh["pre"], "log": hh["log"],
                                      "ops": hh["ops"], "event": line})

    states = trans = 0
    mc_summary = {}
    for name, (fut, cfg, exp) in futs.items():
        r = fut.result()
        mc_summary[name] = {"cfg": cfg, "generated": r.states, "distinct": r.distinct, "depth": r.depth,
                            "violated": r.violated, "wall_s": round(r.wall_s, 1)}
        states += r.distinct
        trans += r.states
        if exp is None and not r.ok:
            raise tlc.MachineryFailure(f"TLC {cfg}: violated={r.violated} errors={r.errors[:3]}\n{r.out[-2500:]}")
        if exp is not None and r.violated != [exp]:
            chk.note(f"{cfg}: expected the counter-example to {exp}, got {r.violated}")
    pool.shutdown()

    n_ev = sum(len(i["ev"]) for i in items)
    kinds: dict[str, int] = {}
    for i in items:
        for e in i["ev"]:
            kinds[e["k"]] = kinds.get(e["k"], 0) + 1
    opsn: dict[str, int] = {}
    for hh in hist:
        for o in hh["ops"] or ["as-shipped"]:
            opsn[o] = opsn.get(o, 0) + 1
    view_names = sorted({e["name"] for i in items for e in i["ev"] if e["k"] == "view"})
    chk.finish(
        coverage={
            "states": states,
            "transitions": trans,
            "model_checking": mc_summary,
            "traces_validated_against_impl": len(items),
            "histories": len(items),
            "histories_beginning_before_start": sum(1 for i in items if i["_pre"]),
            "operations_on_a_gateway_not_yet_started": sum(1 for i in items for e in i["ev"]
                                                           if e["k"] in ("op", "opx", "nested") and not e["tr"]),
            "histories_by_operation": opsn,
            "logs_used": len({hh["log"] for hh in hist}),
            "packets_fed": sum(i["_fed"] for i in items),
            "frames_rejected_by_transport": sum(i["_rejected"] for i in items),
            "events_judged": n_ev,
            "events_by_kind": kinds,
            "distinct_views_read": len(view_names),
            "loop_exception_handler_calls_seen_not_judged": sum(i["_loop_exc"] for i in items),
            "histories_stopped_at_a_paused_engine": sum(1 for i in items if i["_stopped"]),
            "failure_classes_seen": classes,
            "corrupted_traces_rejected": len(canaries),
            "trace_validation_states": res["states"],
            "samples": [
                {"history": {k: hist[0][k] for k in ("log", "ops", "eav", "k", "pre")}, "first_rows": hist[0]["rows"][:3],
                 "events": items[0]["ev"][:4]},
                {"views": view_names[:40]},
            ],
        },
        assumptions=[
            "observations at quiescence (J1); public views = schema/params/status/traits (+ known_list of the gateway)",
            "a restore that raises is not by itself judged (only the state it leaves); a snapshot that raises is (C13a)",
            "exceptions reaching the loop's exception handler are counted, not judged (the statement does not mention them)",
            "a history is stopped at the first observation that finds the engine paused (everything after is a consequence)",
            "the gateway sends through a fake transport that echoes every frame; discovery is disabled",
            "a history that begins before start(): start() is requested when no operation is in progress (not while a "
            "restore awaits); before start() there are no probes (nothing to receive from or send through)",
        ],
    )


if __name__ == "__main__":
    main_wrapper(PID, main)

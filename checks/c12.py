"""C12 - active discovery reconstructs the controller's configuration (spec/Discovery.tla).

1. TLC checks the mechanism model: knowledge sound & monotone always, recovery one round after the
   last loss, complete eventually under fairness - for all small configurations x loss placements
   (instances A zones, B system parts, C two zones), for the code as it is (modulo the known trip:
   a zone's poller dying when its dict is re-armed during its for-loop) and for the proposed repair.
2. Configurations x loss patterns are taken out of TLC (enumeration of the instances' initial
   states, -simulate behaviours of a larger generator instance, the counter-example of the trip
   invariant) plus larger generated configurations; each drives a real Gateway (discovery ON)
   against a scripted controller on the virtual-time loop.
3. TLC (DiscoveryTrace) judges the sampled schema traces: C12c sound/monotone at every sample,
   C12a/b equal to the configuration from one polling interval + 5 min after the last loss (J9).
Which RQs the prober sends is recorded, not judged.
"""
from __future__ import annotations

import json
import multiprocessing as mp
import os
import random
import re
import shutil
import tempfile
import threading
import time
from typing import Any

from harness import ext_c12 as x
from harness import fakes, tlc
from harness.report import Check, main_wrapper

PID = "C12"
CODE_CLS = {v: k for k, v in x.CLS_CODE.items()}
SLACK = 300  # J9: five minutes

# --------------------------------------------------------------------------------------
# model <-> harness conversions


def cfg_from_model(m: dict) -> dict:
    zones = {}
    for z, r in (m["zones"] or {}).items() if isinstance(m["zones"], dict) else []:
        zones[z] = {"cls": CODE_CLS[r["cls"]], "sen": r["sen"], "acts": sorted(r["acts"])}
    return x.norm_cfg({"zones": zones, "dhw": dict(m["dhw"]), "app": m["app"]})


def losses_from_model(lost: Any, rng: random.Random) -> list[list]:
    out = []
    for (hdr, rnd) in sorted(lost):
        code, idx, role = hdr
        out.append([code, idx + role, int(rnd), rng.choice(["rp", "rp", "rq"])])
    return out


def to_K(k: dict) -> dict:
    """Schema in the JSON shape DiscoveryTrace expects (lists, uniform records)."""
    return {
        "zones": [{"z": z, "cls": v["cls"], "sen": v["sen"], "acts": list(v["acts"])}
                  for z, v in sorted(k["zones"].items())],
        "dhw": {"sen": k["dhw"]["sen"], "hwv": k["dhw"]["hwv"], "htv": k["dhw"]["htv"]},
        "app": k["app"],
    }


def to_item(rec: dict) -> dict:
    return {
        "cfg": to_K(rec["cfg"]),
        "samples": [{"t": int(s["t"]), "k": to_K(s["k"])} for s in rec["samples"]],
        "lossTimes": [int(t) + 1 for t in rec["loss_times"]],  # rounded up: never shortens the deadline
        "interval": int(rec["interval"]),
        "slack": SLACK,
    }


# --------------------------------------------------------------------------------------
# jobs (run in worker processes)


def n_days_for(losses: list[list]) -> int:
    return max([int(l[2]) for l in losses], default=-1) + 1 if losses else 1


def run_job(job: dict) -> dict:
    fakes.quiet_logging()
    losses = job.get("losses") or []
    kw = dict(n_days=job.get("n_days", n_days_for(losses)), seed=job.get("seed", 0),
              start=job.get("start", "named"), stop_when_complete=job.get("stop", True), scan=job.get("scan", False))
    if job.get("race"):
        # replay of the model's trip: deliver the class reply while the zone's poller is suspended
        # inside the send of `hdr` in round `rnd`; the phase is read off a probe run (same seed)
        race = job["race"]
        code, ctx = race["cls_hdr"].split("/")
        # probe: the same run with the class reply withheld beyond the window (identical timeline up
        # to the moment the late reply arrives)
        probe = x.run_discovery(job["cfg"], losses + [[code, ctx, race["rnd"], "late", 3000.0]],
                                **{**kw, "stop_when_complete": False, "n_days": race["rnd"]},
                                samples=[(race["rnd"], 600.0)])
        ivl = probe["interval"]
        lo, hi = (race["rnd"] - 0.5) * ivl, (race["rnd"] + 0.5) * ivl
        t_z = [t for t in probe["rqs"].get(race["hdr"], []) if lo <= t < hi]
        t_c = [t for t in probe["rqs"].get(race["cls_hdr"], []) if lo <= t < hi]
        if not t_z or not t_c or t_z[0] + 0.005 - t_c[0] < 0.012:  # a reply cannot precede its echo
            return {"job": job, "skipped": f"no phase for the race ({t_z[:1]}, {t_c[:1]})"}
        losses = losses + [[code, ctx, race["rnd"], "late", round(t_z[0] + 0.005 - t_c[0] - 0.05, 4)]]
        kw["n_days"] = max(kw["n_days"], race["rnd"] + 1)
    t0 = time.time()
    rec = x.run_discovery(job["cfg"], losses, **kw)
    rec["job"] = dict(job, losses_run=losses)
    rec["wall"] = round(time.time() - t0, 2)
    return rec


# --------------------------------------------------------------------------------------
# larger generated configurations (the quantifier's ranges: zones 00-0B, four classes, every
# permitted sensor type incl. the controller, 0-8 actuators, DHW subsets, appliance kinds)

SEN_TYPES = ["01", "03", "04", "12", "22", "34", "00", "own", ""]
ACT_TYPES = {"RAD": ["04", "00"], "VAL": ["13"], "ELE": ["13"], "MIX": ["13"]}


def gen_cfg(rng: random.Random, nz: int, maxacts: int) -> dict:
    n = [0]

    def nid(t: str) -> str:
        n[0] += 1
        return f"{t}:{n[0]:06d}"

    cfg: dict[str, Any] = {"zones": {}, "dhw": {}, "app": ""}
    ctl_used = False
    for idx in sorted(rng.sample(range(12), nz)):
        cls = rng.choice(sorted(ACT_TYPES))
        acts = [nid(rng.choice(ACT_TYPES[cls])) for _ in range(rng.randint(0, maxacts))]
        st = rng.choice(SEN_TYPES)
        if st == "01" and ctl_used:
            st = "34"
        if st == "01":
            ctl_used, sen = True, x.CTL
        elif st == "own":
            sen = acts[0] if (acts and cls == "RAD") else nid("34")
        elif st == "":
            sen = ""
        else:
            sen = nid(st)
        cfg["zones"][f"{idx:02X}"] = {"cls": cls, "sen": sen, "acts": acts}
    parts = rng.choice([(), ("sen",), ("hwv",), ("htv",), ("sen", "hwv"), ("sen", "htv"),
                        ("hwv", "htv"), ("sen", "hwv", "htv")])
    cfg["dhw"] = {"sen": nid("07") if "sen" in parts else "", "hwv": nid("13") if "hwv" in parts else "",
                  "htv": nid("13") if "htv" in parts else ""}
    cfg["app"] = rng.choice(["", nid("13"), nid("10")])
    return x.norm_cfg(cfg)


def polled_headers(cfg: dict) -> list[tuple[str, str]]:
    hs = [("000C", "000F"), ("000C", "000E"), ("000C", "010E"), ("000C", "000D")]
    hs += [("0005", "00" + c) for c in ("08", "0A", "0B", "11", "04")]
    for z, v in cfg["zones"].items():
        hs += [("000C", z + "00"), ("000C", z + "04"), ("000C", z + x.CLS_CODE[v["cls"]])]
    return hs


def gen_losses(rng: random.Random, cfg: dict, max_round: int) -> list[list]:
    hs = polled_headers(cfg)
    out = []
    for _ in range(rng.randint(1, 5)):
        h = rng.choice(hs)
        out.append([h[0], h[1], rng.randint(0, max_round), rng.choice(["rp", "rp", "rq"])])
    return out


# --------------------------------------------------------------------------------------
# TLC phase


class TlcPhase:
    """The model-checking runs.  `trip()` runs first (its counter-example feeds the drive); `rest()`
    runs in a thread beside the worker processes that execute the real Gateway."""

    def __init__(self, tier: str, workers: int) -> None:
        self.tier, self.workers = tier, workers
        self.cov: dict[str, Any] = {"instances": {}, "states": 0, "transitions": 0}
        self.error: BaseException | None = None
        self.t0 = time.time()

    def run(self, name: str, cfg: str, expect_ok: bool = True) -> tlc.TlcResult:
        r = tlc.run_tlc("MC_Discovery", cfg, workers=self.workers, timeout=1500)
        self.cov["instances"][name] = {"cfg": cfg, "ok": r.ok, "violated": r.violated,
                                       "distinct": r.distinct, "generated": r.states, "depth": r.depth,
                                       "wall_s": round(r.wall_s, 1)}
        self.cov["states"] += r.distinct
        self.cov["transitions"] += r.states
        if expect_ok and not r.ok:
            raise tlc.MachineryFailure(f"TLC {cfg}: model clause failed / error: violated={r.violated} "
                                       f"errors={r.errors[:2]}\n{r.out[-1500:]}")
        return r

    def trip(self) -> list | None:
        # the trip itself: a candidate only; its counter-example is replayed on the real code
        r = self.run("A_trip", "MC_Discovery_trip.cfg", expect_ok=False)
        if "NoDeadPoller" in r.violated and r.error_trace:
            return r.error_trace
        if not r.ok and not r.violated:
            raise tlc.MachineryFailure(f"TLC trip instance failed: {r.errors[:2]}\n{r.out[-1500:]}")
        return None

    def rest(self) -> None:
        try:
            # the code as it is: safety clauses modulo the known trip
            self.run("A_as_coded", "MC_Discovery.cfg")
            # the proposed repair, validated on the model first: every clause outright + liveness
            self.run("A_repaired", "MC_Discovery_fix.cfg")
            self.run("B_system_parts", "MC_Discovery_sys.cfg")
            if self.tier == "thorough":
                self.run("C_two_zones", "MC_Discovery_z2.cfg")
        except BaseException as err:  # noqa: BLE001  (re-raised in the main thread)
            self.error = err
        self.cov["tlc_wall_s"] = round(time.time() - self.t0, 1)


def enum_configs(cfgfile: str) -> list[dict]:
    r = tlc.run_tlc("MC_Discovery", cfgfile, workers=1, timeout=300)
    if not r.ok:
        raise tlc.MachineryFailure(f"TLC enumeration {cfgfile} failed: {r.errors[:2]}\n{r.out[-800:]}")
    out = []
    for p in r.prints:
        if isinstance(p, tuple) and len(p) == 2 and p[0] == "CFG":
            out.append(cfg_from_model(tlc.parse_value(p[1])))
    if not out:
        raise tlc.MachineryFailure(f"TLC enumeration {cfgfile}: no configurations printed")
    return out




def simulate_behaviours(n: int, seed: int) -> list[tuple[dict, list]]:
    """(configuration, lost exchanges) of n random behaviours of the generator instance."""
    tmp = tempfile.mkdtemp(prefix="c12sim_")
    try:
        r = tlc.run_tlc("MC_Discovery", "MC_Discovery_gen.cfg", workers=1, timeout=900,
                        simulate=f"file={tmp}/tr,num={n}", depth=170, seed=seed + 1)
        if not r.ok:
            raise tlc.MachineryFailure(f"TLC -simulate failed: {r.violated} {r.errors[:2]}\n{r.out[-800:]}")
        out = []
        for fn in sorted(os.listdir(tmp)):
            txt = open(os.path.join(tmp, fn)).read()
            i = txt.rfind("\nSTATE_")
            if i < 0:
                continue
            body = txt[i:].split("==", 1)[1]
            body = body.split("\n=====")[0]
            st = tlc.parse_state(body)
            out.append((st["cfg"], sorted(st["lost"])))
        if len(out) < n // 2:
            raise tlc.MachineryFailure(f"TLC -simulate: only {len(out)} of {n} behaviours parsed")
        return out
    finally:
        shutil.rmtree(tmp, ignore_errors=True)


def race_from_trip(trace: list) -> dict | None:
    """Turn the NoDeadPoller counter-example into a harness job (configuration, losses, race)."""
    if not trace:
        return None
    last = trace[-1][1]
    dead = [z for z, d in last["dead"].items() if d]
    if not dead:
        return None
    z = dead[0]
    # the state before the fatal SendDone: the header the poller was suspended in, and the round
    prev = trace[-2][1]
    hdr = prev["infl"][z]
    cls = last["known"]["zones"][z]["cls"]
    return {
        "cfg": cfg_from_model(last["cfg"]),
        "losses": [[h[0], h[1] + h[2], int(r), "rp"] for (h, r) in sorted(last["lost"])],
        "race": {"rnd": int(last["now"]), "hdr": f"{hdr[0]}/{hdr[1]}{hdr[2]}", "cls_hdr": f"0005/00{cls}"},
        "stop": False,
        "why": "TLC counter-example of NoDeadPoller (zone re-armed while its poller is inside its loop)",
    }


def race_variants() -> list[dict]:
    """The model's trip made concrete for each zone class.  The model counts time in rounds; in the
    code the entries of a zone are due milliseconds apart, and only entries that failed together are
    polled in one pass of the loop - so all of the zone's first-round exchanges are lost here."""
    out = []
    for cls, typ in (("RAD", "04"), ("ELE", "13"), ("VAL", "13"), ("MIX", "13")):
        code = x.CLS_CODE[cls]
        cfg = x.norm_cfg({"zones": {"00": {"cls": cls, "sen": "34:000200",
                                           "acts": [f"{typ}:000101", f"{typ}:000102"]}}})
        out.append({"cfg": cfg, "kind": "tlc-trip", "stop": False,
                    "losses": [["0005", "00" + code, 0, "rp"], ["000C", "0000", 0, "rp"], ["000C", "0004", 0, "rp"]],
                    "race": {"rnd": 1, "hdr": "000C/0000", "cls_hdr": f"0005/00{code}"}})
    return out


# --------------------------------------------------------------------------------------
# judging


def classify(rec: dict, fail: tuple) -> tuple[str, str]:
    idx, clause, field = fail[0], fail[1], (fail[2] if len(fail) > 2 else "")
    died = sorted({d.rsplit(":", 1)[-1] for d in rec.get("dead_pollers", [])} - {"CancelledError"})
    if clause == "ab_complete" and died:
        key = f"C12:ab_complete:poller-died({'+'.join(died)})"
    else:
        cause = "lossy" if rec["loss_times"] else "lossless"
        tag = ""
        if field.startswith("zone"):
            cfgz, got = rec["cfg"]["zones"], rec["samples"][max(idx - 1, 0)]["k"]["zones"]
            classes = sorted({cfgz[z]["cls"] if z in cfgz else "absent"
                              for z in set(cfgz) | set(got) if cfgz.get(z) != got.get(z)})
            tag = ":cls=" + "+".join(classes)
        key = f"C12:{clause}:{field}:{cause}{tag}"
    s = rec["samples"][max(idx - 1, 0)]
    what = (f"{clause} fails on field {field} at sample t={s['t']}s: schema {json.dumps(s['k'])} vs "
            f"configuration {json.dumps(rec['cfg'])}; losses at {rec['loss_times']}, "
            f"dead pollers {rec.get('dead_pollers')}")
    return key, what


def judge(chk: Check, recs: list[dict]) -> dict:
    items = [to_item(r) for r in recs]
    res = tlc.validate_batch("DiscoveryTrace", items, workers=2, timeout=900, chunk=400)
    for i, fail in res["rejects"]:
        rec = recs[i]
        if fail[1].startswith("harness_"):
            raise tlc.MachineryFailure(f"trace {i}: {fail} (job {rec['job']})")
        key, what = classify(rec, fail)
        chk.violation(key, what, {"job": rec["job"], "fail": list(fail)})
    return res


def selfcheck_judge(recs: list[dict]) -> int:
    """Corrupted copies of real traces must be rejected by TLC with the right clause."""
    base = next((r for r in recs if len(r["samples"]) >= 2 and r["cfg"]["zones"]
                 and r["samples"][-1]["k"] == r["cfg"]), None)
    if base is None:  # (a mutated library may never complete): a synthetic complete trace of a real cfg
        src = next((r for r in recs if r["cfg"]["zones"]), None)
        if src is None:
            raise tlc.MachineryFailure("no run with zones available for the judge self-check")
        base = dict(src, loss_times=[], samples=[{"t": 1, "k": x.empty_cfg()}, {"t": 60, "k": src["cfg"]}])

    def fresh() -> dict:  # the real trace plus one more (equal) sample after the deadline
        it = json.loads(json.dumps(to_item(base)))
        it["samples"].append(json.loads(json.dumps(it["samples"][-1])))
        it["samples"][-1]["t"] = max(it["samples"][-1]["t"] + 60, it["interval"] + SLACK + 10)
        return it

    def mut(fn) -> dict:
        it = fresh()
        fn(it)
        return it

    def unsound(it):  # the gateway 'learns' a sensor the controller never named
        it["samples"][-1]["k"]["zones"][0]["sen"] = "34:999999"

    def lost(it):  # a learned zone disappears again
        it["samples"][-1]["k"]["zones"] = it["samples"][-1]["k"]["zones"][1:]

    def incomplete(it):  # the class is never learned, not even after the deadline
        for s in it["samples"]:
            if s["k"]["zones"]:
                s["k"]["zones"][0]["cls"] = ""

    def extra_act(it):
        it["samples"][-1]["k"]["zones"][0]["acts"].append("13:999999")

    wants = [(unsound, "c_sound"), (lost, "c_monotone"), (incomplete, "ab_complete"), (extra_act, "c_sound")]
    items = [mut(fn) for fn, _ in wants] + [fresh()]
    res = tlc.validate_batch("DiscoveryTrace", items, workers=1, timeout=300)
    got = {i: f[1] for i, f in res["rejects"]}
    for i, (_, clause) in enumerate(wants):
        if got.get(i) != clause:
            raise tlc.MachineryFailure(f"judge self-check: corrupted trace {i} expected {clause}, got {got.get(i)}")
    if len(wants) in got:
        raise tlc.MachineryFailure(f"judge self-check: the uncorrupted trace was rejected: {got[len(wants)]}")
    return len(wants)


# --------------------------------------------------------------------------------------


def do_replay(path: str) -> None:
    obj = json.load(open(path))
    job = obj["replay"]["job"] if "replay" in obj else obj["job"]
    job = {k: v for k, v in job.items() if k != "losses_run"}
    rec = run_job(job)
    if "skipped" in rec:
        print("replay skipped:", rec["skipped"])
        return
    print("configuration:", json.dumps(rec["cfg"]))
    print("losses/late replies run:", rec["job"]["losses_run"], " loss times:", rec["loss_times"])
    prev = None
    for s in rec["samples"]:
        if s["k"] != prev:
            print(f"  t={s['t']:>7}s schema={json.dumps(s['k'])}")
        prev = s["k"]
    print("dead pollers:", rec["dead_pollers"], " loop exceptions:", rec["loop_exc"])
    res = tlc.validate_batch("DiscoveryTrace", [to_item(rec)], workers=1)
    print("TLC verdict:", res["rejects"] or "accepted")
    for _, fail in res["rejects"]:
        print("key:", classify(rec, fail)[0])


def main(tier: str, replay: str | None) -> None:
    if replay:
        do_replay(replay)
        return
    chk = Check(PID, tier, "model_checking")
    rng = random.Random(chk.seed)
    thorough = tier == "thorough"
    procs = 8 if thorough else 4
    workers = 6 if thorough else 3

    mc = TlcPhase(tier, workers)
    trip_trace = mc.trip()

    # ---- behaviours: configurations x loss patterns -------------------------------------
    jobs: list[dict] = []
    small = enum_configs("MC_Discovery_enumA.cfg") + enum_configs("MC_Discovery_enumB.cfg")
    for i, c in enumerate(small):  # every small configuration, loss-free, both ways of meeting the CTL
        jobs.append({"cfg": c, "losses": [], "start": ("named", "heard", "early")[i % 3], "kind": "small"})
        if i % 4 == 1:    # ... and with another gateway walking the controller's zone table meanwhile (its exchanges are overheard)
            jobs.append({"cfg": c, "losses": [], "start": ("named", "heard")[i % 2], "kind": "small+scan", "scan": True, "stop": False})
    sims = simulate_behaviours(600 if thorough else 24, chk.seed)
    seen = set()
    for m_cfg, lost in sims:
        c = cfg_from_model(m_cfg)
        ls = losses_from_model(lost, rng)
        k = json.dumps([c, ls], sort_keys=True)
        if k in seen:
            continue
        seen.add(k)
        jobs.append({"cfg": c, "losses": ls, "kind": "tlc-sim", "seed": rng.randint(0, 9)})
    n_sim = len(seen)
    for i in range(120 if thorough else 10):  # larger generated configurations
        c = gen_cfg(rng, rng.randint(0, 12), 8)
        ls = gen_losses(rng, c, 1) if i % 2 else []
        jobs.append({"cfg": c, "losses": ls, "kind": "generated", "seed": rng.randint(0, 9),
                     "start": rng.choice(["named", "heard", "early"])})
        if i % 3 == 0:
            jobs.append(dict(jobs[-1], kind="generated+scan", scan=True, stop=False))
    if thorough:  # long horizons: stability after completion, losses in later rounds
        for i in range(16):
            c = gen_cfg(rng, rng.randint(1, 5), 3)
            jobs.append({"cfg": c, "losses": gen_losses(rng, c, 2), "kind": "long", "stop": False,
                         "n_days": 3, "seed": i})
    race = race_from_trip(trip_trace)
    if race is not None:
        jobs.append(dict(race, kind="tlc-trip"))
        jobs += race_variants()
    else:
        chk.note("the model's trip invariant produced no counter-example to replay")

    t0 = time.time()
    with mp.get_context("fork").Pool(procs) as pool:  # fork before the TLC thread starts
        fut = pool.map_async(run_job, jobs, chunksize=1)
        th = threading.Thread(target=mc.rest)
        th.start()
        recs = fut.get()
        drive_wall = round(time.time() - t0, 1)
        th.join()
    if mc.error is not None:
        raise mc.error
    cov = mc.cov
    skipped = [r for r in recs if "skipped" in r]
    for r in skipped:
        chk.note(f"job skipped: {r['skipped']}")
    recs = [r for r in recs if "skipped" not in r]

    res = judge(chk, recs)
    n_self = selfcheck_judge(recs)

    # drift (never a verdict): the model says a loss-free run is complete within the first round
    for r in recs:
        if not r["loss_times"] and not r["job"].get("race") and r["samples"]:
            # the generated large systems (12 zones, 8 actuators each) take longer than the modelled small ones: the
            # requests of all pollers share one transmit queue; 10 virtual minutes + 5 per zone
            lim = 600 + 300 * len(r["cfg"].get("zones", {}))
            first10 = [s for s in r["samples"] if s["t"] <= lim]
            if first10 and first10[-1]["k"] != r["cfg"] and len(first10) >= 10:
                chk.model_drift(f"loss-free run not complete after {lim // 60} virtual minutes: {json.dumps(r['cfg'])[:300]}")
    died = [r for r in recs if any(not d.endswith("CancelledError") for d in r.get("dead_pollers", []))]
    loopexc = sorted({e for r in recs for e in r["loop_exc"]})

    kinds: dict[str, int] = {}
    for r in recs:
        kinds[r["job"]["kind"]] = kinds.get(r["job"]["kind"], 0) + 1
    samples = []
    for kind in ("small", "tlc-sim", "generated", "tlc-trip"):
        for r in [q for q in recs if q["job"]["kind"] == kind][:2]:
            samples.append({"kind": kind, "cfg": r["cfg"], "losses": r["job"]["losses_run"],
                            "loss_times": r["loss_times"], "t_end": r["t_end"],
                            "final": r["samples"][-1]["k"] == r["cfg"], "n_samples": len(r["samples"]),
                            "rqs_sent": {k: len(v) for k, v in list(r["rqs"].items())[:12]},
                            "dead_pollers": r["dead_pollers"]})
    chk.finish(
        coverage={
            "states": cov["states"],
            "transitions": cov["transitions"],
            "tlc_instances": cov["instances"],
            "traces_validated_against_impl": res["n"],
            "trace_states": res["states"],
            "runs_by_kind": kinds,
            "small_configurations_enumerated_by_tlc": len(small),
            "distinct_tlc_simulated_behaviours": n_sim,
            "runs_with_losses": sum(1 for r in recs if r["loss_times"]),
            "virtual_days_run": round(sum(r["t_end"] for r in recs) / 86400, 1),
            "schema_samples_judged": sum(len(r["samples"]) for r in recs),
            "runs_with_dead_poller": len(died),
            "dead_poller_runs_without_directed_race": [
                {"kind": r["job"]["kind"], "cfg": r["cfg"], "losses": r["job"]["losses_run"], "seed": r["seed"],
                 "dead": r["dead_pollers"], "complete_at_end": r["samples"][-1]["k"] == r["cfg"]}
                for r in died if not r["job"].get("race")][:5],
            "loop_exceptions_seen": loopexc[:6],
            "judge_selfcheck_corrupted_traces_rejected": n_self,
            "drive_wall_s": drive_wall,
            "tlc_wall_s": cov["tlc_wall_s"],
            "slowest_runs_s": sorted((r["wall"] for r in recs), reverse=True)[:5],
            "samples": samples,
        },
        assumptions=[
            "the scripted controller is consistent: each zone is in exactly one class mask; the controller "
            "as a zone sensor is named by its own id in the 000C reply; at most one zone uses it; device ids "
            "are not shared between zones/roles except a TRV that is also its zone's sensor",
            "a loss removes every transmission of one RQ header (or its replies) within one polling round; "
            "J9: equality is demanded from last loss + polling interval (read from the gateway) + 5 min",
            "reply latency is an environment choice (50 ms; one directed run delays a class reply so that it "
            "lands while the zone's poller is suspended in a send - the model's trip)",
            "TLC exhausts 1-2 zones x 2 classes x <= 2 actuators (+ DHW/appliance separately); larger "
            "configurations (12 zones, 8 actuators, all sensor types) are sampled on the real code only",
        ],
    )


if __name__ == "__main__":
    main_wrapper(PID, main)

#!/usr/bin/env python3
"""C16 findings, standalone (library only, no model, no harness).

    PYTHONPATH=/repo/src python /verif/checks/c16_repro.py        # prints one block per root cause

Each block: load a packet log into a Gateway (real FileTransport), get_state(), restore the result
into a fresh Gateway whose clock stands where the source's stands, wait for the loop to drain,
get_state() again, compare.
"""
import asyncio
import json
import logging
import os
import sys
import tempfile

logging.disable(logging.CRITICAL)

from ramses_rf import Gateway  # noqa: E402
from ramses_rf.helpers import shrink  # noqa: E402

TESTS = os.environ.get("RAMSES_TESTS", "/repo/tests/tests")
CTL = "01:145038"


async def drain() -> None:
    for _ in range(12):
        await asyncio.sleep(0)


async def load(lines: list[str]) -> Gateway:
    fd, path = tempfile.mkstemp(suffix=".log")
    os.write(fd, "".join(lines).encode())
    os.close(fd)
    with open(path) as fh:
        gwy = Gateway(None, input_file=fh, config={"disable_discovery": True})
        await gwy.start()
        await gwy._protocol.wait_for_connection_lost()
    os.unlink(path)
    await drain()
    return gwy


async def cycle(lines: list[str], ie: bool) -> tuple[dict, dict, dict, dict]:
    g1 = await load(lines)
    T = g1._dt_now()
    s1, p1 = g1.get_state(include_expired=ie)
    await drain()
    g2 = await load([])
    g2._transport._dt_now = lambda: T  # same instant: no time passes
    await g2._restore_cached_packets(p1)
    await drain()
    s2, p2 = g2.get_state(include_expired=ie)
    return shrink(s1), p1, shrink(s2), p2


def show(title: str, s1: dict, p1: dict, s2: dict, p2: dict) -> bool:
    print(f"--- {title}")
    bad = False
    for k in sorted(set(p1) - set(p2)):
        print(f"    lost  : {k} {p1[k][:70]}")
        bad = True
    for k in sorted(set(p2) - set(p1)):
        print(f"    gained: {k} {p2[k][:70]}")
        bad = True
    if s1 != s2:
        print(f"    schema before: {json.dumps(s1)[:230]}\n    schema after : {json.dumps(s2)[:230]}")
        bad = True
    print("    -> NOT a fixpoint" if bad else "    -> fixpoint")
    return bad


async def main() -> int:
    n = 0
    lines = open(f"{TESTS}/systems/heat_ufc_01/packet.log").readlines()
    n += show("R1 include_expired=True: expired packets are purged by reads (deferred _delete_msg)",
              *await cycle(lines, True))

    lines = [
        f"2026-01-01T12:00:00.000000 ... RP --- {CTL} 18:013393 --:------ 0005 004 00080700\n",
        f"2026-01-01T12:00:20.000000 ...  I --- {CTL} --:------ {CTL} 30C9 009 0007D00107D10207D2\n",
        f"2026-01-01T12:00:10.000000 ...  I --- {CTL} --:------ {CTL} 30C9 006 0007D30107D4\n",
    ]
    n += show("R2 history not in timestamp order (restore replays in timestamp order)", *await cycle(lines, True))

    lines = open(f"{TESTS}/devices/device_10.log").readlines()
    n += show("R3 several packets with one timestamp (the snapshot is a dict keyed by timestamp)",
              *await cycle(lines, True))

    lines = open(f"{TESTS}/systems/heat_simple/packet.log").readlines()
    n += show("R4a include_expired=False: a schema-defining 000C has expired and is left out",
              *await cycle(lines, False))

    lines = open(f"{TESTS}/parsers/code_0001_wip.log").readlines()
    n += show("R4b the controller is known only from its own W/RQ packets, which snapshots leave out",
              *await cycle(lines, True))

    lines = open(f"{TESTS}/devices/device_04.log").readlines()
    g = await load(lines)
    _, p = g.get_state(include_expired=False)
    msgs = [m for d in g.devices for m in d._msg_db if m.code == "313F" and m._expired]
    kept = [m for m in msgs if m.dtm.isoformat(timespec="microseconds") in p]
    print("--- R5 include_expired=False: expired date/time (313F) packets are kept on purpose")
    for m in kept[:2]:
        print(f"    in snapshot although msg._expired: {m.dtm} {m!r}"[:150])
    n += bool(kept)
    return 1 if n else 0


sys.exit(asyncio.run(main()))

"""C19 - the fault-log view tracks the controller's log and never shows an entry twice.

spec/FaultLog.tla (transcription of FaultLog._insert_into_map/_process_msg/handle_msg/get_faultlog
plus a simulated controller) is model-checked by TLC; every transition of the bounded state graph
(-dump, one-step history variable) is replayed on a real ramses_rf FaultLog from the empty object
(map compared = drift); every real history is recorded and judged by TLC (spec/FaultLogTrace.tla
evaluates the clauses of FaultLog.tla on the recorded public views = verdict).  Deeper: TLC
-simulate behaviours of a larger instance and seeded random histories against a 64-deep log.

usage: bin/check C19 quick|thorough [--replay FILE]
"""
from __future__ import annotations

import collections
import json
import logging
import multiprocessing as mp
import os
import random
import re
import shutil
import tempfile
import time
from concurrent.futures import ThreadPoolExecutor

from harness import tlc
from harness.report import Check, main_wrapper

PID = "C19"
ENV0 = {"FL_MODE": "clauses", "FL_DEPTH": "4", "FL_REPAIR": "0", "FL_PUSH": "0"}
WORKERS = int(os.environ.get("VERIF_C19_PROCS", "4"))
# transcription variants: the repository, the proposed _insert_into_map repair, + announcement repair
VARIANTS = [("repository", "FALSE", "FALSE", "TripsOrig"), ("repair", "TRUE", "FALSE", "TripsFix"),
            ("repair+push", "TRUE", "TRUE", "TripsNone")]


def cfg_variant(cfg: str, variant: tuple, tmp: str, no_invariant: bool = False) -> str:
    """The instance `cfg` with the transcription variant substituted (written to the scratch dir).
    no_invariant: for runs whose product is the *whole* state graph (-dump) - a tripped invariant would end the
    exploration at the first trip and leave a truncated graph (a vacuous conformance stage)."""
    txt = open(tlc.SPEC / cfg).read()
    if no_invariant:
        txt = re.sub(r"(?m)^INVARIANT .*\n", "", txt)
    new = re.sub(r"Repair = \w+\s+PushOnNew = \w+\s+KnownTrips <- \w+",
                 f"Repair = {variant[1]}  PushOnNew = {variant[2]}  KnownTrips <- {variant[3]}", txt)
    if new == txt and variant[1] != "FALSE":
        raise tlc.MachineryFailure(f"cannot derive variant {variant[0]} of {cfg}")
    path = os.path.join(tmp, f"{variant[0].replace('+', '_')}{'_noinv' if no_invariant else ''}_{cfg}")
    open(path, "w").write(new)
    return path


# --------------------------------------------------------------------------------------
def fn(v) -> dict:
    """A TLA+ function value as a dict (TLC prints a function with domain 1..n as a tuple)."""
    if isinstance(v, tuple):
        return {i + 1: x for i, x in enumerate(v)}
    return dict(v)


def skey(s: dict) -> tuple:
    return (tuple(sorted(fn(s["map"]).items())), tuple(sorted(s["log"])), tuple(s["clog"]), s["nts"],
            tuple(sorted(s["reported"])), tuple(sorted(s["rd"].items())), s["nev"])


def _parse_chunk(txt: str) -> list[dict]:
    return [tlc.parse_state(m.group(1))
            for m in re.finditer(r"(?ms)^State \d+:\s*\n(.*?)(?=^State \d+:|\Z)", txt)]


def read_dump_parallel(path: str, pool) -> list[dict]:
    txt = open(path).read()
    starts = [m.start() for m in re.finditer(r"(?m)^State \d+:", txt)]
    if not starts:
        return []
    n = max(1, len(starts) // (WORKERS * 4))
    cuts = starts[::n] + [len(txt)]
    chunks = [txt[cuts[i]:cuts[i + 1]] for i in range(len(cuts) - 1)]
    out: list[dict] = []
    for part in pool.map(_parse_chunk, chunks):
        out.extend(part)
    return out


def _run_many(args):
    """Worker: execute histories on real FaultLog objects; compare with the model's states if given."""
    logging.disable(logging.CRITICAL)
    from harness import ext_c19 as X
    depth, jobs = args
    res = []
    for job in jobs:
        hist, expect = job[0], job[1]
        obs = X.run_history(hist, depth, dispatch=(len(job) < 3 or job[2]))
        drift = ""
        if expect is not None:
            for n, (o, e) in enumerate(zip(obs, expect)):
                if e is None:
                    continue
                emap, elog, est = e
                if sorted(map(tuple, o["imap"])) != emap:
                    drift = f"step {n + 1} {hist[n]}: real _map={o['imap']} model map={emap}"
                elif o["ilog"] != elog:
                    drift = f"step {n + 1} {hist[n]}: real _log keys={o['ilog']} model log={elog}"
                elif (est == "done") != bool(o["done"]) or (est == "run") != bool(o["running"]):
                    drift = f"step {n + 1} {hist[n]}: get_faultlog running={o['running']} done={o['done']} model rd.st={est}"
                elif o["note"]:
                    drift = f"step {n + 1} {hist[n]}: {o['note']}"
                if drift:
                    break
        res.append((obs, drift))
    return res


def run_real(pool, depth: int, jobs: list) -> list:
    if not jobs:
        return []
    n = max(1, len(jobs) // (WORKERS * 8))
    parts = [(depth, jobs[i:i + n]) for i in range(0, len(jobs), n)]
    out = []
    for r in pool.map(_run_many, parts):
        out.extend(r)
    return out


ROOT = {"k": "init", "a": 0, "b": 0, "ts": 0, "view": [], "ilog": [], "le": 0, "lf": 0, "af": [], "exc": "", "note": ""}


def IDENT(step: dict) -> tuple:
    return (step["k"], step["a"], step["b"])


def fail_pairs(fail) -> list[tuple[int, str]]:
    """<<line, clause>> or <<line, clause, "l2:c2,l3:c3">>  ->  [(line, clause), ...]"""
    pairs = [(fail[0], fail[1])]
    if len(fail) > 2 and fail[2]:
        for part in fail[2].split(","):
            ln, c = part.split(":")
            pairs.append((int(ln), c))
    return pairs


def _run_gateway_many(args):
    """Worker: the same histories through a whole real Gateway (fake transport, virtual time)."""
    from harness import ext_c19 as X
    depth, hists = args
    return [X.run_history_gateway(h, depth) for h in hists]


def gateway_conformance(chk: Check, pool, label: str, depth: int, hists: list, stub_obs: list, n: int, stats: dict) -> None:
    """A sample of the histories again, through Gateway -> dispatcher -> Evohome -> FaultLog with the real QoS
    and Evohome.get_faultlog: must reproduce what the stub-driven FaultLog showed (binding of the stub),
    and is judged by TLC like every other real execution."""
    if not hists:
        return
    def ambiguous(h) -> bool:
        # a third party's RP for the very index our get_faultlog is waiting on satisfies the real QoS matcher
        # (same header) and advances the read-through: the same views arise as "rstep then reply", which the
        # model has anyway, but the step-by-step comparison with the stub would be off by one exchange
        # (a null RP carries idx 00 and is accepted for whatever index is pending)
        pos, n = None, 0
        for k, a, b in h:
            if k == "new":
                n = min(n + 1, depth)
            elif k == "clear":
                n = 0
            elif k == "rstart":
                pos = a
            elif k == "rstep" and pos is not None:
                pos += 1
            elif k == "rend":
                pos = None
            elif k == "reply" and pos is not None and (a == pos or a >= n):
                return True
        return False

    ok = [i for i, h in enumerate(hists) if not ambiguous(h)]
    withread = [i for i in ok if any(e[0] == "rstart" for e in hists[i])]
    wr = set(withread)
    others = [i for i in ok if i not in wr]
    pick = (withread[::max(1, len(withread) // max(1, (2 * n) // 3))][: (2 * n) // 3]
            + others[::max(1, len(others) // max(1, n // 3))][: n // 3])
    sample = [hists[i] for i in pick]
    size = max(1, len(sample) // (WORKERS * 4))
    res = []
    for part in pool.map(_run_gateway_many, [(depth, sample[i:i + size]) for i in range(0, len(sample), size)]):
        res.extend(part)
    diff = 0
    for (gobs, lexc), i in zip(res, pick):
        sobs = stub_obs[i]
        for ln, (g, s_) in enumerate(zip(gobs, sobs), 1):
            if (g["view"], g["imap"], g["ilog"], g["running"], g["done"], g["note"]) != \
               (s_["view"], s_["imap"], s_["ilog"], s_["running"], s_["done"], s_["note"]):
                diff += 1
                if diff <= 3:
                    chk.model_drift(f"{label}: whole-Gateway run differs from the stub-driven FaultLog at step {ln} of "
                                    f"{list(hists[i][:ln])}: gateway view={g['view']} note={g['note']!r} stub view={s_['view']}")
                break
        if lexc:
            stats["gateway_loop_exceptions"] += 1
            if stats["gateway_loop_exceptions"] <= 3:
                chk.note(f"{label}: event-loop exception during a Gateway run of {list(hists[i])}: {lexc[:2]}")
    stats["drift_items"] += diff
    g = stats["gateway"].setdefault(label, {"histories": 0, "real_steps": 0, "differ_from_stub": 0})
    g["histories"] += len(sample)
    g["real_steps"] += sum(len(h) for h in sample)
    g["differ_from_stub"] += diff
    judge(chk, label + ":gateway", depth, sample, [o for o, _ in res], stats)


def slim(obs: list[dict]) -> dict:
    keep = ("k", "a", "b", "ts", "view", "ilog", "le", "lf", "af", "exc", "note")
    return {"ev": [{k: o[k] for k in keep} for o in obs]}


# --------------------------------------------------------------------------------------
def judge(chk: Check, label: str, depth: int, histories: list, all_obs: list, stats: dict,
          drift_mode: bool = False) -> None:
    """Hand recorded real executions to TLC (FaultLogTrace); turn rejects into violations / drift."""
    from harness import ext_c19 as X
    runs = [slim(o)["ev"] for o in all_obs]
    env = dict(ENV0, FL_DEPTH=str(depth))
    r = X.validate_forest("FaultLogTrace", runs, IDENT, ROOT, procs=WORKERS, extra_env=env)
    stats["trace_states"] += r["nodes"]
    stats["traces"] += r["n"]
    for idx, pairs in r["rejects"]:
        corrupt = None  # (line, key) of the first a-clause trip: from then on the view is corrupt
        for line, clause in pairs:
            if clause == "harness":
                raise tlc.MachineryFailure(
                    f"{label}: harness/controller disagreement at line {line} of {histories[idx]}: {all_obs[idx][line - 1]}")
            clog = X.controller_after(histories[idx], depth, line)
            key = X.key_for(all_obs[idx], line, clause, clog)
            if corrupt is not None and line > corrupt[0]:
                key = f"{corrupt[1]}=>consequences"  # keyed by the root cause, whatever clause it is
            elif corrupt is None and key.startswith("C19a-"):
                corrupt = (line, key)
            if any(e[0] == "clear" for e in histories[idx][:line]):
                # a cleared controller log is outside the statement's quantifier: recorded, never a verdict
                stats["outside_quantifier"][key] += 1
                continue
            stats["rejects"][key] += 1
            chk.violation(key,
                          f"clause {clause} fails at step {line} ({histories[idx][line - 1]}) of a real FaultLog history; "
                          f"view={all_obs[idx][line - 1]['view']} controller={clog}",
                          {"depth": depth, "events": [list(e) for e in histories[idx][:line]], "line": line,
                           "clause": clause, "key": key, "source": label})
    if drift_mode:
        env.update(FL_MODE="drift", FL_REPAIR="1" if stats["variant"][1] == "TRUE" else "0",
                   FL_PUSH="1" if stats["variant"][2] == "TRUE" else "0")
        r2 = X.validate_forest("FaultLogTrace", runs, IDENT, ROOT, procs=WORKERS, extra_env=env)
        stats["trace_states"] += r2["nodes"]
        for idx, pairs in r2["rejects"][:5]:
            if pairs[0][1] == "harness":
                raise tlc.MachineryFailure(f"{label}: harness/controller disagreement at line {pairs[0][0]} of {histories[idx]}")
            chk.model_drift(f"{label}: real view differs from the transcription at line {pairs[0][0]} of {histories[idx][:pairs[0][0]]}")
        stats["drift_items"] += len(r2["rejects"])


def graph_conformance(chk: Check, pool, cfg: str, depth: int, stats: dict, tmp: str, tlc_workers: int) -> None:
    """TLC the instance; replay every transition of its state graph on the real object; judge.
    The repository transcription is tried first; if the code drifts from it, the repaired
    transcriptions are tried (so that applying a proposed fix is recognised, not reported as drift)."""
    first = None
    order = [v for v in VARIANTS if v[0] == stats["variant"][0]] or VARIANTS
    for variant in order + [v for v in VARIANTS if v not in order]:
        res = _graph_conformance(chk, pool, cfg, depth, stats, tmp, tlc_workers, variant)
        first = first or res
        if not res["drifts"]:
            break
    else:
        res, variant = first, order[0]
    if variant[0] != "repository":
        chk.note(f"{cfg}: the code conforms to the '{variant[0]}' transcription, not to the repository one")
    stats["variant"] = variant
    for d in res["drifts"][:3]:
        chk.model_drift(d)
    stats["drift_items"] += len(res["drifts"])
    stats["states"] += res["states"]
    stats["transitions"] += res["transitions"]
    stats["mc"][cfg] = res["mc"]
    stats["graph"][cfg] = dict(res["graph"], transcription=variant[0])
    judge(chk, cfg, depth, res["hists"], res["all_obs"], stats)
    gateway_conformance(chk, pool, cfg, depth, res["hists"], res["all_obs"], stats["gateway_n"], stats)
    if len(stats["samples"]) < 6 and res["hists"]:
        i = len(res["hists"]) // 2
        stats["samples"].append({"source": cfg, "events": [list(e) for e in res["hists"][i]],
                                 "final_view": res["all_obs"][i][-1]["view"]})


def _graph_conformance(chk, pool, cfg, depth, stats, tmp, tlc_workers, variant) -> dict:
    out: dict = {}
    dump = os.path.join(tmp, cfg.replace(".cfg", ""))
    t0 = time.time()
    # first the clauses (this run may stop at the first trip), then the whole graph without them
    rv = tlc.run_tlc("MC_FaultLog", cfg_variant(cfg, variant, tmp), workers=tlc_workers, timeout=1500)
    if rv.violated:
        r = tlc.run_tlc("MC_FaultLog", cfg_variant(cfg, variant, tmp, no_invariant=True), workers=tlc_workers, dump=dump, timeout=1500)
        r.violated = rv.violated
    else:
        r = tlc.run_tlc("MC_FaultLog", cfg_variant(cfg, variant, tmp), workers=tlc_workers, dump=dump, timeout=1500)
    out["mc"] = {"generated": r.states, "distinct_transitions": r.distinct, "depth": r.depth,
                 "violated": r.violated, "wall_s": round(r.wall_s + rv.wall_s, 1)}
    if r.errors or not r.completed and not r.violated:
        raise tlc.MachineryFailure(f"TLC {cfg}: {r.errors[:3]}\n{r.out[-1500:]}")
    if r.violated:
        # the transcription trips a clause outside KnownTrips: a candidate; the replay below decides
        chk.note(f"{cfg} [{variant[0]}]: model trips a clause outside KnownTrips ({r.violated}); candidates are replayed on the code")
    if r.distinct > 250_000:
        raise tlc.MachineryFailure(f"{cfg}: {r.distinct} transitions are too many for dump-based conformance (memory cap)")
    sts = read_dump_parallel(dump + ".dump", pool)
    os.unlink(dump + ".dump")
    nodes: dict[tuple, dict] = {}
    edges = []
    init = None
    model_trips: collections.Counter = collections.Counter()
    for s in sts:
        k = skey(s)
        nodes.setdefault(k, s)
        for c in s["trips"]:
            model_trips[c] += 1
        if s["h"]["ev"][0] == "init":
            init = k
        else:
            edges.append((skey(s["h"]["pre"]), tuple(s["h"]["ev"]), k))
    if init is None:
        raise tlc.MachineryFailure(f"{cfg}: no initial state in dump")
    adj = collections.defaultdict(list)
    for u, ev, v in edges:
        adj[u].append((ev, v))
    path = {init: ()}
    pstates = {init: ()}
    q = collections.deque([init])
    while q:
        u = q.popleft()
        for ev, v in adj[u]:
            if v not in path:
                path[v] = path[u] + (ev,)
                pstates[v] = pstates[u] + (v,)
                q.append(v)
    del sts
    proj = {k: (sorted(fn(s["map"]).items()), sorted(s["log"]), s["rd"]["st"]) for k, s in nodes.items()}
    n_nodes = len(nodes)
    del nodes

    def exp(k):
        return proj[k]
    jobs, hists = [], []
    seen = set()
    for u, ev, v in edges:
        if u not in path:
            continue  # unreachable pre-state cannot happen (dump is the reachable graph)
        hist = path[u] + (ev,)
        if hist in seen:
            continue
        seen.add(hist)
        hists.append(hist)
        jobs.append((hist, [exp(k) for k in pstates[u] + (v,)]))
    # histories that are proper prefixes of another are covered by it (every step is compared and judged)
    prefixes = set()
    for hsty in hists:
        for n in range(1, len(hsty)):
            prefixes.add(hsty[:n])
    keep = [i for i, hsty in enumerate(hists) if hsty not in prefixes]
    jobs = [jobs[i] for i in keep]
    hists = [hists[i] for i in keep]
    if r.violated and r.error_trace:  # TLC's counter-example of the transcription: a candidate, replayed and judged
        cex = tuple(tuple(st["h"]["ev"]) for _, st in r.error_trace if "h" in st and st["h"]["ev"][0] != "init")
        if cex and cex not in seen:
            hists.append(cex)
            jobs.append((cex, None))
    t1 = time.time()
    res = run_real(pool, depth, jobs)
    del jobs, proj, pstates, path, seen, prefixes
    out["graph"] = {"model_states": n_nodes, "model_transitions": len(edges), "histories_run": len(hists),
                    "real_steps": sum(len(hh) for hh in hists), "model_trips": dict(model_trips),
                    "parse_s": round(t1 - t0 - r.wall_s, 1), "replay_s": round(time.time() - t1, 1)}
    out["states"], out["transitions"] = n_nodes, len(edges)
    out["drifts"] = [f"{cfg} [{variant[0]}]: {drift} after {list(hsty)}" for (obs, drift), hsty in zip(res, hists) if drift]
    out["hists"], out["all_obs"] = hists, [o for o, _ in res]
    return out


def sim_conformance(chk: Check, pool, cfg: str, depth: int, num: int, length: int, stats: dict, tmp: str) -> None:
    """TLC -simulate behaviours of a larger instance -> real object, compared with the model at every step."""
    d = os.path.join(tmp, "sim_" + cfg.replace(".cfg", ""))
    os.makedirs(d)
    # (a generator run: the instance's invariant would stop the simulation at the first behaviour that trips it)
    gen_cfg = cfg_variant(cfg, stats["variant"], tmp)
    txt = re.sub(r"(?m)^INVARIANT .*\n", "", open(gen_cfg).read())
    open(gen_cfg, "w").write(txt)
    r = tlc.run_tlc("MC_FaultLog", gen_cfg, simulate=f"file={d}/tr,num={num}",
                    depth=length, seed=chk.seed + 1, workers=1, timeout=900)
    if r.errors:
        raise tlc.MachineryFailure(f"TLC -simulate {cfg}: {r.errors[:3]}\n{r.out[-1500:]}")
    behs = tlc.read_sim_traces(f"{d}/tr")
    if len(behs) < num // 2:
        raise tlc.MachineryFailure(f"TLC -simulate {cfg}: only {len(behs)} of {num} behaviours were generated")
    shutil.rmtree(d)
    jobs, hists = [], []
    seen = set()
    for beh in behs:
        sts = [s for _, s in beh if "h" in s and s["h"]["ev"][0] != "init"]
        hist = tuple(tuple(s["h"]["ev"]) for s in sts)
        if not hist or hist in seen:
            continue
        seen.add(hist)
        hists.append(hist)
        jobs.append((hist, [(sorted(fn(s["map"]).items()), sorted(s["log"]), s["rd"]["st"]) for s in sts]))
    res = run_real(pool, depth, jobs)
    ndrift = 0
    for (obs, drift), hsty in zip(res, hists):
        if drift:
            ndrift += 1
            if ndrift <= 3:
                chk.model_drift(f"simulate {cfg}: {drift} after {list(hsty)[:12]}...")
    stats["drift_items"] += ndrift
    stats["sim"][cfg] = {"behaviours": len(hists), "real_steps": sum(len(x) for x in hists)}
    judge(chk, "simulate:" + cfg, depth, hists, [o for o, _ in res], stats)
    # the same behaviours as a gateway that does not route messages to its entities lives them (reduce_processing):
    # get_faultlog() must file the replies to its own requests itself
    from harness import ext_c19 as X
    nd = sorted({X.nodispatch(h) for h in hists if any(e[0] == "rstart" for e in h)})[: max(40, len(hists) // 4)]
    res_nd = run_real(pool, depth, [(h, None, False) for h in nd])
    judge(chk, "simulate-nodispatch:" + cfg, depth, nd, [o for o, _ in res_nd], stats)
    stats["sim"][cfg]["behaviours_without_dispatch"] = len(nd)
    if hists:
        stats["samples"].append({"source": "simulate:" + cfg, "events": [list(e) for e in hists[0][:25]],
                                 "view_after_25": res[0][0][min(24, len(res[0][0]) - 1)]["view"]})


def random_deep(chk: Check, pool, n: int, stats: dict) -> None:
    """Seeded random histories against a 64-deep controller log (the statement's 'log up to 64 deep'):
    exercises indices up to 0x3F and the _MAX_LOG_IDX cut; judged (clauses) and compared (drift) by TLC."""
    rng = random.Random(chk.seed * 7919 + 19)
    hists = []
    for _ in range(n):
        hist: list[tuple] = []
        fill = rng.choice([0, 3, 20, 60, 64, 70])
        p_del = rng.choice([0.0, 0.5, 0.9, 1.0])
        for _ in range(fill):
            hist.append(("new", 1 if rng.random() < p_del else 0, 0))
        reading = None
        for _ in range(rng.randint(5, 40)):
            x = rng.random()
            if reading is not None:
                pos, hi, live = reading
                if x < 0.75:
                    hist.append(("rstep", pos, 0))
                    nlog = min(64, sum(1 for e in hist if e[0] == "new"))  # entries never cleared here
                    if pos >= nlog or pos + 1 >= hi:
                        hist.append(("rend", 0, 0))
                        reading = None
                    else:
                        reading = (pos + 1, hi, live)
                    continue
            if x < 0.35:
                hist.append(("new", 1 if rng.random() < 0.7 else 0, 0))
            elif x < 0.75:
                hist.append(("reply", rng.choice([0, 1, 2, 3, 5, 30, 61, 62, 63, rng.randint(0, 63)]), 0))
            elif x < 0.85:
                hist.append(("again", 0, 0))
            elif reading is None:
                s = rng.choice([0, 0, 0, 1, 50])
                lim = rng.choice([1, 3, 6, 64])
                hist.append(("rstart", s, lim))
                reading = (s, min(s + lim, 64), True)
        while reading is not None:  # let the running get_faultlog finish
            pos, hi, live = reading
            hist.append(("rstep", pos, 0))
            nlog = min(64, sum(1 for e in hist if e[0] == "new"))
            if pos >= nlog or pos + 1 >= hi:
                hist.append(("rend", 0, 0))
                reading = None
            else:
                reading = (pos + 1, hi, live)
        hists.append(tuple(hist))
    res = run_real(pool, 64, [(hh, None) for hh in hists])
    stats["deep"] = {"histories": len(hists), "real_steps": sum(len(x) for x in hists), "controller_depth": 64}
    judge(chk, "random-deep", 64, hists, [o for o, _ in res], stats, drift_mode=True)
    if hists:
        stats["samples"].append({"source": "random-deep (64-deep controller log)", "events_tail": [list(e) for e in hists[0][-12:]],
                                 "final_view": res[0][0][-1]["view"]})


def _run_loop_many(args):
    """Worker: histories with two get_faultlog callers, the calls running as tasks of a real asyncio loop."""
    logging.disable(logging.CRITICAL)
    from harness import ext_c19 as X
    depth, hists, dispatch = args
    return X.run_histories_loop(hists, depth, dispatch)


def two_callers(chk: Check, pool, tier: str, stats: dict) -> None:
    """Overlapping get_faultlog() calls on one FaultLog (the property's "any mix of ... complete read-throughs" does not
    say one at a time; Evohome.get_faultlog is a public coroutine and the routine discovery read uses the same one):
    every interleaving of two calls with ranges from `readers` - the second starts before the first request is
    answered, between two replies, after the first has returned; every order of the replies - after views that hold
    nothing / everything / stale positions; each caller judged by clause c over ITS range at ITS return (J20)."""
    from harness import ext_c19 as X
    depth = 4 if tier == "quick" else 5
    # ranges: short of the log / beyond its end (null reply) / not from the top (run, not judged by c); thorough: + exact
    readers = [(0, 2), (0, depth + 1), (1, 2)] if tier == "quick" else [(0, 2), (0, 3), (0, depth + 1), (1, 2)]
    if tier == "quick":
        prefixes = [(), (1, 1, 1), (0, 0, 0), (1, 0, 1, 0, 0)]
    else:
        prefixes = [()] + [tuple((m >> i) & 1 for i in range(3)) for m in range(8)] + [(1, 0, 0, 1), (0, 1, 1, 0), (1, 0, 1, 0, 0, 1)]
    hists = X.two_caller_histories(depth, prefixes, readers)
    # + one more event while the calls are under way (another device's reply heard, an announcement delivered / lost)
    rng = random.Random(chk.seed * 104729 + 7)
    more = X.two_caller_histories(depth, prefixes[1:4], [(0, 2), (0, depth + 1)],
                                  env=[("reply", 0, 0), ("reply", 2, 0), ("new", 1, 0), ("new", 0, 0)])
    hists += rng.sample(more, min(len(more), 300 if tier == "quick" else 3000))
    size = max(1, len(hists) // (WORKERS * 4))
    done = []
    for dispatch, sel in ((True, hists), (False, [X.nodispatch(h) for h in hists[::6]])):
        sel = sorted(set(sel))
        all_obs = []
        for part in pool.map(_run_loop_many, [(depth, sel[i:i + size], dispatch) for i in range(0, len(sel), size)]):
            all_obs.extend(part)
        done.append(("two-callers" + ("" if dispatch else "-nodispatch"), sel, all_obs))
    with ThreadPoolExecutor(2) as tp:  # (the two TLC batches side by side: a JVM start costs more than the folding)
        list(tp.map(lambda x: judge(chk, x[0], depth, x[1], x[2], stats), done))
    for label, sel, all_obs in done:
        stats["two_callers"][label] = {"histories": len(sel), "real_steps": sum(len(o) for o in all_obs), "controller_depth": depth,
                                       "ranges": [list(r) for r in readers],
                                       "calls_overlapping": sum(1 for h in sel if _overlap(h))}
    i = next((i for i, h in enumerate(hists) if _overlap(h) and ("r2start", 0, depth + 1) in h and len(h) > 9), 0)
    stats["samples"].append({"source": "two-callers", "events": [list(e) for e in hists[i]]})


def _overlap(h) -> bool:
    """the second call starts while the first is under way"""
    ks = [e[0] for e in h]
    return "r2start" in ks and "rend" in ks and ks.index("r2start") < ks.index("rend")


# --------------------------------------------------------------------------------------
def do_replay(path: str) -> None:
    logging.disable(logging.CRITICAL)
    from harness import ext_c19 as X
    data = json.load(open(path))
    rp = data.get("replay", data)
    events = [tuple(e) for e in rp["events"]]
    depth = rp["depth"]
    print(f"replaying {len(events)} events on a real FaultLog (controller depth {depth}); expected: {rp.get('key')}")
    if any(e[0].startswith("r2") for e in events):  # two callers: the calls run as tasks of a real loop
        obs = X.run_histories_loop([events], depth, dispatch=rp.get("source", "").find("nodispatch") < 0)[0]
    else:
        obs = X.run_history(events, depth)
    for n, (e, o) in enumerate(zip(events, obs), 1):
        print(f"  {n:2d} {e!s:22s} carried ts={o['ts']:<3d} view={dict(map(tuple, o['view']))} "
              f"controller={X.controller_after(events, depth, n)} {o['exc']} {o['note']}")
    r = X.validate_forest("FaultLogTrace", [slim(obs)["ev"]], IDENT, ROOT, procs=1, extra_env=dict(ENV0, FL_DEPTH=str(depth)))
    if not r["rejects"]:
        print("TLC (FaultLogTrace): every clause holds on this execution -> not reproduced")
        raise SystemExit(0)
    pairs = r["rejects"][0][1]
    corrupt = None
    for line, clause in pairs:
        key = X.key_for(obs, line, clause, X.controller_after(events, depth, line))
        if corrupt is not None and line > corrupt[0]:
            key = f"{corrupt[1]}=>consequences"
        elif corrupt is None and key.startswith("C19a-"):
            corrupt = (line, key)
        print(f"TLC (FaultLogTrace): clause {clause} fails at step {line}; key = {key}")
    raise SystemExit(1)


def main(tier: str, replay: str | None) -> None:
    if replay:
        return do_replay(replay)
    logging.disable(logging.CRITICAL)
    chk = Check(PID, tier, "model_checking")
    stats = {"mc": {}, "graph": {}, "sim": {}, "deep": {}, "states": 0, "transitions": 0, "traces": 0,
             "trace_states": 0, "drift_items": 0, "variant": VARIANTS[0], "gateway": {}, "two_callers": {}, "gateway_loop_exceptions": 0,
             "gateway_n": 240 if tier == "quick" else 3000, "rejects": collections.Counter(), "outside_quantifier": collections.Counter(), "samples": []}
    tmp = tempfile.mkdtemp(prefix="c19_")
    ctx = mp.get_context("fork")
    try:
        with ctx.Pool(WORKERS) as pool, ThreadPoolExecutor(3) as tp:
            # the repaired transcriptions are checked by TLC alongside (they validate the proposed fixes
            # on the model; they say nothing about the code and cannot alarm)
            side = {c: tp.submit(tlc.run_tlc, "MC_FaultLog", c, workers=2, timeout=1500)
                    for c in (("MC_FaultLog_fix.cfg", "MC_FaultLog_fix2.cfg") if tier == "quick" else
                              ("MC_FaultLog_fix.cfg", "MC_FaultLog_fix2.cfg", "MC_FaultLog_big.cfg", "MC_FaultLog_bigfix.cfg", "MC_FaultLog_bigfix2.cfg"))}
            if tier == "quick":
                graph_conformance(chk, pool, "MC_FaultLog.cfg", 4, stats, tmp, 2)
                sim_conformance(chk, pool, "MC_FaultLog_sim.cfg", 6, 150, 60, stats, tmp)
                random_deep(chk, pool, 60, stats)
                two_callers(chk, pool, tier, stats)
            else:
                graph_conformance(chk, pool, "MC_FaultLog.cfg", 4, stats, tmp, 4)
                graph_conformance(chk, pool, "MC_FaultLog_t.cfg", 5, stats, tmp, 4)
                sim_conformance(chk, pool, "MC_FaultLog_sim.cfg", 6, 3000, 80, stats, tmp)
                random_deep(chk, pool, 1500, stats)
                two_callers(chk, pool, tier, stats)
            for c, fut in side.items():
                r = fut.result()
                stats["mc"][c] = {"generated": r.states, "distinct_transitions": r.distinct, "depth": r.depth,
                                  "violated": r.violated, "wall_s": round(r.wall_s, 1)}
                if r.errors or not r.completed and not r.violated:
                    raise tlc.MachineryFailure(f"TLC {c}: {r.errors[:3]}\n{r.out[-1500:]}")
                if r.violated and "fix" in c:
                    chk.note(f"{c}: the REPAIRED transcription trips {r.violated} - the proposed fix is not validated by the model")
                elif r.violated:
                    chk.note(f"{c}: model trips a clause outside KnownTrips: {r.violated} (model-level candidate only)")
    finally:
        shutil.rmtree(tmp, ignore_errors=True)
    # the model's KnownTrips must mirror the recorded findings (clause names)
    known_clauses = {k.split(":")[0].split("-", 1)[1] for k in chk.known}
    src = open(tlc.SPEC / "MC_FaultLog.tla").read()
    m = re.search(r"TripsOrig\s*==\s*\{([^}]*)\}", src)
    model_known = set(re.findall(r'"(\w+)"', m.group(1))) if m else set()
    if known_clauses != model_known:
        chk.note(f"KnownTrips of MC_FaultLog {sorted(model_known)} differ from the clauses of known_findings {sorted(known_clauses)}")
    print(f"C19 {tier}: TLC instances: " + "; ".join(
        f"{c}: {v['distinct_transitions']} distinct ({v['generated']} generated) {'violated=' + str(v['violated']) if v['violated'] else 'ok'}"
        for c, v in stats["mc"].items()))
    print(f"C19 {tier}: model transitions replayed on the real FaultLog: {stats['transitions']} "
          f"(drift on {stats['drift_items']} histories); real histories judged by TLC: {stats['traces']}; "
          f"clause trips by key: {dict(stats['rejects'])}")
    chk.finish(
        coverage={
            "states": stats["states"],
            "transitions": stats["transitions"],
            "traces_validated_against_impl": stats["traces"],
            "trace_validation_states": stats["trace_states"],
            "tlc_instances": stats["mc"],
            "transcription_the_code_conforms_to": stats["variant"][0],
            "graph_conformance": stats["graph"],
            "whole_gateway_runs": stats["gateway"],
            "whole_gateway_loop_exceptions": stats["gateway_loop_exceptions"],
            "simulation": stats["sim"],
            "random_deep": stats["deep"],
            "two_callers": stats["two_callers"],
            "clause_trips_on_real_code_by_key": dict(stats["rejects"]),
            "clause_trips_outside_quantifier_cleared_log": dict(stats["outside_quantifier"]),
            "samples": stats["samples"],
        },
        assumptions=[
            "timestamps of log entries are unique and increase with logging order (the library's own stated assumption)",
            "a reply/announcement reflects the controller's log at the instant it is processed (no reordering of 0418 packets in flight)",
            "get_faultlog is driven through a stub gateway (each RP is first given to handle_msg - the dispatcher path - then returned to the coroutine); a sample of the histories is re-run through a whole real Gateway (real dispatcher/QoS/Evohome.get_faultlog) and must agree step by step",
            "exhaustive part: controller depth <= 5, <= 7-8 environment events; deeper behaviour is sampled (TLC -simulate, seeded random 64-deep histories)",
        ],
    )


if __name__ == "__main__":
    main_wrapper(PID, main)

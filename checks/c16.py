"""C16  Saved state restores: snapshot -> fresh gateway -> snapshot is a fixpoint.

spec/Snapshot.tla      device stores (code/verb/ctx) + zone stores (code), wanted_msg, the dtm-keyed
                       dict, replay in timestamp order, purge-on-read; laws a/b/c
spec/MC_Snapshot*.cfg  ideal (chronological, no purge: all laws strictly) / purge / any order / as-is
spec/SnapshotTrace.*   batch validation of recorded operations of real Gateways

What runs:
  1. TLC on the model instances.  MC_Snapshot_order (packets arriving out of timestamp order, no
     purge) is *expected* to violate the fixpoint: its counter-example is concretised into a log and
     replayed on the real code (a reproduced one is a genuine defect, J14).
  2. Histories derived from every log under /repo/tests (full, prefixes, deletions, duplications,
     splices / interleavings of two logs, with the RQ/RP exchanges of a polling gateway), eavesdropping off and on.  For include_expired on and
     off (each on a gateway loaded afresh from the history through the real FileTransport):
        get_state -> fresh Gateway (clock pinned to the source's) -> _restore_cached_packets ->
        get_state -> the same snapshot again -> get_state -> the snapshot back into its source ->
        get_state;   every observation after the loop has drained (J1).
     Every snapshot line is re-decoded with the library's decoder (C16c); "expired" is judged twice: by the
     library's own verdict and - independently - by C14's lifetime rule on the packet's age and lifetime.
  3. TLC (SnapshotTrace) judges every operation trace.
"""
from __future__ import annotations

import concurrent.futures as cf
import json
import os
import random
import re
import sys
import time
from typing import Any

from harness import ext_c16 as X
from harness import fakes, tlc, vloop
from harness.report import Check, main_wrapper

PID = "C16"
HOWS = ("full", "prefix", "delete", "duplicate", "splice", "interleave")   # + "polled" (plan)


def mc_jobs(tier: str) -> list[tuple[str, str, str | None]]:
    q = tier == "quick"
    return [
        ("ideal", "MC_Snapshot_ideal.cfg", None),
        ("purge", "MC_Snapshot_purge.cfg" if q else "MC_Snapshot_purge_t.cfg", None),
        ("as-is", "MC_Snapshot.cfg" if q else "MC_Snapshot_t.cfg", None),
        ("order", "MC_Snapshot_order.cfg", "FixA"),
    ]


def run_mc(cfg: str, workers: int) -> tlc.TlcResult:
    return tlc.run_tlc("MC_Snapshot", cfg, workers=workers, timeout=1500)


def model_history(r: tlc.TlcResult) -> tuple | None:
    ms = re.findall(r"(?ms)^/\\ h = (.*?)(?=^/\\ |^\s*$|\Z)", r.out)
    return tlc.parse_value(ms[-1]) if ms else None


_DEV = re.compile(r"^\d\d:\d{6}$")


def schema_diff_paths(a: Any, b: Any, path: tuple = ()) -> set[str]:
    """Generalised paths at which two shrunk schemas differ (device ids -> <dev>, zone/circuit
    indexes -> <idx>): the input class of a schema difference."""
    def gen(k: str) -> str:
        if _DEV.match(k):
            return "<dev>"
        if re.fullmatch(r"[0-9A-F]{2}|HW", k):
            return "<idx>"
        return k
    if isinstance(a, dict) and isinstance(b, dict):
        out: set[str] = set()
        for k in set(a) | set(b):
            if k not in a or k not in b:
                out.add("/".join(path + (gen(k),)))
            else:
                out |= schema_diff_paths(a[k], b[k], path + (gen(k),))
        return out
    return set() if a == b else {"/".join(path)}


REF_OF = {3: 1, 5: 3, 7: 1, 10: 8, 12: 10, 14: 8}


def plan(tier: str, rnd: random.Random) -> list[dict]:
    files = X.log_files()
    logs = {f: X.packet_lines(f) for f in files}
    logs = {f: ls for f, ls in logs.items() if ls}
    names = sorted(logs)
    big = 320 if tier == "quick" else 2000
    per_log = 2 if tier == "quick" else 10
    out: list[dict] = []
    extra: list[tuple[int, dict]] = []   # drawn from a stream of their own: the plan of the other derivations is unchanged
    rnd2 = random.Random(repr(rnd.getstate()[1][:8]))  # from the seed, without drawing from rnd
    for f in names:
        base = logs[f]
        if len(base) > big:
            if tier == "quick":
                base = base[: big]
        hows = ["full"] + [rnd.choice(HOWS[1:]) for _ in range(per_log)]
        if tier != "quick":
            hows += ["prefix", "splice"]
        for how in hows:
            other_name = rnd.choice(names)
            other = logs[other_name][:big]
            lines = X.derive(rnd, base, other, how)
            if not lines:
                continue
            out.append({"log": os.path.relpath(f, X.tests_dir()), "how": how,
                        "other": os.path.relpath(other_name, X.tests_dir()) if how in ("splice", "interleave") else "",
                        "eav": rnd.choice((0, 0, 1)), "lines": lines})
            if how == "full" and (tier != "quick" or len(out) % 4 == 1):
                # the same history with the state read once while its last packets are fresh, then aged
                out.append(dict(out[-1], how="full+aged", age_s=float(rnd.choice((900, 3600, 86400)))))
        # the log as a polling gateway would have heard it (RQ / RP exchanges after the controller's announcements;
        # RP|1F09 carries its own lifetime), read at its end and once more later
        for _ in range(1 if tier == "quick" else 3):
            lines = X.derive(rnd2, base[:big], [], "polled")
            if lines:
                hh = {"log": os.path.relpath(f, X.tests_dir()), "how": "polled", "other": "", "eav": rnd2.choice((0, 0, 1)),
                      "lines": lines}
                extra.append((len(out), hh))
                extra.append((len(out), dict(hh, how="polled+aged", age_s=float(rnd2.choice((300, 900, 3600, 86400))))))
    for pos, hh in reversed(extra):
        out.insert(pos, hh)
    return out


async def run_all(hist: list[dict], pid: X.Interner, sid: X.Interner, budget_s: float) -> list[dict]:
    items = []
    t0 = time.process_time()   # CPU seconds of this process: on a loaded machine the plan is not cut short (its tail
    for hh in hist:            # - tests/tests/systems/* - would never run), the run merely takes longer
        if time.process_time() - t0 > budget_s:
            break
        items.append(await X.run_history(hh["lines"], hh["eav"], pid, sid, age_s=hh.get("age_s", 0.0)))
    return items


def do_replay(path: str) -> None:
    obj = json.load(open(path))
    rp = obj.get("replay", obj)
    print(f"replaying {obj.get('key', '?')}: {obj.get('what', '')}")
    fakes.quiet_logging()
    pid, sid = X.Interner(), X.Interner()
    item, _ = vloop.run(lambda: X.run_history(rp["lines"], rp["eav"], pid, sid, verbose=True, age_s=rp.get("age_s", 0.0)))
    ops = item["ops"]
    for a, b in ((1, 3), (3, 5), (1, 7), (8, 10), (10, 12), (8, 14)):
        if b <= len(ops) and ops[a - 1]["ok"] and ops[b - 1]["ok"]:
            ra, rb = set(ops[a - 1]["pk"]), set(ops[b - 1]["pk"])
            for i in sorted(ra - rb):
                print(f"  lost   (op {a} -> op {b}): {' '.join(pid.rev[i])}{'   [expired]' if i in ops[a - 1]['exp'] else ''}")
            for i in sorted(rb - ra):
                print(f"  gained (op {a} -> op {b}): {' '.join(pid.rev[i])}")
            if ops[a - 1]["sch"] != ops[b - 1]["sch"]:
                print(f"  schema (op {a}): {sid.rev[ops[a - 1]['sch']]}\n  schema (op {b}): {sid.rev[ops[b - 1]['sch']]}")
    res = tlc.validate_batch("SnapshotTrace", [item], workers=1)
    print("TLC verdict:", res["rejects"] or "accepted")
    sys.exit(1 if res["rejects"] else 0)


def main(tier: str, replay: str | None) -> None:
    if replay:
        return do_replay(replay)
    fakes.quiet_logging()
    chk = Check(PID, tier, "model_checking")
    rnd = random.Random(chk.seed)
    quick = tier == "quick"
    pool = cf.ThreadPoolExecutor(max_workers=2 if quick else 3)
    futs = {name: (pool.submit(run_mc, cfg, 2 if quick else 4), cfg, exp) for name, cfg, exp in mc_jobs(tier)}

    pid, sid = X.Interner(), X.Interner()
    hist = plan(tier, rnd)
    items, _ = vloop.run(lambda: run_all(hist, pid, sid, 50 if quick else 800))
    hist = hist[: len(items)]

    # the model's out-of-order counter-example, concretised
    r_order = futs["order"][0].result()
    cand = None
    h = model_history(r_order) if r_order.violated == ["FixA"] else None
    if h:
        try:
            lines = X.concretise_model_history(h)
            cand = {"log": "(MC_Snapshot_order counter-example)", "how": "model", "other": "", "eav": 0, "lines": lines}
            it, _ = vloop.run(lambda: X.run_history(lines, 0, pid, sid))
            hist.append(cand)
            items.append(it)
        except ValueError as err:
            chk.note(f"model counter-example not concretised: {err}")
    else:
        chk.note(f"MC_Snapshot_order: expected a FixA counter-example, got {r_order.violated}")

    # canary: a corrupted copy (one packet dropped from the second snapshot) must be rejected
    canary = None
    for it in items:
        if len(it["ops"]) >= 3 and it["ops"][0]["ok"] and it["ops"][2]["ok"] and len(it["ops"][2]["pk"]) > 1:
            canary = json.loads(json.dumps(it))
            gone = next((p for p in canary["ops"][2]["pk"] if p not in canary["ops"][0]["exp"]), None)
            if gone is None:
                canary = None
                continue
            canary["ops"][2]["pk"].remove(gone)
            canary["chrono"] = canary["uniq"] = 1
            break
    # canary 2: a copy in which one packet of an include_expired=False snapshot has just reached twice its lifetime
    # plus the grace (its recorded library verdict untouched) must be rejected by the lifetime rule
    canary2 = None
    for it in items:
        hit = [(k, j) for k, o in enumerate(it["ops"]) if o["op"] == "snap" and o["ok"] and not o["ie"]
               for j, lf in enumerate(o["life"]) if lf >= 0 and o["pk"][j] not in o["tc"]]
        if hit:
            canary2 = json.loads(json.dumps(it))
            k, j = hit[0]
            canary2["ops"][k]["age"][j] = 2 * canary2["ops"][k]["life"][j] + X.GRACE_MS
            break
    batch = items + ([canary] if canary else []) + ([canary2] if canary2 else [])
    res = tlc.validate_batch("SnapshotTrace", batch, workers=4 if quick else 8, chunk=400)
    rej = dict(res["rejects"])
    if canary:
        got = rej.pop(len(items), ())
        if not any(str(f[1]).startswith("C16a:packets-lost") or str(f[1]).startswith("C16a:only-expired") for f in got):
            raise tlc.MachineryFailure(f"canary (dropped packet) not rejected: {got}")

    if canary2:
        got = rej.pop(len(batch) - 1, ())
        if not any(str(f[1]) == "C16c:packet-past-twice-its-lifetime-in-snapshot" for f in got):
            raise tlc.MachineryFailure(f"canary (packet aged to twice its lifetime) not rejected: {got}")
    n_ops = sum(len(i["ops"]) for i in items)
    n_raised = sum(1 for i in items for o in i["ops"] if not o["ok"])
    classes: dict[str, int] = {}
    for idx, fails in sorted(rej.items()):
        hh = hist[idx]
        for line, cls in fails:
            if (":schema-differs" in cls and "only-when-expired" not in cls and "equal-timestamps" not in cls
                    and "non-chronological" not in cls and line in REF_OF):
                ops = items[idx]["ops"]
                a, b = json.loads(sid.rev[ops[REF_OF[line] - 1]["sch"]]), json.loads(sid.rev[ops[line - 1]["sch"]])
                cls = f"{cls}:{'+'.join(sorted(schema_diff_paths(a, b)))[:120]}"
            classes[cls] = classes.get(cls, 0) + 1
            what = (f"{cls}: history {hh['log']} ({hh['how']}{' + ' + hh['other'] if hh['other'] else ''}, "
                    f"{len(hh['lines'])} lines, eavesdrop={'on' if hh['eav'] else 'off'}), op {line}")
            chk.violation(cls, what, {"lines": hh["lines"], "eav": hh["eav"], "log": hh["log"], "how": hh["how"], "op": line,
                                      "age_s": hh.get("age_s", 0.0)})
    if cand is not None and not rej.get(len(items) - 1):
        chk.model_drift("the out-of-order counter-example of MC_Snapshot_order did not reproduce on the code")
    if n_raised:
        chk.note(f"{n_raised} operations raised (not judged here; C13's subject)")

    states = trans = 0
    mc_summary = {}
    for name, (fut, cfg, exp) in futs.items():
        r = fut.result()
        mc_summary[name] = {"cfg": cfg, "generated": r.states, "distinct": r.distinct, "depth": r.depth,
                            "violated": r.violated, "wall_s": round(r.wall_s, 1)}
        states += r.distinct
        trans += r.states
        if exp is None and not r.ok:
            raise tlc.MachineryFailure(f"TLC {cfg}: violated={r.violated} errors={r.errors[:3]}\n{r.out[-2500:]}")
    pool.shutdown()

    hows: dict[str, int] = {}
    for hh in hist:
        hows[hh["how"]] = hows.get(hh["how"], 0) + 1
    chk.finish(
        coverage={
            "states": states,
            "transitions": trans,
            "model_checking": mc_summary,
            "traces_validated_against_impl": len(items),
            "histories": len(items),
            "histories_by_derivation": hows,
            "logs_used": len({hh["log"] for hh in hist}),
            "non_chronological_histories": sum(1 for i in items if not i["chrono"]),
            "eavesdrop_on_histories": sum(1 for i in items if i["eav"]),
            "operations_on_real_gateways": n_ops,
            "snapshots_taken": sum(1 for i in items for o in i["ops"] if o["op"] == "snap"),
            "distinct_packets_in_snapshots": len(pid.rev) - 1,
            "distinct_schemas": len(sid.rev) - 1,
            "failure_classes_seen": classes,
            "corrupted_traces_rejected": (1 if canary else 0) + (1 if canary2 else 0),
            "trace_validation_states": res["states"],
            "samples": [
                {"history": {k: hist[0][k] for k in ("log", "how", "eav")}, "first_lines": hist[0]["lines"][:3],
                 "ops": [{k: (len(v) if isinstance(v, list) else v) for k, v in o.items()} for o in items[0]["ops"][:4]]},
                {"model_counter_example": cand["lines"] if cand else None},
            ],
        },
        assumptions=[
            "observations after the loop has drained (J1); snapshots compared as {timestamp: line} dicts, schemas after shrink (J11)",
            "the fresh gateway's clock is pinned to the source gateway's clock (no time passes between snapshot, restore and snapshot)",
            "include_expired on and off are exercised on separately loaded source gateways",
            "schema equality is judged with eavesdropping off only",
            "an operation that raises is C13's subject and ends the judgement of that pass here",
        ],
    )


if __name__ == "__main__":
    main_wrapper(PID, main)

"""C03 - command builders (spec/CmdApi.tla, MC_CmdApi, CmdApiTrace).

1. TLC checks the transcribed tables (API map, mode/until normalisation, fragment numbering, bind
   dispatch, per-argument domains) for totality/consistency and enumerates every (constructor,
   argument-class tuple); the states are dumped.
2. Every enumerated call is made on the real constructor; a built command goes through the library's
   own decoder (Message._from_cmd); outcome rows are recorded.
3. CmdApiTrace (TLC) judges every row: a (registered verb|code), b (decoder accepts), c (decoded
   values = arguments, to wire resolution), d (documented domain must build; J6: an out-of-domain
   call that builds is judged through b/c only).
4. A failing call is reported under its *minimal* failing argument classes: the classes that cannot
   be reset to the slot's default without the failure disappearing (keys stay stable across tiers).
"""
from __future__ import annotations

import json
import os
import shutil
import sys
import tempfile
import time
from typing import Any

from harness import ext_c03 as x3
from harness import ext_c06 as x6
from harness import fakes, tlc
from harness.report import Check, main_wrapper

PID = "C03"
DST_TZ = "CET-1CEST,M3.5.0,M10.5.0/3"     # a host zone with daylight saving (central European rules)
CLAUSE_TEXT = {
    "a": "verb|code is not the one the constructor is registered under",
    "b": "the library's own decoder rejects the frame built",
    "c": "the decoded payload does not carry the value passed in",
    "d": "arguments inside the documented domain are refused",
}


def parse_fail(fail: Any) -> tuple[set[str], str]:
    """-> (set of failing clause letters incl. 'm' for drift, missing want key for c)."""
    if not fail:
        return set(), ""
    letters, _, want = str(fail).partition(":")
    out = set(letters)
    if want:
        out.add("c")
    return out, want


def do_replay(path: str) -> None:
    obj = json.load(open(path))
    rp = obj.get("replay", obj)
    fakes.quiet_logging()
    if rp.get("tz"):
        os.environ["TZ"] = rp["tz"]
        time.tzset()
        print(f"host time zone: {rp['tz']}")
    row = x3.call_row(rp["ctor"], rp["args"])
    shown = ", ".join(f"{a['slot']}={x3.show(a)}" for a in rp["args"] if a["tag"] != "absent")
    print(f"Command.{rp['ctor']}({shown})")
    if not row["built"]:
        print(f"  refused: {row['exc']}")
    else:
        print(f"  built   {row['frame']!r}  ({row['verb']}|{row['code']})")
        print(f"  decoder {'accepts -> ' + row.get('payload', '') if row['dec'] else 'REJECTS: ' + row['dexc']}")
    sys.exit(0)


def main(tier: str, replay: str | None) -> None:
    if replay:
        do_replay(replay)
    chk = Check(PID, tier, "translation_validation")
    fakes.quiet_logging()
    workers = 8 if tier == "thorough" else 4

    # 1. tables + enumeration
    tmp = tempfile.mkdtemp(prefix="c03_")
    try:
        cfg = "MC_CmdApi_deep.cfg" if tier == "thorough" else "MC_CmdApi.cfg"
        mc = tlc.run_tlc("MC_CmdApi", cfg, workers=workers, cont=True, dump=os.path.join(tmp, "mc"), timeout=900)
        if not mc.ok:
            raise tlc.MachineryFailure(f"MC_CmdApi: the tables violate {mc.violated} {mc.errors[:2]}\n{mc.out[-1500:]}")
        states = tlc.read_dump(os.path.join(tmp, "mc"))
    finally:
        shutil.rmtree(tmp, ignore_errors=True)
    if len(states) != mc.distinct:
        raise tlc.MachineryFailure(f"dump has {len(states)} states, TLC reported {mc.distinct}")

    # 2. the real calls
    rows = []
    for st in states:
        args = [dict(a, l=list(a["l"])) for a in st["args"]]
        rows.append(x3.call_row(st["ctor"], args))
    # the same calls once more where the host's time zone has daylight saving (central European rules): the
    # datetime classes udst / udstend then fall into the skipped / repeated hour of the local clock
    twin: dict[int, int] = {}
    base_n = len(rows)
    old_tz = os.environ.get("TZ")
    os.environ["TZ"] = DST_TZ
    time.tzset()
    try:
        for i, st in enumerate(states):
            if any(a["t"] in ("dtm", "dtmtxt") for a in st["args"]):
                twin[len(rows)] = i
                rows.append(x3.call_row(st["ctor"], [dict(a, l=list(a["l"])) for a in st["args"]]))
    finally:
        if old_tz is None:
            os.environ.pop("TZ", None)
        else:
            os.environ["TZ"] = old_tz
        time.tzset()
    ctors = sorted({r["ctor"] for r in rows})
    from ramses_tx.command import CODE_API_MAP
    real_map = {k: v.__name__ for k, v in CODE_API_MAP.items()}

    # 3. TLC judges
    reg: dict[str, list[str]] = {}
    for k, v in real_map.items():
        reg.setdefault(v, []).append(k)
    items = [dict({k: r[k] for k in ("ctor", "args", "built", "verb", "code", "dec", "got")}, reg=sorted(reg.get(r["ctor"], [])))
             for r in rows]
    res = x6.validate_parallel("CmdApiTrace", items, chunk=2500, procs=workers)

    # the API map of the spec against the map of the code (a: "registered under"): every key both ways
    spec_map = _spec_api_map()
    for k in sorted(set(spec_map) | set(real_map)):
        if spec_map.get(k) != real_map.get(k):
            chk.model_drift(f"API map: key {k!r} is {real_map.get(k)} in the code, {spec_map.get(k)} in the spec")

    # 4. minimal failing configurations
    defaults = _defaults(states)
    failing: dict[tuple[str, str, str], list[tuple[frozenset, int]]] = {}   # (ctor, clause, want) -> [(non-default (slot,tag) set, row)]
    n_fail = {c: 0 for c in "abcd"}
    n_drift = 0
    map_drift: set[str] = set()
    rejected = {i: parse_fail(fail) for i, fail in res["rejects"]}
    for i, fail in res["rejects"]:
        r = rows[i]
        cl, want = parse_fail(fail)
        if i in twin:
            if rejected.get(twin[i]) == (cl, want):
                continue          # fails the same way whatever the time zone: reported once, by the UTC row
            r["tz"] = DST_TZ
        dflt = defaults[r["ctor"]]
        nd = frozenset((j2, a["tag"]) for j2, a in enumerate(r["args"]) if a["tag"] != dflt[j2])
        if "k" in cl and r["ctor"] not in map_drift:
            map_drift.add(r["ctor"])
            chk.model_drift(f"API map: the code registers {r['ctor']} under {reg.get(r['ctor'])}, the spec under other keys")
        if "m" in cl:
            n_drift += 1
            if n_drift <= 12:
                chk.model_drift(f"decision tables disagree with the code on refusing: {r['ctor']}({_sig(r['args'], dflt, all_=True)}) "
                                f"built={r['built']} exc={r['exc']}")
        for c in sorted(cl & set("abcd")):
            n_fail[c] += 1
            failing.setdefault((r["ctor"], c, want if c == "c" else ""), []).append((nd, i))
    n_minimal = 0
    for (ctor, c, want), lst in sorted(failing.items()):
        sets = [nd for nd, _ in lst]
        for nd, i in lst:
            if any(o < nd for o in sets):     # a smaller failing call (some classes reset to their default) exists
                continue
            n_minimal += 1
            r = rows[i]
            sig = _sig(r["args"], defaults[ctor], grp=True)
            key = f"C03{c}:{ctor}:{sig}" + (f":{want}" if c == "c" else "") + (":tz=dst" if r.get("tz") else "")
            shown = ", ".join(f"{a['slot']}={x3.show(a)}" for a in r["args"] if a["tag"] != "absent")
            what = (f"{CLAUSE_TEXT[c]}: Command.{ctor}({shown}) -> "
                    + (f"{r['frame']!r}" if r["built"] else f"raises {r['exc']}")
                    + (f"; decoder: {r['dexc']}" if r["built"] and not r["dec"] else "")
                    + (f"; decoded {r.get('payload', '')} lacks/alters {want!r}" if c == "c" else ""))
            chk.violation(key, what + (f"  [host time zone {r['tz']}]" if r.get("tz") else ""),
                          {"ctor": ctor, "args": r["args"], "tz": r.get("tz", "")})

    n_built = sum(r["built"] for r in rows)
    n_dec = sum(r["dec"] for r in rows)
    samples = []
    seen: set[str] = set()
    for r in rows:
        if r["ctor"] in seen:
            continue
        seen.add(r["ctor"])
        samples.append({"call": f"{r['ctor']}({_sig(r['args'], defaults[r['ctor']], all_=True)})", "frame": r["frame"], "exc": r["exc"],
                        "decoded": r.get("payload", r["dexc"])})
    chk.finish(
        coverage={
            "programs": len(rows), "programs_under_dst_zone": len(rows) - base_n, "constructors": len(ctors), "api_keys": len(real_map),
            "disagreements_checked": len(res["rejects"]),
            "states": mc.distinct, "transitions": mc.states, "mc_invariants": 6, "traces_validated_against_impl": res["n"],
            "calls_built": n_built, "calls_refused": len(rows) - n_built, "built_and_decoded": n_dec,
            "rows_failing_clause": n_fail, "minimal_failing_calls": n_minimal, "rows_with_table_drift": n_drift,
            "samples": samples[:46],
        },
        assumptions=[
            "argument classes are representatives (boundaries, grid points a truncating encoder loses, sentinels, out-of-range) - not all values",
            "'to wire resolution' = equality on the 0.01 grid (temperatures, ratios) / minute or second (datetimes; an argument between two "
            "wire instants may be carried by either of them); C04 owns the codec grids",
            "a sequence-valued argument is the sequence its container yields (list, tuple, dict view, set, generator, iter(), map())",
            "documented domain (clause d) is read off the constructors' own range checks and docstrings (J6)",
            "a refusal may be any exception; which one is not judged",
            f"calls that take a datetime are made twice: host zone UTC and {DST_TZ}",
        ],
    )


def _sig(args: list[dict], dflt: list[str], all_: bool = False, grp: bool = False) -> str:
    nd = [a for j, a in enumerate(args) if all_ or a["tag"] != dflt[j]]
    if grp and len(nd) >= 2 and all(a["grp"] == "ood" for a in nd):
        return f"ood*{len(nd)}"   # several out-of-domain values at once: one input class per constructor and clause
    parts = [f"{a['slot']}={a['grp'] if grp else a['tag']}" for a in nd]
    return ",".join(parts) if parts else "default"


def _defaults(states: list[dict]) -> dict[str, list[str]]:
    """The first class of each slot (ord = 1 in the dumped argument records) is its plain default."""
    out: dict[str, list[str]] = {}
    for st in states:
        d = out.setdefault(st["ctor"], [""] * len(st["args"]))
        for j, a in enumerate(st["args"]):
            if a["ord"] == 1:
                d[j] = a["tag"]
    for c, d in out.items():
        if "" in d:
            raise tlc.MachineryFailure(f"no default class seen for a slot of {c}: {d}")
    return out


def _spec_api_map() -> dict[str, str]:
    r = tlc.run_tlc("MC_CmdApi", "MC_CmdApi_map.cfg", workers=1, timeout=300)
    out = {}
    for p in r.prints:
        if isinstance(p, tuple) and len(p) == 3 and p[0] == "APIMAP":
            out[p[1]] = p[2]
    if len(out) < 40:
        raise tlc.MachineryFailure(f"API map not printed by TLC\n{r.out[-1500:]}")
    return out


if __name__ == "__main__":
    main_wrapper(PID, main)

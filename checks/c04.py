"""C04 - wire value codecs are exact inverses on their grid (temps, %, dates, ids).

  1. TLC model-checks spec/WireCodec.tla (MC_WireCodec*.cfg): the inverse / sentinel / no-wrap laws on
     the integer grids (contract instance), and two implementation-shaped instances whose expected
     counter-examples are replayed on the real functions.
  2. The real helpers (ramses_tx.helpers, ramses_tx.address, ramses_rf.system.schedule) are tabulated:
     Python records *classes and integers only* (harness/ext_c04.py).
  3. TLC (spec/WireCodecTrace.tla) judges every row / run against the clauses a..e of DESIGN App. A.
"""
from __future__ import annotations

import json
import os
import re
import sys
import time

from harness import ext_c04 as X
from harness import tlc
from harness.report import Check, main_wrapper

PID = "C04"


def _workers(tier: str) -> int:
    return int(os.environ.get("VERIF_TLC_WORKERS_N", "8" if tier == "thorough" else "4"))


# ----------------------------------------------------------------------------------------------
def _initial_cex(out: str):
    """The violating case: the last `c = <<...>>` of the error trace (or of 'violated by the initial state')."""
    i = out.find("Error: Invariant")
    ms = re.findall(r"(?m)^\s*(?:/\\ )?c = (<<.*>>)\s*$", out[i:] if i >= 0 else "")
    return tlc.parse_value(ms[-1]) if ms else None


def model_check(chk: Check, tier: str, stats: dict) -> None:
    cfg = "MC_WireCodec_thorough.cfg" if tier == "thorough" else "MC_WireCodec.cfg"
    r = tlc.run_tlc("MC_WireCodec", cfg, workers=_workers(tier), timeout=1500)
    if not r.ok:
        # the contract instance is pure mathematics: a failure here is a broken *model*, never a verdict
        raise tlc.MachineryFailure(f"contract instance {cfg} did not hold: {r.violated} {r.errors[:2]}\n{r.out[-1500:]}")
    stats["mc"] = {"cfg": cfg, "distinct_states": r.distinct, "generated": r.states,
                   "clauses": ["InvA", "InvB", "InvC", "InvD", "InvE"], "wall_s": round(r.wall_s, 1)}
    print(f"TLC {cfg}: {r.distinct} cases, clauses InvA..InvE hold ({r.wall_s:.1f}s)")
    # implementation-shaped instances: a counter-example is a candidate -> replay on the code
    cands = []
    for cfg2, inv, tag in (("MC_WireCodec_impl_tempwrap.cfg", "InvE", "temp_wrap"),
                           ("MC_WireCodec_impl_dtsy0.cfg", "InvA", "dts_y0")):
        r2 = tlc.run_tlc("MC_WireCodec", cfg2, workers=1, timeout=600)
        if r2.errors:
            raise tlc.MachineryFailure(f"{cfg2}: {r2.errors[:2]}\n{r2.out[-1500:]}")
        c = _initial_cex(r2.out)
        if inv not in r2.violated or c is None:
            raise tlc.MachineryFailure(f"{cfg2}: expected a counter-example to {inv}\n{r2.out[-1500:]}")
        if tag == "temp_wrap":
            row = X.row_scalar_enc("temp", c[1])
            reproduced = row[1] == 0 and row[3] == 0     # a word that decodes to a number
        else:
            row = X.row_dts_enc(list(c[1:7]))
            reproduced = row[1] == 0 and row[3] == 3     # decoder raised
        cands.append({"instance": cfg2, "invariant": inv, "counterexample": list(c), "real_row": row,
                      "reproduced_on_code": reproduced})
        print(f"TLC {cfg2}: {inv} fails at c = {list(c)}; on the real code: "
              f"{'reproduced' if reproduced else 'NOT reproduced (the code no longer has this defect)'}")
        if not reproduced:
            chk.note(f"{cfg2}: model counter-example {list(c)} not reproduced by the code "
                     f"(implementation-shaped variant '{tag}' no longer describes it)")
    stats["mc_candidates"] = cands


# ----------------------------------------------------------------------------------------------
def judge(items: list[dict], workers: int) -> dict:
    payload = [{"fam": it["fam"], "dir": it["dir"], "p": it["p"], "rows": it["rows"]} for it in items]
    return X.validate_items("WireCodecTrace", payload, workers=workers, timeout=1500, chunk=1500)  # ~18 MB of JSON per JVM (the Json module fails on 70 MB)


def report_rejects(chk: Check, items: list[dict], res: dict, stats: dict) -> None:
    per_key: dict[str, int] = {}
    for idx, fails in res["rejects"]:
        it = items[idx]
        for (ln, clause, pattern, count) in sorted(fails):
            row = it["rows"][ln - 1]
            if clause == "drift":
                chk.model_drift(f"{it['name']}/{it['dir']}: {pattern} in {count} rows, first {row}")
                continue
            key = f"C04{clause}:{it['name']}:{pattern}"
            n = (row[1] - row[0] + 1) if it["fam"] == "id" else count
            per_key[key] = per_key.get(key, 0) + n
            chk.violation(key, f"{it['name']} ({it['dir']} table): clause {clause} fails, {pattern}; "
                               f"row {X.describe(it, row)}",
                          {"name": it["name"], "fam": it["fam"], "dir": it["dir"], "p": it["p"],
                           "input": X.row_input(it, row), "recorded_row": row, "clause": clause,
                           "pattern": pattern})
            if key in chk.known and count > 1:
                chk.known_hit[key] += count - 1
    stats["failing_rows_per_key"] = dict(sorted(per_key.items()))


# ----------------------------------------------------------------------------------------------
def replay(path: str) -> None:
    rp = json.load(open(path))
    rp = rp.get("replay", rp)
    it = {"name": rp["name"], "fam": rp["fam"], "dir": rp["dir"], "p": rp["p"]}
    row = X.recompute(it, rp["input"])
    it["rows"] = [row]
    print(f"replay {rp['name']}/{rp['dir']} input={rp['input']}")
    print(f"  recorded row : {rp.get('recorded_row')}")
    print(f"  real code now: {row}   ({X.describe(it, row)})")
    res = judge([it], 1)
    if res["rejects"]:
        for (_ln, clause, pattern, _n) in sorted(res["rejects"][0][1]):
            print(f"  TLC verdict  : clause {clause} FAILS ({pattern})" if clause != "drift"
                  else f"  TLC verdict  : model drift ({pattern})")
        sys.exit(1 if any(f[1] != "drift" for f in res["rejects"][0][1]) else 0)
    print("  TLC verdict  : row accepted (all clauses hold)")
    sys.exit(0)


def main(tier: str, replay_file: str | None) -> None:
    if replay_file:
        replay(replay_file)
        return
    chk = Check(PID, tier, "translation_validation")
    stats: dict = {}
    t0 = time.time()
    only = [x for x in os.environ.get("VERIF_C04_ONLY", "").split(",") if x]   # developer aid (self-mutation runs)
    if only:
        chk.note(f"VERIF_C04_ONLY={only}: partial run (model checking skipped, only these tables)")
        stats["mc"] = {"cfg": "skipped", "distinct_states": 0, "generated": 0, "clauses": [], "wall_s": 0}
        stats["mc_candidates"] = []
    else:
        model_check(chk, tier, stats)
    t1 = time.time()
    items, tstats = X.build_tables(tier, chk.seed, only)
    t2 = time.time()
    res = judge(items, _workers(tier))
    t3 = time.time()
    report_rejects(chk, items, res, stats)
    nrows = sum(len(it["rows"]) for it in items)
    print(f"tables: {len(tstats['tables'])} tables, {nrows} rows/runs in {len(items)} items covering "
          f"{tstats['points']} grid points; python {t2 - t1:.1f}s, TLC {t3 - t2:.1f}s; "
          f"{len(res['rejects'])} items with rejected rows")
    samples = []
    seen = set()
    for it in items:
        if (it["name"], it["dir"]) not in seen and it["rows"]:
            seen.add((it["name"], it["dir"]))
            samples.append({"table": f"{it['name']}/{it['dir']}", "row": it["rows"][len(it["rows"]) // 2],
                            "meaning": X.describe(it, it["rows"][len(it["rows"]) // 2])})
    chk.finish(
        coverage={
            "states": stats["mc"]["distinct_states"] + res["states"],
            "transitions": stats["mc"]["generated"] + res["transitions"],
            "traces_validated_against_impl": nrows,
            "programs": len(tstats["tables"]),
            "disagreements_checked": nrows,
            "grid_points_tabulated": tstats["points"],
            "model_checking": stats["mc"],
            "model_counterexamples_replayed": stats["mc_candidates"],
            "tables": tstats["tables"],
            "table_validation": {"items": len(items), "tlc_states": res["states"], "tlc_wall_s": round(res["wall_s"], 1)},
            "failing_rows_per_key": stats["failing_rows_per_key"],
            "observations_not_judged": tstats["observations"],
            "timing_s": {"model_checking": round(t1 - t0, 1), "tabulate": round(t2 - t1, 1), "tlc_tables": round(t3 - t2, 1)},
            "samples": samples[:40],
        },
        assumptions=[
            "on-grid means: the Python float equals k/scale for an integer k (the correctly rounded quotient)",
            "the helpers are pure functions of their arguments (id sweep reuses hex->id->hex observations "
            "for the id->hex->id direction when the id produced is the canonical text of the same (tt, n))",
            "date/time covering sets, not every minute of every year (sets listed under 'tables')",
            "text: character codes 0..255, strings up to the listed length over a class alphabet",
            "sentinel collisions inside the range (127.99, 325.11, 327.67; set-points 0.00/0.01) are the wire "
            "format's, not judged",
        ],
    )


if __name__ == "__main__":
    main_wrapper(PID, main)

"""C10 - device filters are sound and complete (block list, known list, enforcement).

  1. TLC model-checks spec/DevFilter.tla (MC_DevFilter*.cfg): MustDrop/MustPass as the statement words
     them is a total, disjoint partition of every (configuration, src, dst, shape, direction); the
     named interactions hold; the clause-by-clause transcription of `_is_wanted_addrs` equals the rule.
     The same run writes the complete row table (spec -> code).
  2. Every row is executed on the real objects (harness/ext_c10.py): protocol level (PortProtocol,
     ReadProtocol), gateway level (real Gateway: application handler, gwy.device_by_id), send level
     (gwy.async_send_cmd: exception vs. the command's frame reaching write_frame), file-replay level.
     Python records what happened - it computes no expectation.
  3. TLC (spec/DevFilterTrace.tla) judges the outcome table against clauses a..d of DESIGN App. A, and
     - separately - against the code model (drift, never a verdict).
  4. Life cycle (spec/MC_DevFilterLife.tla): the same protocol object loses its connection and is connected again
     to a transport reporting the same / another / no gateway id.  TLC shows the code model stateless over these
     histories; level `proto_recon` walks real PortProtocols through every ordered pair of connections, offering
     the rows in every phase; DevFilterTrace judges each phase under the configuration in force (InForce, J24).
"""
from __future__ import annotations

import json
import os
import shutil
import tempfile
import time
from concurrent.futures import ThreadPoolExecutor

from harness import ext_c10 as X
from harness import tlc
from harness.report import Check, main_wrapper

PID = "C10"
MAX_KEYS = 24
TABLE: dict = {}     # the row table TLC exported (cfgs, by_cfg): the canary builds a correct outcome table from it


def _workers(tier: str) -> int:
    return int(os.environ.get("VERIF_TLC_WORKERS_N", "8" if tier == "thorough" else "4"))


# ----------------------------------------------------------------------------------------------
def model_check(cfgfile: str, workers: int, stats: dict) -> tuple[list[dict], list[list]]:
    """Run TLC on the rule; returns (cfgs, rows) as exported by the spec."""
    tmp = tempfile.mkdtemp(prefix="c10_")
    try:
        f = os.path.join(tmp, "rows.json")
        r = tlc.run_tlc("MC_DevFilter", cfgfile, workers=workers, env={"ROWS_FILE": f}, timeout=900)
        if not r.ok:
            # the instance is the statement + a transcription of the code: a failure here means the
            # *model* of the code no longer equals the statement - a candidate, decided on the code below
            raise tlc.MachineryFailure(f"{cfgfile} did not hold: {r.violated} {r.errors[:2]}\n{r.out[-2000:]}")
        data = json.load(open(f))
    finally:
        shutil.rmtree(tmp, ignore_errors=True)
    invs = [ln.split()[1] for ln in open(tlc.SPEC / cfgfile) if ln.startswith("INVARIANT")]
    stats.setdefault("mc", []).append({"cfg": cfgfile, "distinct_states": r.distinct, "generated": r.states,
                                       "invariants": invs, "configurations": len(data["cfgs"]),
                                       "rows": len(data["rows"]), "wall_s": round(r.wall_s, 1)})
    print(f"TLC {cfgfile}: {r.distinct} states = rows over {len(data['cfgs'])} configurations, "
          f"{len(invs)} invariants hold ({r.wall_s:.1f}s)")
    return data["cfgs"], data["rows"]


def model_check_life(tier: str, workers: int) -> list[dict]:
    """The life cycle of the filter's state (connection_made / connection_lost) in the model: stateless, and - the
    instance's self-test - no longer so once the active gateway is appended to the include list."""
    out = []
    for cfgfile, expect in (("MC_DevFilterLife_full.cfg" if tier == "thorough" else "MC_DevFilterLife.cfg", []),
                            ("MC_DevFilterLife_x.cfg", ["Stateless"])):
        r = tlc.run_tlc("MC_DevFilterLife", cfgfile, workers=workers, timeout=900)
        if r.errors or r.violated != expect or (not expect and not r.ok):
            raise tlc.MachineryFailure(f"{cfgfile}: violated={r.violated} (expected {expect}) errors={r.errors[:2]}\n{r.out[-2000:]}")
        invs = [ln.split()[1] for ln in open(tlc.SPEC / cfgfile) if ln.startswith("INVARIANT")]
        out.append({"cfg": cfgfile, "distinct_states": r.distinct, "generated": r.states, "invariants": invs,
                    "violated_as_expected": r.violated, "wall_s": round(r.wall_s, 1)})
    return out


def group_rows(cfgs: list[dict], rows: list[list]) -> dict[int, list[dict]]:
    out: dict[int, list[dict]] = {}
    for ci, s, d, sh, dr, drop in rows:
        out.setdefault(ci - 1, []).append({"src": s, "dst": d, "shape": sh, "dir": dr, "drop": drop})
    for v in out.values():  # executed drops-first inside an object that is shared by several rows
        v.sort(key=lambda r: (not r["drop"], r["src"], r["dst"], r["shape"], r["dir"]))
    return out


# ----------------------------------------------------------------------------------------------
def judge(items: list[dict], workers: int, mode: str) -> dict:
    payload = [{"cfg": it["cfg"], "conns": it.get("conns", []), "lvl": it["lvl"], "rows": it["rows"]} for it in items]
    cfg = "DevFilterTrace.cfg" if mode == "clauses" else "DevFilterTrace_drift.cfg"
    return tlc.validate_batch("DevFilterTrace", payload, cfg=cfg, workers=workers, timeout=900, chunk=1500)


def all_failing_rows(items: list[dict], res: dict, workers: int, mode: str, limit: int = 60):
    """validate_batch names the first failing row of an item; re-judge the rejected items row by row."""
    singles, origin = [], []
    for idx, _fail in res["rejects"][:limit]:
        it = items[idx]
        for k, row in enumerate(it["rows"]):
            singles.append({"cfg": it["cfg"], "conns": it.get("conns", []), "lvl": it["lvl"], "rows": [row]})
            origin.append((idx, k))
    if not singles:
        return []
    r2 = judge(singles, workers, mode)
    return [(origin[i][0], origin[i][1], fail) for i, fail in r2["rejects"]]


def key_of(clause: str, it: dict, row: dict) -> str:
    c = it["cfg"]
    key = (f"{clause}|{it['lvl'].split('+')[0]}|{row['src']}>{row['dst']}|kl={int(c['kl'])}|bl={int(c['bl'])}"
           f"|enf={int(c['enf'] and X.known_nonempty(c))}|act={c['act']}|gwb={int(c['gwb'])}")
    if it.get("conns"):     # the last step of the connection history: what the previous transport reported > what is now
        made = [c["act"]] + [e for e in it["conns"] if e != "lost"]
        down = it["conns"][-1] == "lost"
        key += f"|recon={made[-1] if down else made[-2]}>{'down' if down else made[-1]}"
    return key


def canary(items: list[dict], workers: int) -> None:
    """The judge must reject a corrupted record: flip what was observed in every row of three items."""
    bad = []
    obs = [it for it in items if not it["lvl"].startswith(("restore", "app"))]   # delivery is not observable in the restore path
    for it in (obs[0], obs[len(obs) // 2], obs[-1]):
        rows = [dict(r, delivered=not r["delivered"], written=not r["written"], refused=not r["refused"]) for r in it["rows"]]
        bad.append({"cfg": it["cfg"], "conns": it.get("conns", []), "lvl": it["lvl"], "rows": rows})
    # ... and a corrupted history.  Independent of what the code under test did: the outcomes are those the exported
    # table (TLC's MustDrop) demands for "gwy, lost, foreign" - accepted as such, rejected once the record says the
    # last connection was made to the other gateway id, or never made
    good = []
    if TABLE:
        want = {"kl": True, "hgi": "no", "bl": True, "gwb": False, "enf": True, "act": "foreign", "ph": "none", "fgn": "none"}
        ci = next(i for i, c in enumerate(TABLE["cfgs"]) if c == want)
        rows = []
        for row in TABLE["by_cfg"][ci]:
            o = X._blank(row)
            o.pop("exc")
            o["delivered"], o["written"], o["refused"] = (row["dir"] == "rx" and not row["drop"],
                                                          row["dir"] == "tx" and not row["drop"], row["dir"] == "tx" and row["drop"])
            rows.append(o)
        first = dict(want, act="gwy")
        good.append({"cfg": first, "conns": ["lost", "foreign"], "lvl": "proto_recon", "rows": rows})
        bad.append({"cfg": first, "conns": ["lost", "gwy"], "lvl": "proto_recon", "rows": rows})
        bad.append({"cfg": first, "conns": ["lost"], "lvl": "proto_recon", "rows": rows})
        bad.append({"cfg": first, "conns": [], "lvl": "proto_recon", "rows": rows})
    r = judge(bad + good, workers, "clauses")
    if [i for i, _ in r["rejects"]] != list(range(len(bad))):
        raise tlc.MachineryFailure(f"canary: DevFilterTrace accepted a corrupted outcome table, or rejected a correct one "
                                   f"({len(bad)} corrupted, then {len(good)} correct: {r['rejects']})")


def report(chk: Check, items: list[dict], workers: int, stats: dict) -> None:
    canary(items, workers)
    res = judge(items, workers, "clauses")
    stats["judge"] = {"items": res["n"], "rows": sum(len(i["rows"]) for i in items),
                      "tlc_states": res["states"], "tlc_transitions": res["transitions"],
                      "rejected_items": len(res["rejects"]), "wall_s": round(res["wall_s"], 1)}
    fails = all_failing_rows(items, res, workers, "clauses")
    nkeys = 0
    for idx, k, fail in fails:
        it, row = items[idx], items[idx]["rows"][k]
        clause = fail[1]
        if clause.startswith("harness:"):
            raise tlc.MachineryFailure(f"trace spec reports a malformed row: {clause} {it['cfg']} {row}")
        key = key_of(clause, it, row)
        if key not in chk.violations and key not in chk.known:
            nkeys += 1
            if nkeys > MAX_KEYS:
                chk.viol_count += 1
                continue
        what = (f"clause C10{clause} fails at level {it['lvl']}: {row['dir']} {row['src']}->{row['dst']} "
                f"({row['shape']}, frame {X.frame_of(row, it['ids'])!r}) under {X.describe_cfg(it['cfg'], it['ids'])}: "
                f"delivered={row['delivered']} newdevs={row['newdevs']} refused={row['refused']} written={row['written']}")
        if it.get("conns"):
            what += (f"; active_gwy is that of the first connection, what happened to the connection since (the new "
                     f"transport's report): {it['cfg']['act']} > " + " > ".join(it["conns"]))
        chk.violation(key, what, {"cfg": it["cfg"], "lvl": it["lvl"], "ids": it["ids"], "opts": it.get("opts", {}),
                                  "conns": it.get("conns", []),
                                  "row": {k2: row[k2] for k2 in ("src", "dst", "shape", "dir")},
                                  "observed": row, "clause": clause})
    if nkeys > MAX_KEYS:
        chk.note(f"{nkeys} distinct failure keys; only the first {MAX_KEYS} have replay files")
    stats["judge"]["failing_rows"] = len(fails)
    # drift: the code against the clause-by-clause model (never a verdict)
    rd = judge(items, workers, "drift")
    stats["drift"] = {"rejected_items": len(rd["rejects"]), "wall_s": round(rd["wall_s"], 1)}
    seen = set()
    for idx, fail in rd["rejects"]:
        it = items[idx]
        row = it["rows"][fail[0] - 1]
        if fail[1].startswith("harness:"):
            raise tlc.MachineryFailure(f"trace spec reports a malformed row: {fail[1]} {it['cfg']} {row}")
        sig = (fail[1], it["lvl"], row["src"], row["dst"])
        if sig in seen:
            continue
        seen.add(sig)
        chk.model_drift(f"{fail[1]} at {it['lvl']}: {row['dir']} {row['src']}->{row['dst']} under "
                        f"{X.describe_cfg(it['cfg'], it['ids'])}: wanted={row['wanted']} delivered={row['delivered']} "
                        f"written={row['written']} (model CodeWanted disagrees)")


# ----------------------------------------------------------------------------------------------
# closed walks over what successive transports report as the active gateway.  WALK_ALL: every ordered pair, "the same
# again" included; WALK_DISTINCT: every ordered pair of different reports (Eulerian circuits: any rotation is one too);
# the two triangles: the six ordered pairs of different reports between them, three each
WALK_ALL = ["gwy", "gwy", "foreign", "foreign", "none", "none", "gwy", "none", "foreign"]
WALK_DISTINCT = ["gwy", "foreign", "none", "gwy", "none", "foreign"]
TRIANGLES = (["gwy", "foreign", "none"], ["gwy", "none", "foreign"])
ACTS = ("gwy", "foreign", "none")


def recon_walk(kind: str, k: int, odd: int = 0) -> list[str]:
    """A closed walk [first report, later reports ...]: the circuit of its kind (`odd` chooses the triangle), rotated by k."""
    circ = {"all": WALK_ALL, "distinct": WALK_DISTINCT, "triangle": TRIANGLES[odd % 2]}[kind]
    k %= len(circ)
    rot = circ[k:] + circ[:k]
    return rot + [rot[0]]


def transitions(walks: list[list[str]]) -> set[tuple[str, str]]:
    return {p for w in walks for p in zip(w, w[1:])}


def plan_recon(tier: str, cfgs: list[dict], by_cfg: dict[int, list[dict]]) -> list[dict]:
    """One protocol object per combination of lists / enforcement, walked through a closed walk of connections (the
    first report rotates with the combination).
    Quick tier: a triangle of different reports - both directions, hence all six ordered pairs, meet every setting of
    each list / enforcement dimension, but not every combination of them -, every (src, dst) pair once per direction
    (the shape that carries a destination; `__a2` when there is none).
    Thorough tier: every combination meets every ordered pair: the combinations that list the placeholder / the other
    18: id walk the circuit of different reports with the quick tier's rows; the others the circuit that includes
    "the same again" with every row, and once more through the public API (Gateway.stop() + start())."""
    runs, k = [], 0
    for ci, cfg in enumerate(cfgs):
        if cfg["act"] != "gwy":     # the representative of its combination; the walk supplies the reports
            continue
        full = tier == "thorough" and cfg["ph"] == "none" and cfg["fgn"] == "none"
        # (the triangle by the parity of the combination's settings: whatever one - or two - of them are fixed to,
        # the others still bring both triangles)
        odd = cfg["kl"] + ("no", "explicit", "implicit").index(cfg["hgi"]) + cfg["bl"] + cfg["gwb"] + cfg["enf"]
        walk = recon_walk("all" if full else "distinct" if tier == "thorough" else "triangle", k, odd)
        k += 1
        rows = [r for r in by_cfg[ci] if full or r["shape"] != "a0a1_"]
        runs.append({"lvl": "proto_recon", "cfg": dict(cfg, act=walk[0]), "rows": rows, "ids": X.IDS,
                     "opts": {"walk": walk[1:]}})
        if full:
            runs.append({"lvl": "send_recon", "cfg": dict(cfg, act=walk[0]), "rows": rows, "ids": X.IDS,
                         "opts": {"walk": walk[1:]}})
    # the plan must deliver what its doc-string says
    walks = lambda pred: [[r["cfg"]["act"]] + r["opts"]["walk"] for r in runs if r["lvl"] == "proto_recon" and pred(r["cfg"])]  # noqa: E731
    need = {(a, b) for a in ACTS for b in ACTS if a != b}
    for dim, vals in (("kl", (False, True)), ("hgi", ("no", "explicit", "implicit")), ("bl", (False, True)),
                      ("gwb", (False, True)), ("enf", (False, True))):
        for v in vals:
            if not transitions(walks(lambda c: c[dim] == v)) >= need:
                raise tlc.MachineryFailure(f"plan_recon: {dim}={v} does not meet every ordered pair of reports")
    if tier == "thorough":
        for r in runs:
            if r["lvl"] == "proto_recon" and not transitions([[r["cfg"]["act"]] + r["opts"]["walk"]]) >= need:
                raise tlc.MachineryFailure("plan_recon: a combination does not meet every ordered pair of reports")
    return runs


def plan(tier: str, cfgs: list[dict], by_cfg: dict[int, list[dict]], seed: int) -> list[dict]:
    """Which (configuration, level, ids, options) runs are made.  Every run covers *all* rows of its cfg."""
    runs = []
    for ci, cfg in enumerate(cfgs):
        rows = by_cfg[ci]
        base = cfg["ph"] == "none" and cfg["fgn"] == "none"
        runs.append({"lvl": "proto_port", "cfg": cfg, "rows": rows, "ids": X.IDS})
        if cfg["act"] != "none":    # the same pairs before and after the active gateway becomes known
            runs.append({"lvl": "proto_late", "cfg": cfg, "rows": rows, "ids": X.IDS,
                         "opts": {"pre_cfg": dict(cfg, act="none")}})
        if cfg["act"] == "none":
            runs.append({"lvl": "proto_read", "cfg": cfg, "rows": rows, "ids": X.IDS})
        if tier == "quick":
            runs.append({"lvl": "gateway", "cfg": cfg, "rows": rows, "ids": X.IDS, "opts": {"eavesdrop": False, "fresh": False}})
            runs.append({"lvl": "gateway", "cfg": cfg, "rows": rows, "ids": X.IDS, "opts": {"eavesdrop": True, "fresh": False}})
            runs.append({"lvl": "send", "cfg": cfg, "rows": rows, "ids": X.IDS})
            if cfg["act"] == "none":
                runs.append({"lvl": "file", "cfg": cfg, "rows": rows, "ids": X.IDS, "opts": {"eavesdrop": bool(ci % 2)}})
            if cfg["hgi"] != "implicit":
                runs.append({"lvl": "restore", "cfg": cfg, "rows": rows, "ids": X.IDS, "opts": {}})
                runs.append({"lvl": "app", "cfg": cfg, "rows": rows, "ids": X.IDS, "opts": {}})
        else:
            for eav in (False, True):
                runs.append({"lvl": "gateway", "cfg": cfg, "rows": rows, "ids": X.IDS,
                             "opts": {"eavesdrop": eav, "fresh": base}})
            runs.append({"lvl": "send", "cfg": cfg, "rows": rows, "ids": X.IDS})
            if cfg["act"] == "none" and base:
                runs.append({"lvl": "file", "cfg": cfg, "rows": rows, "ids": X.IDS, "opts": {"eavesdrop": bool(ci % 2)}})
            if base and cfg["hgi"] != "implicit":
                runs.append({"lvl": "restore", "cfg": cfg, "rows": rows, "ids": X.IDS, "opts": {}})
            if cfg["hgi"] != "implicit":
                runs.append({"lvl": "app", "cfg": cfg, "rows": rows, "ids": X.IDS, "opts": {}})
    if tier == "thorough":  # every device type in the listed / unlisted roles (base configurations)
        base_cfgs = [(ci, c) for ci, c in enumerate(cfgs) if c["ph"] == "none" and c["fgn"] == "none" and c["hgi"] != "implicit"]
        for n, typ in enumerate(X.DEV_TYPES):
            ids = X.ids_for_type(typ)
            for ci, cfg in base_cfgs:
                if (ci + n) % 8:      # each type meets an eighth of the configurations, all rows of each
                    continue
                runs.append({"lvl": "proto_port", "cfg": cfg, "rows": by_cfg[ci], "ids": ids})
                runs.append({"lvl": "gateway", "cfg": cfg, "rows": by_cfg[ci], "ids": ids,
                             "opts": {"eavesdrop": bool(n % 2), "fresh": False}})
                runs.append({"lvl": "send", "cfg": cfg, "rows": by_cfg[ci], "ids": ids})
    runs += plan_recon(tier, cfgs, by_cfg)
    only = os.environ.get("VERIF_C10_LEVELS")       # development aid: restrict the levels that are run
    if only:
        runs = [r for r in runs if r["lvl"] in only.split(",")]
    return runs


def main(tier: str, replay: str | None) -> None:
    chk = Check(PID, tier, "model_checking")
    workers = _workers(tier)
    X.watchdog(3000 if tier == "thorough" else 600)
    if replay:
        return do_replay(replay, workers)
    stats: dict = {}
    pool = ThreadPoolExecutor(1)
    life = pool.submit(model_check_life, tier, workers)      # (a JVM of its own: runs while the rows are executed)
    cfgs, rows = model_check("MC_DevFilter_full.cfg" if tier == "thorough" else "MC_DevFilter.cfg", workers, stats)
    by_cfg = group_rows(cfgs, rows)
    TABLE.update(cfgs=cfgs, by_cfg=by_cfg)
    runs = plan(tier, cfgs, by_cfg, chk.seed)
    t0 = time.time()
    items, skipped = X.execute_runs(runs)
    stats["execution"] = {"runs": len(runs), "rows_executed": sum(len(i["rows"]) for i in items),
                          "rows_skipped_not_decodable": skipped, "wall_s": round(time.time() - t0, 1),
                          "per_level": X.count_levels(items)}
    print(f"executed {stats['execution']['rows_executed']} rows on the real objects in {len(runs)} runs "
          f"({stats['execution']['wall_s']}s): {stats['execution']['per_level']}")
    stats["mc"] += life.result()
    pool.shutdown()
    for m in stats["mc"][1:]:
        print(f"TLC {m['cfg']}: {m['distinct_states']} states (configuration x connection history), "
              + (f"{len(m['invariants'])} invariants hold" if not m["violated_as_expected"] else
                 f"{m['violated_as_expected']} fails as it must") + f" ({m['wall_s']}s)")
    recon = [it for it in items if it["lvl"] in ("proto_recon", "send_recon")]
    stats["execution"]["reconnection"] = {
        "protocol_objects": sum(1 for it in recon if not it["conns"]),
        "phases": len(recon), "phases_connection_down": sum(1 for it in recon if it["conns"] and it["conns"][-1] == "lost"),
        "transitions": sorted({f"{(it['conns'][-3] if len(it['conns']) > 2 else it['cfg']['act'])}>{it['conns'][-1]}"
                               for it in recon if it["conns"] and it["conns"][-1] != "lost"}),
        "longest_history": max((len(it["conns"]) for it in recon), default=0)}
    for m in sorted(set(X.LOOP_EXC))[:10]:
        chk.note(f"exception reached the event loop during a run (not a C10 clause): {m}")
    report(chk, items, workers, stats)
    dispatch_stage(chk, tier, workers, stats)
    print(f"TLC DevFilterTrace: {stats['judge']['rows']} rows judged, {stats['judge']['failing_rows']} failing; "
          f"drift items {stats['drift']['rejected_items']}")
    samples, seen_lv = [], {}
    for n, it in enumerate(items):
        if seen_lv.get(it["lvl"], 0) >= 2 or (n * 7) % 11 > 2:
            continue
        seen_lv[it["lvl"]] = seen_lv.get(it["lvl"], 0) + 1
        r = it["rows"][(n * 13) % len(it["rows"])]
        samples.append({"lvl": it["lvl"], "cfg": X.describe_cfg(it["cfg"], it["ids"]), "frame": X.frame_of(r, it["ids"]), "row": r})
    stats["outcomes"] = X.histogram(items)
    mc_states = sum(m["distinct_states"] for m in stats["mc"])
    chk.finish(
        coverage={
            "states": mc_states, "transitions": sum(m["generated"] for m in stats["mc"]),
            "traces_validated_against_impl": stats["judge"]["rows"],
            "programs": len(runs), "disagreements_checked": stats["judge"]["rows"],
            "samples": samples, **stats,
        },
        assumptions=[
            "a lost connection is connection_lost(None) on the protocol, a new one connection_made() by a new fake transport; while the connection is down packets are still offered (judged with no active gateway), commands are not",
            "ids are abstracted to nine roles; one concrete id per role (all 64 device types for the Listed/Unlisted roles in the thorough tier)",
            "when sending, 18:000730 denotes the gateway and is allowed even if the gateway's real id is block-listed (the statement leaves this open; resolved towards not alarming)",
            "J5: only frames equal to the refused command count; the 7FFF impersonation notice does not",
            "a fake transport that reports no active gateway omits the key instead of holding None (avoids an unrelated TypeError/hang in protocol_fsm; see c10_NOTES.md)",
            "rows whose frame does not decode in isolation (Packet/Message reject it) are skipped, not judged",
        ],
    )


# ----------------------------------------------------------------------------------------------
# the dispatcher (spec/Dispatch.tla): what a message that got past the protocol's filter gives rise to

_DOBS = ("created", "srcFirst", "nobody", "tag", "cnt", "processed")


def _dispatch_payload(items: list[dict]) -> list[dict]:
    return [{"rows": [{"q": r["q"], "obs": {k: r["obs"][k] for k in _DOBS}} for r in it["rows"]]} for it in items]


def dispatch_stage(chk: Check, tier: str, workers: int, stats: dict) -> None:
    from harness import ext_dispatch as D
    t0 = time.time()
    out: dict = {"mc": {}}
    for cfg, expect in (("MC_Dispatch.cfg" if tier == "quick" else "MC_Dispatch_full.cfg", None),
                        ("MC_Dispatch_x.cfg", "X_RefusedCreatesNothing")):
        r = tlc.run_tlc("MC_Dispatch", cfg, workers=workers, timeout=900)
        if (expect is None and not r.ok) or (expect is not None and r.violated != [expect]):
            raise tlc.MachineryFailure(f"{cfg}: violated={r.violated} errors={r.errors[:2]}\n{r.out[-1500:]}")
        out["mc"][cfg] = {"inputs_enumerated": r.distinct, "violated": r.violated, "wall_s": round(r.wall_s, 1)}
    items = D.execute(D.configs(tier == "thorough"))
    rows = sum(len(it["rows"]) for it in items)
    if rows < 600:
        raise tlc.MachineryFailure(f"dispatch stage: only {rows} rows were executed")
    payload = _dispatch_payload(items)
    # judge self-test: a corrupted outcome must be rejected in both modes
    bad = json.loads(json.dumps(payload[0]))
    for r in bad["rows"]:
        if not r["q"]["srcEx"] and not r["q"]["srcOk"] and not r["q"]["pairBad"] and r["q"]["rp"] < 2:
            r["obs"]["created"], r["obs"]["nobody"] = ["src"], False
    bad2 = json.loads(json.dumps(payload[0]))
    bad2["rows"][0]["obs"]["nobody"], bad2["rows"][0]["obs"]["srcFirst"] = True, False
    rc = tlc.validate_batch("DispatchTrace", payload + [bad], cfg="DispatchTrace.cfg", workers=workers, timeout=600)
    rd = tlc.validate_batch("DispatchTrace", payload + [bad2], cfg="DispatchTrace_drift.cfg", workers=workers, timeout=600)
    if not any(i == len(payload) for i, _ in rc["rejects"]) or not any(i == len(payload) for i, _ in rd["rejects"]):
        raise tlc.MachineryFailure("dispatch stage: DispatchTrace accepted a corrupted outcome table")
    nkeys = 0
    # every failing row of the rejected items (the fold names the first only): their rows again, one per item
    singles = [(items[idx], r) for idx, _ in rc["rejects"] if idx < len(payload) for r in items[idx]["rows"]]
    one = tlc.validate_batch("DispatchTrace", _dispatch_payload([{"rows": [r]} for _, r in singles]),
                             cfg="DispatchTrace.cfg", workers=workers, timeout=600) if singles else {"rejects": []}
    for k, fail in one["rejects"]:
        it, r = singles[k]
        if True:
            clause = fail[1]
            c = it["cfg"]
            key = f"{'a' if r['frame'].find('04:999999') >= 0 else 'c'}:dispatch:{clause}|{r['name']}|enf={int(c['enf'])}|eav={int(c['eav'])}|unwanted={int(c['unwanted'])}"
            nkeys += 1
            if nkeys > MAX_KEYS:
                chk.viol_count += 1
                continue
            chk.violation(key, f"at the dispatcher ({clause}): {r['frame']!r} handed to Gateway._msg_handler under {c}: "
                               f"created={r['obs']['created']} _handle_msg scheduled for {r['obs']['sched']}",
                          {"lvl": "dispatch", "cfg": c, "name": r["name"], "frame": r["frame"]})
    seen = set()
    for idx, fail in rd["rejects"]:
        if idx >= len(payload):
            continue
        r = items[idx]["rows"][fail[0] - 1]
        if (fail[1], r["name"]) in seen:
            continue
        seen.add((fail[1], r["name"]))
        chk.model_drift(f"dispatcher: {fail[1]} for {r['name']} ({r['frame']!r}) under {items[idx]['cfg']}: observed "
                        f"created={r['obs']['created']} scheduled={r['obs']['sched']} processed={r['obs']['processed']} "
                        f"log={r['obs']['log']} (Dispatch!Route disagrees)")
    groups: dict[str, int] = {}
    for it in items:
        for r in it["rows"]:
            o = r["obs"]
            k = ("nobody" if o["nobody"] else f"src+{o['tag']}") + ("" if o["processed"] else ":error-logged") + \
                (":created=" + "+".join(o["created"]) if o["created"] else "")
            groups[k] = groups.get(k, 0) + 1
    out.update(configurations=len(items), messages=len(D.catalogue()), rows=rows, outcome_classes=groups,
               drift_items=sum(1 for i, _ in rd["rejects"] if i < len(payload)),
               clause_rejects=sum(1 for i, _ in rc["rejects"] if i < len(payload)),
               loop_exceptions=sum(it["loop_exc"] for it in items), wall_s=round(time.time() - t0, 1))
    stats["dispatch"] = out
    print(f"dispatcher: {rows} messages x configurations on real gateways against Dispatch!Route: "
          f"{out['drift_items']} drifting, {out['clause_rejects']} clause rejects ({out['wall_s']}s)")


def do_replay(path: str, workers: int) -> None:
    obj = json.load(open(path))
    rp = obj.get("replay", obj)
    if rp.get("lvl") == "dispatch":
        from harness import ext_dispatch as D
        items = D.execute([rp["cfg"]])
        rows = [r for r in items[0]["rows"] if r["name"] == rp["name"]]
        res = tlc.validate_batch("DispatchTrace", _dispatch_payload([{"rows": rows}]), cfg="DispatchTrace.cfg", workers=1, timeout=300)
        print(f"replay {path}: {rows[0]['frame']!r} under {rp['cfg']}: observed {rows[0]['obs']}")
        print("  TLC verdict:", res["rejects"] or "all clauses hold (not reproduced)")
        raise SystemExit(1 if res["rejects"] else 0)
    run = {"lvl": rp["lvl"].split("+")[0], "cfg": rp["cfg"], "rows": [dict(rp["row"], drop=False)], "ids": rp["ids"],
           "opts": rp.get("opts", {})}
    items, skipped = X.execute_runs([run])
    if rp.get("conns"):     # a life-cycle run yields one item per phase: the one whose history is the recorded one
        items = [it for it in items if it.get("conns") == rp["conns"]]
        print(f"  connection history: {rp['cfg']['act']} > " + " > ".join(rp["conns"]))
    print(f"replay {path}\n  configuration: {X.describe_cfg(rp['cfg'], rp['ids'])}\n  level: {rp['lvl']} opts={rp.get('opts')}")
    if not items or not items[0]["rows"]:
        print("  the row's frame does not decode in isolation any more - nothing to judge")
        raise SystemExit(0)
    row = items[0]["rows"][0]
    print(f"  frame: {X.frame_of(row, rp['ids'])!r}\n  observed now: {row}")
    res = judge(items, 1, "clauses")
    if res["rejects"]:
        print(f"  TLC verdict: clause C10{res['rejects'][0][1][1]} FAILS (reproduced)")
        raise SystemExit(1)
    print("  TLC verdict: all clauses hold (not reproduced)")
    raise SystemExit(0)


if __name__ == "__main__":
    main_wrapper(PID, main)

"""Self-mutation demonstration for C04 (not a check): applies small, realistic code mutations to a scratch
copy of /repo/src and runs `bin/check C04 quick` on it; every mutation must yield VIOLATION.

  cd /verif && /venv/bin/python -m checks.c04_selfmut [name ...]
"""
from __future__ import annotations

import os
import shutil
import subprocess
import sys
import tempfile

H = "ramses_tx/helpers.py"
A = "ramses_tx/address.py"
S = "ramses_rf/system/schedule.py"

# name: (file, old, new, tables to run, key fragment expected in the VIOLATION)
MUTATIONS = {
    "flag8_decoder_order_swapped": (H, "    if lsb:  # make LSB is first bit\n        return list((int(byte, 16) & (1 << x)) >> x for x in range(8))",
                                    "    if not lsb:  # make LSB is first bit\n        return list((int(byte, 16) & (1 << x)) >> x for x in range(8))",
                                    "flag8_msb,flag8_lsb", "flag8"),
    "dts_day_shift_off_by_one": (H, "            tm_mday << 31,", "            tm_mday << 30,", "dts", "C04a:dts"),
    "dtm_hour_mask_4_bits": (H, "hour=int(value[4:6], 16) & 0b11111,", "hour=int(value[4:6], 16) & 0b1111,", "dtm", "C04a:dtm"),
    "dtm_dst_bit_on_minutes": (H, 'dtm_str = f"{int(dtm_str[:2], 16) | 0x80:02X}" + dtm_str[2:]',
                               'dtm_str = dtm_str[:2] + f"{int(dtm_str[2:4], 16) | 0x80:02X}" + dtm_str[4:]', "dtm", "C04a:dtm"),
    "id_mask_17_bits": (A, '_tmp & 0x03FFFF:06d}"  # type: ignore[assignment]', '_tmp & 0x01FFFF:06d}"  # type: ignore[assignment]',
                        "id_Address", "C04c:id_Address"),
    "id_hex_padding_dropped": (A, 'return f"{(int(dev_type) << 18) + int(device_id[-6:]):0>6X}"\n\n\ndef hex_id_to_dev_id',
                               'return f"{(int(dev_type) << 18) + int(device_id[-6:]):X}"\n\n\ndef hex_id_to_dev_id', "id_helpers", "C04c:id_helpers"),
    "id_single_point_typo": (A, 'return "NUL:262142" if friendly_id else ALL_DEVICE_ID', 'return "NUL:262142" if friendly_id else "63:262141"',
                             "id_helpers", "C04c:id_helpers"),
    "percent_upper_bound_exclusive": (H, "not 0 <= value <= 1:", "not 0 <= value < 1:", "pct200,pct100", "C04a:pct"),
    "temp_not_implemented_sentinel_dropped": (H, '    if value == "7EFF":  # possibly only for setpoints? unsigned?\n        return False\n', "", "temp", "C04d:temp"),
    "temp_twos_complement_off_by_one": (H, "temp = (temp if temp < 2**15 else temp - 2**16) / 100\n    if temp < -273.15:",
                                        "temp = (temp if temp < 2**15 else temp - 2**16 + 1) / 100\n    if temp < -273.15:",
                                        "temp", "temp:dec_mismatch"),
    "str_tilde_filtered": (H, "if 31 < x < 127])", "if 31 < x < 126])", "str", "C04a:str"),
    "bool_true_word": (H, 'return {False: "00", True: "C8"}[value]', 'return {False: "00", True: "01"}[value]', "bool", "C04a:bool"),
    "double_sentinel_word": (H, '    if value is None:\n        return "7FFF"\n    if not isinstance(value, float | int):\n        raise ValueError(f"Invalid value: {value}, is not a double',
                             '    if value is None:\n        return "FFFF"\n    if not isinstance(value, float | int):\n        raise ValueError(f"Invalid value: {value}, is not a double',
                             "dbl1", "C04d:dbl1"),
    "sched_setpoint_unpacked_as_signed": (S, 'struct.unpack("<xxxxBxxxBxxxHxxHH", raw_schedule)', 'struct.unpack("<xxxxBxxxBxxxHxxhH", raw_schedule)',
                                          "sched_setpoint", "sched_setpoint"),
}


# behaviour changes the property leaves open: must NOT alarm (exit 0, reported as MODEL-DRIFT)
NON_ALARMS = {
    "percent_Fx_guard_dropped": (H, "    if (raw_result := int(value, 16)) & 0xF0 == 0xF0:\n        return None  # TODO: raise errors\n",
                                 "    raw_result = int(value, 16)\n", "pct200,pct100", "MODEL-DRIFT"),
    "dtm_day_of_week_mask_dropped": (H, "hour=int(value[4:6], 16) & 0b11111,  # 1st 3 bits: DayOfWeek", "hour=int(value[4:6], 16),", "dtm", "MODEL-DRIFT"),
}


def corrupted_rows_demo() -> bool:
    """A corrupted recorded field must be rejected by TLC (clause) or flagged (drift)."""
    sys.path.insert(0, "/repo/src")
    from harness import ext_c04 as X

    rows = [X.row_scalar_dec("temp", w) for w in range(0x0100, 0x0110)]
    good = X.validate_items("WireCodecTrace", [{"fam": "temp", "dir": "dec", "p": [100], "rows": rows}], workers=1)
    bad1 = [list(r) for r in rows]
    bad1[3][4] += 1          # recorded re-encoded word
    bad2 = [list(r) for r in rows]
    bad2[5][2] += 1          # recorded decoded value
    r1 = X.validate_items("WireCodecTrace", [{"fam": "temp", "dir": "dec", "p": [100], "rows": bad1}], workers=1)
    r2 = X.validate_items("WireCodecTrace", [{"fam": "temp", "dir": "dec", "p": [100], "rows": bad2}], workers=1)
    print("corrupted rows: intact ->", good["rejects"], "| re-encoded word +1 ->", [sorted(x[1]) for x in r1["rejects"]],
          "| decoded value +1 ->", [sorted(x[1]) for x in r2["rejects"]])
    return (not good["rejects"] and any(f[1] == "b" for x in r1["rejects"] for f in x[1])
            and any(f[1] == "drift" for x in r2["rejects"] for f in x[1]))


def run(name: str) -> bool:
    if name == "corrupted_rows":
        return corrupted_rows_demo()
    if name in NON_ALARMS:
        return run_non_alarm(name)
    f, old, new, tables, frag = MUTATIONS[name]
    tmp = tempfile.mkdtemp(prefix="c04mut_")
    try:
        shutil.copytree("/repo/src", f"{tmp}/src")
        p = f"{tmp}/src/{f}"
        txt = open(p).read()
        if txt.count(old) != 1:
            print(f"{name}: MUTATION DOES NOT APPLY (pattern found {txt.count(old)}x)")
            return False
        open(p, "w").write(txt.replace(old, new))
        env = dict(os.environ, VERIF_REPO_SRC=f"{tmp}/src", VERIF_C04_ONLY=tables, VERIF_PROCS=os.environ.get("VERIF_PROCS", "4"))
        cp = subprocess.run(["bin/check", "C04", "quick"], cwd="/verif", env=env, capture_output=True, text=True)
        keys = [ln.split("clause/key:")[1].strip() for ln in cp.stdout.splitlines() if "clause/key:" in ln]
        hit = [k for k in keys if frag in k]
        ok = cp.returncode == 1 and bool(hit)
        print(f"{name}: exit={cp.returncode} {'CAUGHT' if ok else 'MISSED'} keys={keys[:6]}")
        if not ok:
            print(cp.stdout[-800:], cp.stderr[-800:])
        return ok
    finally:
        shutil.rmtree(tmp, ignore_errors=True)
        shutil.rmtree("/verif/replays/C04", ignore_errors=True)


def run_non_alarm(name: str) -> bool:
    f, old, new, tables, frag = NON_ALARMS[name]
    tmp = tempfile.mkdtemp(prefix="c04mut_")
    try:
        shutil.copytree("/repo/src", f"{tmp}/src")
        p = f"{tmp}/src/{f}"
        txt = open(p).read()
        if txt.count(old) != 1:
            print(f"{name}: MUTATION DOES NOT APPLY (pattern found {txt.count(old)}x)")
            return False
        open(p, "w").write(txt.replace(old, new))
        env = dict(os.environ, VERIF_REPO_SRC=f"{tmp}/src", VERIF_C04_ONLY=tables, VERIF_PROCS=os.environ.get("VERIF_PROCS", "4"))
        cp = subprocess.run(["bin/check", "C04", "quick"], cwd="/verif", env=env, capture_output=True, text=True)
        ok = cp.returncode == 0 and frag in cp.stdout
        print(f"{name}: exit={cp.returncode} {'NOT ALARMED, drift reported' if ok else 'UNEXPECTED'}")
        if not ok:
            print(cp.stdout[-800:], cp.stderr[-800:])
        return ok
    finally:
        shutil.rmtree(tmp, ignore_errors=True)


if __name__ == "__main__":
    names = sys.argv[1:] or (["corrupted_rows"] + list(MUTATIONS) + list(NON_ALARMS))
    res = [run(n) for n in names]
    print(f"{sum(res)}/{len(res)} mutations caught")
    sys.exit(0 if all(res) else 1)

"""C09 — see checks/qos_common.py, spec/QosContract.tla, spec/QosFsm.tla, DESIGN.md §4."""
from checks.qos_common import run_check
from harness.report import main_wrapper

if __name__ == "__main__":
    main_wrapper("C09", lambda tier, replay: run_check("C09", tier, replay))

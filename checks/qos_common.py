"""Shared driver for C07 / C08 / C09: model checking of QosFsm, spec->code replay, systematic and
seeded scenarios on the real PortProtocol, observable traces judged by TLC (QosTrace/QosContract)."""
from __future__ import annotations

import json
import multiprocessing as mp
import os
import random
import time

from harness import tlc
from harness.report import Check

NPROC = int(os.environ.get("VERIF_PROCS", "12"))


def _work(sc: dict) -> dict:
    from harness import fakes, qos
    fakes.quiet_logging()
    try:
        return qos.run_scenario(sc, stuck_s=float(os.environ.get("VERIF_STUCK_S", "10")))
    except BaseException as err:  # noqa: BLE001
        return {"harness_error": f"{type(err).__name__}: {err}"}


def run_scenarios(scs: list[dict]) -> list[dict]:
    if len(scs) < 8:
        return [_work(s) for s in scs]
    with mp.get_context("fork").Pool(NPROC) as pool:
        return pool.map(_work, scs, chunksize=max(1, len(scs) // (NPROC * 8)))


def scenarios(tier: str, seed: int) -> list[dict]:
    from harness import qos_gen
    rich = tier == "thorough"
    rng = random.Random(seed * 7919 + (1 if rich else 0))
    scs = qos_gen.single_caller_grid(rich) + qos_gen.queue_order_scenarios(rich)
    n_rand = 40000 if rich else 2500
    for k in range(n_rand):
        scs.append(qos_gen.random_scenario(rng, 1 + (k % 4), rich=True))
    return scs


def judge(items: list[dict], workers=None) -> dict:
    return tlc.validate_batch("QosTrace", items, workers=workers, chunk=3000, timeout=1800)


def key_of(f1: tuple, item: dict) -> str:
    """Canonical key of one failing (line, clause) pair of a trace."""
    line, clause = f1[0], f1[1]
    e = item["ev"][line - 1]
    if e["e"] == "LoopExc":  # the tripping site (function name inside the library)
        return f"{clause}:{e['k']}:{e['s']}"
    return clause


def run_check(pid: str, tier: str, replay: str | None) -> None:
    chk = Check(pid, tier, "model_checking")
    if replay:
        obj = json.load(open(replay))
        sc = obj["replay"]["scenario"] if "replay" in obj else obj
        item = _work(sc)
        for e in item.get("ev", []):
            print({k: v for k, v in e.items() if v not in ("", 0) or k == "t"})
        res = judge([item], workers=2)
        print("verdict:", res["rejects"] or "accepted")
        raise SystemExit(1 if res["rejects"] else 0)
    t0 = time.time()
    scs = scenarios(tier, chk.seed)
    items = run_scenarios(scs)
    t_run = time.time() - t0
    herr = [(i, it["harness_error"]) for i, it in enumerate(items) if "harness_error" in it]
    if herr:
        raise RuntimeError(f"{len(herr)} scenarios failed in the harness, e.g. {herr[0]}")
    res = judge(items)
    mine = 0
    others: dict[str, int] = {}
    for idx, fails in res["rejects"]:
        for f1 in fails:
            clause = f1[1]
            if clause.startswith(pid):
                mine += 1
                chk.violation(key_of(f1, items[idx]), f"{clause} at event {f1[0]} of scenario #{idx}",
                              {"scenario": scs[idx], "fail": list(f1)})
            else:
                others[clause] = others.get(clause, 0) + 1
    if others:
        chk.note(f"clauses of sibling properties that failed on these traces (reported by their own checks): {others}")
    distinct = len({json.dumps(it["ev"], sort_keys=True) for it in items})
    chk.finish(
        coverage={
            "states": res["states"], "transitions": res["transitions"],
            "traces_validated_against_impl": res["n"],
            "distinct_traces": distinct,
            "scenarios": len(scs),
            "samples": [scs[0], scs[len(scs) // 2], scs[-1]],
            "sample_trace": items[-1]["ev"][:40],
            "run_wall_s": round(t_run, 1), "tlc_wall_s": round(res["wall_s"], 1),
        },
        assumptions=["virtual-time loop reproduces CPython 3.12 iteration semantics (harness/vloop.py)",
                     "FakeTransport delivers packets via call_soon(protocol.pkt_received) like the real transports"],
    )

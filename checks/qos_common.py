"""Shared driver for C07 / C08 / C09: model checking of QosFsm, spec->code replay, systematic and
seeded scenarios on the real PortProtocol, observable traces judged by TLC (QosTrace/QosContract)."""
from __future__ import annotations

import json
import multiprocessing as mp
import os
import random
import time

from harness import tlc
from harness.report import Check

NPROC = int(os.environ.get("VERIF_PROCS", "12"))


def _work(sc: dict) -> dict:
    from harness import fakes, qos
    fakes.quiet_logging()
    try:
        return qos.run_scenario(sc, stuck_s=float(os.environ.get("VERIF_STUCK_S", "10")))
    except BaseException as err:  # noqa: BLE001
        return {"harness_error": f"{type(err).__name__}: {err}"}


def run_scenarios(scs: list[dict]) -> list[dict]:
    if len(scs) < 8:
        return [_work(s) for s in scs]
    with mp.get_context("fork").Pool(NPROC) as pool:
        return pool.map(_work, scs, chunksize=max(1, len(scs) // (NPROC * 8)))


def scenarios(tier: str, seed: int) -> list[dict]:
    from harness import qos_gen
    rich = tier == "thorough"
    rng = random.Random(seed * 7919 + (1 if rich else 0))
    scs = qos_gen.single_caller_grid(rich) + qos_gen.queue_order_scenarios(rich) + qos_gen.repeat_scenarios(rich) \
        + qos_gen.foreign_null_scenarios(rich) + qos_gen.twin_scenarios(rich) + qos_gen.streak_scenarios(rich) \
        + qos_gen.cause_scenarios(rich)
    n_rand = 16000 if rich else 2500
    for k in range(n_rand):
        scs.append(qos_gen.random_scenario(rng, 1 + (k % 4), rich=True))
    return scs


MODEL_CALLERS = {1: {"kind": "I", "zone": 1, "mr": 1, "wfr": False, "prio": 2},
                 2: {"kind": "RQ", "zone": 2, "mr": 1, "wfr": True, "prio": 2}}


MODEL_CALLERS3 = {1: {"kind": "I", "zone": 1, "mr": 1, "wfr": False, "prio": 2},
                  2: {"kind": "RQ", "zone": 2, "mr": 1, "wfr": True, "prio": 2},
                  3: {"kind": "RQ", "zone": 3, "mr": 0, "wfr": False, "prio": 0}}


def _replay(arg) -> dict:
    from harness import fakes, qos_director
    fakes.quiet_logging()
    beh, callers = arg
    try:
        return qos_director.replay_behaviour(beh, callers)
    except BaseException as err:  # noqa: BLE001
        return {"harness_error": f"{type(err).__name__}: {err}"}


def model_check(tier: str) -> dict:
    """TLC on the implementation-shaped model of the current code (all repair flags on)."""
    # live = safety invariants + liveness (Live) + the C08d action property
    runs = [("MC_QosFsm", "MC_QosFsm_live.cfg")]
    if tier == "thorough":
        runs += [("MC_QosFsm", "MC_QosFsm_deep.cfg"), ("MC_QosFsm3", "MC_QosFsm3.cfg")]
    out = {"instances": [], "ok": True, "violated": [], "states": 0, "transitions": 0, "errors": []}
    for mod, cfg in runs:
        r = tlc.run_tlc(mod, cfg, workers=8 if tier == "quick" else 12, timeout=3000)
        out["instances"].append({"cfg": cfg, "ok": r.ok, "violated": r.violated, "states": r.distinct,
                                 "transitions": r.states, "depth": r.depth, "wall_s": round(r.wall_s, 1)})
        out["ok"] = out["ok"] and r.ok
        out["violated"] += [f"{cfg}:{v}" for v in r.violated]
        out["errors"] += r.errors[:2]
        out["states"] += r.distinct
        out["transitions"] += r.states
    out["cfg"] = ",".join(c for _, c in runs)
    return out


def spec_to_code(tier: str, seed: int) -> tuple[list[dict], int]:
    """Behaviours of the model (TLC -simulate) replayed through the real PortProtocol by the Director."""
    import shutil
    import tempfile
    n = 300 if tier == "quick" else 2400
    d = tempfile.mkdtemp(prefix="vqsim_")
    try:
        behs = []
        srcs = [("MC_QosFsm", "MC_QosFsm_fixed.cfg", MODEL_CALLERS), ("MC_QosFsm", "MC_QosFsm_deep.cfg", MODEL_CALLERS),
                ("MC_QosFsm3", "MC_QosFsm3.cfg", MODEL_CALLERS3)]
        for k, (mod, cfg, callers) in enumerate(srcs):
            r = tlc.run_tlc(mod, cfg, simulate=f"file={d}/tr{k}_,num={n // len(srcs)}", depth=100, seed=seed + 1 + k,
                            workers=1, timeout=1200)
            if r.errors or r.violated:
                raise tlc.MachineryFailure(f"TLC -simulate failed: {r.violated} {r.errors[:2]}")
            behs += [(b, callers) for b in tlc.read_sim_traces(f"{d}/tr{k}_")]
    finally:
        shutil.rmtree(d, ignore_errors=True)
    if len(behs) < 8:
        outs = [_replay(b) for b in behs]
    else:
        with mp.get_context("fork").Pool(NPROC) as pool:
            outs = pool.map(_replay, behs, chunksize=8)
    return outs, len(behs)


# --------------------------------------------------------------------------------------------------
# the PortProtocol layer above the state machine (spec/QosPort.tla): its decision table on the real code

_MODE = {"on": False, "off": True, "auto": None}
_REQ = {"T": True, "F": False, "N": None}


def _port_scenarios() -> list[tuple[dict, dict]]:
    """(row descriptor, scenario) for every row of QosPort (one call) and every Share pair (two calls, one object)."""
    out = []
    ok = [{"echo": 0.01, "reply": 0.05}]

    def call(i, t, kind, wfr):
        return {"id": i, "t": t, "kind": kind, "zone": i, "prio": 0, "mr": 0, "to": 5.0, "wfr": wfr, "tx": ok,
                "outer": None, "hops": 0}

    for m, mode in _MODE.items():
        for r, wfr in _REQ.items():
            for kind in ("RQ", "W", "I", "IMP", "LOG"):
                for paused in (0, 1):
                    sc = {"mode": mode, "callers": [call(1, 0.001, kind, wfr)],
                          "events": [{"t": 0.0, "ev": "pause", "hops": 0}] if paused else []}
                    out.append(({"mode": m, "req": r, "kind": kind, "kind2": "", "paused": paused, "share": 0}, sc))
                for kind2 in ("RQ", "LOG", "W"):
                    sc = {"mode": mode, "share_qos": True, "events": [],
                          "callers": [call(1, 0.001, kind, wfr), call(2, 1.0, kind2, wfr)]}
                    out.append(({"mode": m, "req": r, "kind": kind, "kind2": kind2, "paused": 0, "share": 1}, sc))
    return out


def _port_obs(item: dict, i: int) -> dict:
    """What call i did, read off its recorded trace."""
    ev = item["ev"]
    writes = sum(1 for e in ev if e["e"] == "Write" and e["i"] == i)
    t_call = next(e["t"] for e in ev if e["e"] == "Call" and e["i"] == i)
    t_end = next((e["t"] for e in ev if e["e"] in ("Return", "Raise") and e["i"] == i), 1 << 30)
    notices = sum(1 for e in ev if e["e"] == "Write" and e["k"] == "alert" and t_call <= e["t"] <= t_end)
    out = "other:none"
    for e in ev:
        if e["i"] != i:
            continue
        if e["e"] == "Return":
            out = e["k"]
        elif e["e"] == "Raise":
            out = ("refused" if writes == 0 else "error") if e["k"] == "protocol" else f"other:{e['s']}"
    return {"out": out, "notices": notices, "writes": writes}


def port_layer(chk: Check) -> tuple[dict, list[dict], list[dict]]:
    """TLC on QosPort; every row and Share pair executed on the real PortProtocol; mismatches are drift.
    Returns (coverage, scenarios, trace items) - the traces also go to the contract judge with the rest."""
    r = tlc.run_tlc("MC_QosPort", "MC_QosPort.cfg", workers=2, timeout=300)
    if not r.ok:
        chk.model_drift(f"TLC: QosPort violates {r.violated or r.errors[:2]}")
    rows = _port_scenarios()
    items = run_scenarios([sc for _, sc in rows])
    herr = [it["harness_error"] for it in items if "harness_error" in it]
    if herr:
        raise RuntimeError(f"{len(herr)} port-layer scenarios failed in the harness, e.g. {herr[0]}")
    table = []
    for (d, _sc), it in zip(rows, items):
        calls = [_port_obs(it, 1)] + ([_port_obs(it, 2)] if d["share"] else [])
        table.append(dict(d, calls=calls))
    res = tlc.validate_batch("QosPortTrace", table, workers=2, timeout=600)
    seen = set()
    for idx, fail in res["rejects"]:
        d = table[idx]
        sig = (fail[1], d["mode"], d["req"], d["kind"], d["kind2"], d["paused"])
        if sig in seen:
            continue
        seen.add(sig)
        chk.model_drift(f"{fail[1]}: PortProtocol.send_cmd mode={d['mode']} wait_for_reply={d['req']} kind={d['kind']}"
                        f"{'+' + d['kind2'] if d['share'] else ''} paused={d['paused']}: code {d['calls']} model expects {fail[2]}")
    cov = {"model_states": r.distinct, "rows_executed": len(table), "rows_differing_from_model": len(res["rejects"])}
    return cov, [sc for _, sc in rows], items


# --------------------------------------------------------------------------------------------------
# the same machinery reached through a real Gateway across its life cycle (spec/GwyLife.tla)

def _gw_work(sc: dict) -> dict:
    from harness import fakes, qos_gw
    fakes.quiet_logging()
    try:
        return qos_gw.run_scenario(sc, stuck_s=float(os.environ.get("VERIF_STUCK_S", "10")))
    except BaseException as err:  # noqa: BLE001
        return {"harness_error": f"{type(err).__name__}: {err}"}


def lifecycle(chk: Check, tier: str, with_model: bool) -> tuple[dict, list[dict], list[dict]]:
    """Gateway.start() / stop() / start() again / a port that dies or stays silent, with callers using
    Gateway.async_send_cmd() and Gateway.send_cmd() around every operation.  TLC checks the design (GwyLife instances);
    every execution of the real Gateway is folded through the same operators (GwyLifeTrace: drift only) and is judged
    by the C07-C09 contract together with the other traces."""
    from harness import qos_gen
    cov: dict = {}
    if with_model:
        inst = []
        for cfg, want in (("MC_GwyLife_fix.cfg", []), ("MC_GwyLife_live.cfg", []),
                          ("MC_GwyLife_x_active.cfg", ["NoTrip"]), ("MC_GwyLife_x_shield.cfg", ["Restartable"]),
                          ("MC_GwyLife_x_overlap.cfg", ["CtxTracksConnection"])):
            r = tlc.run_tlc("MC_GwyLife", cfg, workers=4, timeout=600)
            inst.append({"cfg": cfg, "states": r.distinct, "transitions": r.states, "violated": r.violated,
                         "expected_violated": want})
            if sorted(r.violated) != sorted(want) or r.errors and not want:
                chk.model_drift(f"TLC: {cfg}: violated {r.violated or r.errors[:1]}, expected {want}")
        cov["model_check"] = inst
    scs = qos_gen.lifecycle_scenarios(tier == "thorough") + qos_gen.gateway_api_scenarios(tier == "thorough") \
        + qos_gen.other_dongle_scenarios(tier == "thorough")
    # ... and operation sequences taken from the model itself (TLC -simulate on the repaired instance)
    import shutil
    import tempfile
    d = tempfile.mkdtemp(prefix="vglsim_")
    try:
        n_sim = 60 if tier == "quick" else 600
        r = tlc.run_tlc("MC_GwyLife", "MC_GwyLife_fix.cfg", simulate=f"file={d}/tr_,num={n_sim}", depth=45, seed=chk.seed + 11,
                        workers=1, timeout=600)
        if r.errors or r.violated:
            raise tlc.MachineryFailure(f"TLC -simulate (GwyLife) failed: {r.violated} {r.errors[:2]}")
        behs = tlc.read_sim_traces(f"{d}/tr_")
    finally:
        shutil.rmtree(d, ignore_errors=True)
    from_model = [s for s in (qos_gen.lifecycle_from_behaviour(b, [2, 5]) for b in behs) if s is not None]
    if len(from_model) < n_sim // 4:
        raise tlc.MachineryFailure(f"GwyLife -simulate yielded {len(from_model)} usable behaviours of {n_sim}")
    seen = set()
    for s in from_model:      # distinct operation sequences only
        key = json.dumps([s["events"], s["seq"]])
        if key not in seen:
            seen.add(key)
            scs.append(s)
    cov["behaviours_from_model"] = len(behs)
    cov["distinct_model_sequences_run"] = len(seen)
    if len(scs) < 8:
        items = [_gw_work(s) for s in scs]
    else:
        with mp.get_context("fork").Pool(NPROC) as pool:
            items = pool.map(_gw_work, scs, chunksize=4)
    herr = [(i, it["harness_error"]) for i, it in enumerate(items) if "harness_error" in it]
    if herr:
        raise RuntimeError(f"{len(herr)} life-cycle scenarios failed in the harness, e.g. {herr[0]}")
    res = tlc.validate_batch("GwyLifeTrace", items, workers=4, chunk=3000, timeout=1200)
    for idx, f in res["rejects"][:12]:
        chk.model_drift(f"life cycle: scenario {scs[idx]['seq']!r} #{idx}: {f[1]} at event {f[0]}")
    if len(res["rejects"]) > 12:
        chk.model_drift(f"life cycle: {len(res['rejects'])} executions in all are not behaviours of GwyLife")
    ops = {}
    for it in items:
        for e in it["ev"]:
            if e["e"] in ("StartRet", "StopRet"):
                key = f"{e['e']}:{e['k']}{':' + e['s'] if e['s'] else ''}"
                ops[key] = ops.get(key, 0) + 1
    cov.update({"scenarios": len(scs), "sequences": sorted({s["seq"] for s in scs if not s["seq"].startswith("model:")}),
                "sample_model_sequence": next((s["seq"] for s in scs if s["seq"].startswith("model:")), ""), "executions_folded_by_GwyLifeTrace": res["n"],
                "executions_with_drift": len(res["rejects"]), "fold_states": res["states"], "operation_outcomes": ops})
    return cov, scs, items


def judge(items: list[dict], workers=None) -> dict:
    return tlc.validate_batch("QosTrace", items, workers=workers, chunk=3000, timeout=1800)


def key_of(f1: tuple, item: dict) -> str:
    """Canonical key of one failing (line, clause) pair of a trace."""
    line, clause = f1[0], f1[1]
    e = item["ev"][line - 1]
    if e["e"] == "LoopExc":  # the tripping site (function name inside the library)
        return f"{clause}:{e['k']}:{e['s']}"
    return clause


def run_check(pid: str, tier: str, replay: str | None) -> None:
    chk = Check(pid, tier, "model_checking")
    if replay:
        obj = json.load(open(replay))
        sc = obj["replay"]["scenario"] if "replay" in obj else obj
        item = _gw_work(sc) if sc.get("via") == "gateway" else _work(sc)
        for e in item.get("ev", []):
            print({k: v for k, v in e.items() if v not in ("", 0) or k == "t"})
        res = judge([item], workers=2)
        if sc.get("via") == "gateway":
            print("GwyLifeTrace (drift):", tlc.validate_batch("GwyLifeTrace", [item], workers=2)["rejects"] or "none")
        print("verdict:", res["rejects"] or "accepted")
        raise SystemExit(1 if res["rejects"] else 0)
    t0 = time.time()
    # (1) the design: TLC on the implementation-shaped model
    mc = model_check(tier)
    if not mc["ok"]:
        # a failed model invariant is a candidate only (DESIGN 3.1): it does not raise a verdict by itself;
        # the real executions below decide.  It does mean the model no longer describes the code.
        chk.model_drift(f"TLC: model of the current code violates {mc['violated'] or mc['errors']} ({mc['cfg']})")
    # (2) spec -> code: model behaviours replayed on the real code, state compared at every boundary
    outs, nbeh = spec_to_code(tier, chk.seed)
    herr = [o["harness_error"] for o in outs if "harness_error" in o]
    if herr:
        raise RuntimeError(f"{len(herr)} replays failed in the harness, e.g. {herr[0]}")
    ndrift = 0
    compared = 0
    for o in outs:
        compared += o.get("compared", 0)
        if o["drift"]:
            ndrift += 1
            chk.model_drift(o["drift"][0])
    dir_items = [{k: o[k] for k in ("echo_to", "rply_to", "untimed", "ev")} for o in outs if not o.get("aborted")]
    # (3) code -> spec: systematic + seeded scenarios on natural virtual time
    scs = scenarios(tier, chk.seed)
    items = run_scenarios(scs)
    t_run = time.time() - t0
    herr = [(i, it["harness_error"]) for i, it in enumerate(items) if "harness_error" in it]
    if herr:
        raise RuntimeError(f"{len(herr)} scenarios failed in the harness, e.g. {herr[0]}")
    port_cov: dict = {}
    if pid == "C07":    # the layer above the state machine (decision table of modes / pause / impersonation notice)
        port_cov, pscs, pitems = port_layer(chk)
        scs, items = scs + pscs, items + pitems
    life_cov, lscs, litems = lifecycle(chk, tier, with_model=(pid == "C09"))
    scs, items = scs + lscs, items + litems
    n_nat = len(items)
    scs = scs + [{"director_replay": k} for k in range(len(dir_items))]
    items = items + dir_items
    res = judge(items)
    mine = 0
    others: dict[str, int] = {}
    for idx, fails in res["rejects"]:
        for f1 in fails:
            clause = f1[1]
            if clause.startswith(pid):
                mine += 1
                chk.violation(key_of(f1, items[idx]), f"{clause} at event {f1[0]} of scenario #{idx}",
                              {"scenario": scs[idx], "fail": list(f1)})
            else:
                others[clause] = others.get(clause, 0) + 1
    if others:
        chk.note(f"clauses of sibling properties that failed on these traces (reported by their own checks): {others}")
    distinct = len({json.dumps(it["ev"], sort_keys=True) for it in items})
    chk.finish(
        coverage={
            "states": mc["states"], "transitions": mc["transitions"], "model_check": mc,
            "port_layer": port_cov,
            "gateway_life_cycle": life_cov,
            "spec_to_code": {"behaviours_replayed": nbeh, "boundaries_compared": compared, "behaviours_with_drift": ndrift},
            "traces_validated_against_impl": res["n"], "natural_scenarios": n_nat,
            "trace_validation_states": res["states"],
            "distinct_traces": distinct,
            "scenarios": len(scs),
            "samples": [scs[0], scs[len(scs) // 2], scs[-1]],
            "sample_trace": items[-1]["ev"][:40],
            "run_wall_s": round(t_run, 1), "tlc_wall_s": round(res["wall_s"], 1),
        },
        assumptions=["virtual-time loop reproduces CPython 3.12 iteration semantics (harness/vloop.py)",
                     "FakeTransport delivers packets via call_soon(protocol.pkt_received) like the real transports"],
    )

"""Shared driver for C07 / C08 / C09: model checking of QosFsm, spec->code replay, systematic and
seeded scenarios on the real PortProtocol, observable traces judged by TLC (QosTrace/QosContract)."""
from __future__ import annotations

import json
import multiprocessing as mp
import os
import random
import time

from harness import tlc
from harness.report import Check

NPROC = int(os.environ.get("VERIF_PROCS", "12"))


def _work(sc: dict) -> dict:
    from harness import fakes, qos
    fakes.quiet_logging()
    try:
        return qos.run_scenario(sc, stuck_s=float(os.environ.get("VERIF_STUCK_S", "10")))
    except BaseException as err:  # noqa: BLE001
        return {"harness_error": f"{type(err).__name__}: {err}"}


def run_scenarios(scs: list[dict]) -> list[dict]:
    if len(scs) < 8:
        return [_work(s) for s in scs]
    with mp.get_context("fork").Pool(NPROC) as pool:
        return pool.map(_work, scs, chunksize=max(1, len(scs) // (NPROC * 8)))


def scenarios(tier: str, seed: int) -> list[dict]:
    from harness import qos_gen
    rich = tier == "thorough"
    rng = random.Random(seed * 7919 + (1 if rich else 0))
    scs = qos_gen.single_caller_grid(rich) + qos_gen.queue_order_scenarios(rich)
    n_rand = 40000 if rich else 2500
    for k in range(n_rand):
        scs.append(qos_gen.random_scenario(rng, 1 + (k % 4), rich=True))
    return scs


MODEL_CALLERS = {1: {"kind": "I", "zone": 1, "mr": 1, "wfr": False, "prio": 2},
                 2: {"kind": "RQ", "zone": 2, "mr": 1, "wfr": True, "prio": 2}}


MODEL_CALLERS3 = {1: {"kind": "I", "zone": 1, "mr": 1, "wfr": False, "prio": 2},
                  2: {"kind": "RQ", "zone": 2, "mr": 1, "wfr": True, "prio": 2},
                  3: {"kind": "RQ", "zone": 3, "mr": 0, "wfr": False, "prio": 0}}


def _replay(arg) -> dict:
    from harness import fakes, qos_director
    fakes.quiet_logging()
    beh, callers = arg
    try:
        return qos_director.replay_behaviour(beh, callers)
    except BaseException as err:  # noqa: BLE001
        return {"harness_error": f"{type(err).__name__}: {err}"}


def model_check(tier: str) -> dict:
    """TLC on the implementation-shaped model of the current code (all repair flags on)."""
    # live = safety invariants + liveness (Live) + the C08d action property
    runs = [("MC_QosFsm", "MC_QosFsm_live.cfg")]
    if tier == "thorough":
        runs += [("MC_QosFsm", "MC_QosFsm_deep.cfg"), ("MC_QosFsm3", "MC_QosFsm3.cfg")]
    out = {"instances": [], "ok": True, "violated": [], "states": 0, "transitions": 0, "errors": []}
    for mod, cfg in runs:
        r = tlc.run_tlc(mod, cfg, workers=8 if tier == "quick" else 12, timeout=3000)
        out["instances"].append({"cfg": cfg, "ok": r.ok, "violated": r.violated, "states": r.distinct,
                                 "transitions": r.states, "depth": r.depth, "wall_s": round(r.wall_s, 1)})
        out["ok"] = out["ok"] and r.ok
        out["violated"] += [f"{cfg}:{v}" for v in r.violated]
        out["errors"] += r.errors[:2]
        out["states"] += r.distinct
        out["transitions"] += r.states
    out["cfg"] = ",".join(c for _, c in runs)
    return out


def spec_to_code(tier: str, seed: int) -> tuple[list[dict], int]:
    """Behaviours of the model (TLC -simulate) replayed through the real PortProtocol by the Director."""
    import shutil
    import tempfile
    n = 300 if tier == "quick" else 4000
    d = tempfile.mkdtemp(prefix="vqsim_")
    try:
        behs = []
        srcs = [("MC_QosFsm", "MC_QosFsm_fixed.cfg", MODEL_CALLERS), ("MC_QosFsm", "MC_QosFsm_deep.cfg", MODEL_CALLERS),
                ("MC_QosFsm3", "MC_QosFsm3.cfg", MODEL_CALLERS3)]
        for k, (mod, cfg, callers) in enumerate(srcs):
            r = tlc.run_tlc(mod, cfg, simulate=f"file={d}/tr{k}_,num={n // len(srcs)}", depth=100, seed=seed + 1 + k,
                            workers=1, timeout=1200)
            if r.errors or r.violated:
                raise tlc.MachineryFailure(f"TLC -simulate failed: {r.violated} {r.errors[:2]}")
            behs += [(b, callers) for b in tlc.read_sim_traces(f"{d}/tr{k}_")]
    finally:
        shutil.rmtree(d, ignore_errors=True)
    if len(behs) < 8:
        outs = [_replay(b) for b in behs]
    else:
        with mp.get_context("fork").Pool(NPROC) as pool:
            outs = pool.map(_replay, behs, chunksize=8)
    return outs, len(behs)


def judge(items: list[dict], workers=None) -> dict:
    return tlc.validate_batch("QosTrace", items, workers=workers, chunk=3000, timeout=1800)


def key_of(f1: tuple, item: dict) -> str:
    """Canonical key of one failing (line, clause) pair of a trace."""
    line, clause = f1[0], f1[1]
    e = item["ev"][line - 1]
    if e["e"] == "LoopExc":  # the tripping site (function name inside the library)
        return f"{clause}:{e['k']}:{e['s']}"
    return clause


def run_check(pid: str, tier: str, replay: str | None) -> None:
    chk = Check(pid, tier, "model_checking")
    if replay:
        obj = json.load(open(replay))
        sc = obj["replay"]["scenario"] if "replay" in obj else obj
        item = _work(sc)
        for e in item.get("ev", []):
            print({k: v for k, v in e.items() if v not in ("", 0) or k == "t"})
        res = judge([item], workers=2)
        print("verdict:", res["rejects"] or "accepted")
        raise SystemExit(1 if res["rejects"] else 0)
    t0 = time.time()
    # (1) the design: TLC on the implementation-shaped model
    mc = model_check(tier)
    if not mc["ok"]:
        # a failed model invariant is a candidate only (DESIGN 3.1): it does not raise a verdict by itself;
        # the real executions below decide.  It does mean the model no longer describes the code.
        chk.model_drift(f"TLC: model of the current code violates {mc['violated'] or mc['errors']} ({mc['cfg']})")
    # (2) spec -> code: model behaviours replayed on the real code, state compared at every boundary
    outs, nbeh = spec_to_code(tier, chk.seed)
    herr = [o["harness_error"] for o in outs if "harness_error" in o]
    if herr:
        raise RuntimeError(f"{len(herr)} replays failed in the harness, e.g. {herr[0]}")
    ndrift = 0
    compared = 0
    for o in outs:
        compared += o.get("compared", 0)
        if o["drift"]:
            ndrift += 1
            chk.model_drift(o["drift"][0])
    dir_items = [{k: o[k] for k in ("echo_to", "rply_to", "untimed", "ev")} for o in outs if not o.get("aborted")]
    # (3) code -> spec: systematic + seeded scenarios on natural virtual time
    scs = scenarios(tier, chk.seed)
    items = run_scenarios(scs)
    t_run = time.time() - t0
    herr = [(i, it["harness_error"]) for i, it in enumerate(items) if "harness_error" in it]
    if herr:
        raise RuntimeError(f"{len(herr)} scenarios failed in the harness, e.g. {herr[0]}")
    n_nat = len(items)
    scs = scs + [{"director_replay": k} for k in range(len(dir_items))]
    items = items + dir_items
    res = judge(items)
    mine = 0
    others: dict[str, int] = {}
    for idx, fails in res["rejects"]:
        for f1 in fails:
            clause = f1[1]
            if clause.startswith(pid):
                mine += 1
                chk.violation(key_of(f1, items[idx]), f"{clause} at event {f1[0]} of scenario #{idx}",
                              {"scenario": scs[idx], "fail": list(f1)})
            else:
                others[clause] = others.get(clause, 0) + 1
    if others:
        chk.note(f"clauses of sibling properties that failed on these traces (reported by their own checks): {others}")
    distinct = len({json.dumps(it["ev"], sort_keys=True) for it in items})
    chk.finish(
        coverage={
            "states": mc["states"], "transitions": mc["transitions"], "model_check": mc,
            "spec_to_code": {"behaviours_replayed": nbeh, "boundaries_compared": compared, "behaviours_with_drift": ndrift},
            "traces_validated_against_impl": res["n"], "natural_scenarios": n_nat,
            "trace_validation_states": res["states"],
            "distinct_traces": distinct,
            "scenarios": len(scs),
            "samples": [scs[0], scs[len(scs) // 2], scs[-1]],
            "sample_trace": items[-1]["ev"][:40],
            "run_wall_s": round(t_run, 1), "tlc_wall_s": round(res["wall_s"], 1),
        },
        assumptions=["virtual-time loop reproduces CPython 3.12 iteration semantics (harness/vloop.py)",
                     "FakeTransport delivers packets via call_soon(protocol.pkt_received) like the real transports"],
    )

"""C17 - schedules survive the wire format.

Reassembly half: spec/SchedFrags.tla (Schedule._update_payload_set/_proc_payload_set line by line,
versions, the shared module-level default payload set) is model-checked by TLC; every transition of
the bounded state graph is replayed on real Schedule objects with real 0404 RP packets (two logged
schedules + library-encoded ones); private state compared = drift; the public `schedule` views are
judged by TLC (spec/SchedFragsTrace.tla, clause d).
Codec half: validator-accepted schedules -> full_sched_to_fragz -> fragz_to_full_sched, fragment
sizes, set_schedule_fragment commands through the decoder; rows judged by TLC
(spec/SchedCodec.tla + SchedCodecTrace.tla, clauses a-c).

usage: bin/check C17 quick|thorough [--replay FILE]
"""
from __future__ import annotations

import collections
import json
import logging
import multiprocessing as mp
import os
import random
import re
import shutil
import tempfile
import time

from harness import tlc
from harness.report import Check, main_wrapper

PID = "C17"
WORKERS = int(os.environ.get("VERIF_C17_PROCS", "4"))
ZMAP = {"HW": "HW", "Z1": "01"}  # model zone -> real zone idx
NF_MODEL = {"D1": 1, "D2": 1, "E": 2, "C": 2, "A": 3, "B": 3, "F": 4}


def fn(v) -> dict:
    if isinstance(v, tuple):
        return {i + 1: x for i, x in enumerate(v)}
    return dict(v)


def canon(x):
    if isinstance(x, dict):
        return tuple(sorted((k, canon(v)) for k, v in x.items()))
    if isinstance(x, (tuple, list)):
        return tuple(canon(v) for v in x)
    if isinstance(x, (set, frozenset)):
        return tuple(sorted(canon(v) for v in x))
    return x


def skey(s: dict) -> tuple:
    return canon({k: s[k] for k in ("shared", "ref", "own", "full", "got", "nev")})


def _parse_chunk(txt: str) -> list[dict]:
    return [tlc.parse_state(m.group(1))
            for m in re.finditer(r"(?ms)^State \d+:\s*\n(.*?)(?=^State \d+:|\Z)", txt)]


def read_dump_parallel(path: str, pool) -> list[dict]:
    txt = open(path).read()
    starts = [m.start() for m in re.finditer(r"(?m)^State \d+:", txt)]
    if not starts:
        return []
    n = max(1, len(starts) // (WORKERS * 4))
    cuts = starts[::n] + [len(txt)]
    out: list[dict] = []
    for part in pool.map(_parse_chunk, [txt[cuts[i]:cuts[i + 1]] for i in range(len(cuts) - 1)]):
        out.extend(part)
    return out


def EV(s: dict) -> tuple:
    """The event of a model step + how the model says the call ended ("" or an exception class)."""
    return tuple(s["h"]["ev"]) + (s["h"]["exc"],)


def expected(s: dict) -> dict:
    """Projection of a model state comparable with Runner.observe()."""
    return {"shared": [list(x) for x in s["shared"]],
            "ref": dict(s["ref"]),
            "own": {z: [list(x) for x in (s["own"][z] if s["ref"][z] == "own" else ())] for z in s["ref"]},
            "full": dict(s["full"])}


_CAT = None
FIELDS = ("k", "z", "v", "n", "del", "exc", "view")


def _run_many(jobs):
    logging.disable(logging.CRITICAL)
    from harness import ext_c17 as X
    global _CAT
    if _CAT is None:
        _CAT = X.catalogue()
    res = []
    zones = list(ZMAP.values())
    inv = {v: k for k, v in ZMAP.items()}
    for hist, expect in jobs:
        obs = X.run_history(_CAT, zones, [(e[0], ZMAP[e[1]], e[2], e[3]) for e in hist])
        drift = ""
        for o in obs:  # back to model zone names
            o["view"] = [[inv[z], x] for z, x in o["view"]]
            o["z"] = inv[o["z"]]
            for fld in ("full", "ref", "own"):
                o[fld] = {inv[z]: x for z, x in o[fld].items()}
        if expect is not None:
            for n, (o, e) in enumerate(zip(obs, expect)):
                if e is None:
                    continue
                for fld in ("shared", "ref", "own", "full"):
                    if o[fld] != e[fld]:
                        drift = f"step {n + 1} {hist[n]}: real {fld}={o[fld]} model {fld}={e[fld]}"
                        break
                if not drift and len(hist[n]) > 4 and bool(o["exc"]) != bool(hist[n][4]):
                    drift = f"step {n + 1} {hist[n]}: the real call ended with {o['exc'] or 'no exception'}, the model's with {hist[n][4] or 'none'}"
                if drift:
                    break
        res.append(([{k: o[k] for k in FIELDS} for o in obs], drift))
    return res


def run_real(pool, jobs: list) -> list:
    if not jobs:
        return []
    n = max(1, len(jobs) // (WORKERS * 8))
    out = []
    for r in pool.map(_run_many, [jobs[i:i + n] for i in range(0, len(jobs), n)]):
        out.extend(r)
    return out


def _gateway_many(hists):
    from harness import ext_c17 as X
    global _CAT
    if _CAT is None:
        _CAT = X.catalogue()
    inv = {v: k for k, v in ZMAP.items()}
    out = []
    for hist in hists:
        view, lexc = X.run_history_gateway(_CAT, list(ZMAP.values()), [(e[0], ZMAP[e[1]], e[2], e[3]) for e in hist])
        out.append(([[inv[z], x] for z, x in view], lexc))
    return out


def gateway_conformance(chk: Check, pool, label: str, hists: list, stub_obs: list, n: int, stats: dict) -> None:
    """A sample of the histories as a packet log replayed by a whole real Gateway (real dispatcher, Evohome,
    Zone/DhwZone): the final public views must equal the ones of the hand-dispatched Schedule objects;
    they are judged by TLC like the others (last step of the run replaced by the Gateway's view)."""
    logs = [i for i, hsty in enumerate(hists) if all(e[0] == "frag" for e in hsty)]  # a packet log cannot fetch
    pick = [logs[j] for j in range(0, len(logs), max(1, len(logs) // max(1, n)))][:n]
    sample = [hists[i] for i in pick]
    if not sample:
        return
    size = max(1, len(sample) // (WORKERS * 4))
    res = []
    for part in pool.map(_gateway_many, [sample[i:i + size] for i in range(0, len(sample), size)]):
        res.extend(part)
    diff, runs = 0, []
    for (view, lexc), i in zip(res, pick):
        if view != stub_obs[i][-1]["view"]:
            diff += 1
            if diff <= 3:
                chk.model_drift(f"{label}: whole-Gateway replay shows {view}, hand-dispatched Schedule objects {stub_obs[i][-1]['view']} after {list(hists[i])}")
        if lexc:
            stats["gateway_loop_exceptions"] += 1
            if stats["gateway_loop_exceptions"] <= 3:
                chk.note(f"{label}: event-loop exception during a Gateway replay of {list(hists[i])}: {lexc[:2]}")
        run = [dict(o) for o in stub_obs[i]]
        run[-1]["view"] = view
        runs.append(run)
    stats["drift_items"] += diff
    g = stats["gateway"].setdefault(label, {"histories": 0, "differ_from_stub": 0})
    g["histories"] += len(sample)
    g["differ_from_stub"] += diff
    judge_reasm(chk, label + ":gateway", sample, runs, stats)


def slim(obs: list[dict]) -> dict:
    return {"ev": [{k: o[k] for k in FIELDS} for o in obs]}


ROOT = {"k": "init", "z": "-", "v": "-", "n": 0, "del": [], "exc": "", "view": [["HW", "none"], ["Z1", "none"]]}


def IDENT(step: dict) -> tuple:
    return (step["k"], step["z"], step["v"], step["n"])


def reasm_key(obs: list[dict], line: int, clause: str) -> str:
    o = obs[line - 1]
    if clause == "Raises":
        if o["k"] == "fetch":  # class: the exception; the size of the schedule being fetched
            return f"C17d-Raises:get_schedule:{o['exc']}:{'one' if NF_MODEL.get(o['v'], 0) == 1 else 'multi'}-fragment-schedule"
        return f"C17d-Raises:{o['exc']}"
    bad = [f"{z}={x if x in ('other',) or x.startswith('raises') else 'foreign-or-unreceived-version'}"
           for z, x in o["view"] if x not in ("none",)]
    # class: what the zone showed; which kind of packet triggered it
    trig = "one-fragment" if NF_MODEL.get(o["v"], 0) == 1 else "multi-fragment"
    return f"C17d-SameOrNone:{'+'.join(sorted(set(b.split('=')[1] for b in bad)))}:after-{trig}-packet"


def judge_reasm(chk: Check, label: str, hists: list, all_obs: list, stats: dict) -> None:
    from harness import ext_c17 as X
    r = X.validate_forest("SchedFragsTrace", [slim(o)["ev"] for o in all_obs], IDENT, ROOT, procs=WORKERS)
    stats["trace_states"] += r["nodes"]
    stats["traces"] += r["n"]
    for idx, pairs in r["rejects"]:
        line, clause = pairs[0]
        if clause == "harness":
            raise tlc.MachineryFailure(f"{label}: event outside the catalogue at line {line} of {hists[idx]}")
        key = reasm_key(all_obs[idx], line, clause)
        stats["rejects"][key] += 1
        chk.violation(key, f"clause {clause} fails at step {line} ({hists[idx][line - 1]}) of a real Schedule history; "
                           f"views={all_obs[idx][line - 1]['view']} exc={all_obs[idx][line - 1]['exc']!r}",
                      {"kind": "reasm", "events": [list(e) for e in hists[idx][:line]], "line": line, "clause": clause,
                       "key": key, "source": label})


def graph_conformance(chk: Check, pool, cfg: str, stats: dict, tmp: str, tlc_workers: int, gateway: bool = True) -> None:
    dump = os.path.join(tmp, cfg.replace(".cfg", ""))
    r = tlc.run_tlc("MC_SchedFrags", cfg, workers=tlc_workers, dump=dump, timeout=1500)
    stats["mc"][cfg] = {"generated": r.states, "distinct_transitions": r.distinct, "depth": r.depth,
                        "violated": r.violated, "wall_s": round(r.wall_s, 1)}
    if r.errors or not r.completed and not r.violated:
        raise tlc.MachineryFailure(f"TLC {cfg}: {r.errors[:3]}\n{r.out[-1500:]}")
    if r.violated:
        chk.note(f"{cfg}: the model violates {r.violated}: candidates, replayed on the code below")
    if r.distinct > 250_000:
        raise tlc.MachineryFailure(f"{cfg}: {r.distinct} transitions are too many for dump-based conformance (memory cap)")
    t0 = time.time()
    sts = read_dump_parallel(dump + ".dump", pool)
    os.unlink(dump + ".dump")
    nodes: dict[tuple, dict] = {}
    edges = []
    init = None
    for s in sts:
        k = skey(s)
        nodes.setdefault(k, s)
        if s["h"]["ev"][0] == "init":
            init = k
        else:
            edges.append((skey(s["h"]["pre"]), EV(s), k))
    if init is None:
        raise tlc.MachineryFailure(f"{cfg}: no initial state in the dump")
    adj = collections.defaultdict(list)
    for u, ev, v in edges:
        adj[u].append((ev, v))
    path, pstates = {init: ()}, {init: ()}
    q = collections.deque([init])
    while q:
        u = q.popleft()
        for ev, v in adj[u]:
            if v not in path:
                path[v] = path[u] + (ev,)
                pstates[v] = pstates[u] + (v,)
                q.append(v)
    del sts
    proj = {k: expected(s) for k, s in nodes.items()}  # one shared projection per model state
    n_nodes = len(nodes)
    del nodes
    hists, jobs, seen = [], [], set()
    for u, ev, v in edges:
        hist = path[u] + (ev,)
        if hist in seen:
            continue
        seen.add(hist)
        hists.append(hist)
        jobs.append((hist, [proj[k] for k in pstates[u] + (v,)]))
    prefixes = set()
    for hsty in hists:
        for n in range(1, len(hsty)):
            prefixes.add(hsty[:n])
    keep = [i for i, hsty in enumerate(hists) if hsty not in prefixes]
    hists, jobs = [hists[i] for i in keep], [jobs[i] for i in keep]
    t1 = time.time()
    res = run_real(pool, jobs)
    del jobs, proj, pstates, path, seen, prefixes
    stats["graph"][cfg] = {"model_states": n_nodes, "model_transitions": len(edges), "histories_run": len(hists),
                           "real_steps": sum(len(x) for x in hists), "parse_s": round(t1 - t0, 1),
                           "replay_s": round(time.time() - t1, 1)}
    stats["states"] += n_nodes
    stats["transitions"] += len(edges)
    nd = 0
    for (obs, drift), hsty in zip(res, hists):
        if drift:
            nd += 1
            if nd <= 3:
                chk.model_drift(f"{cfg}: {drift} after {list(hsty)}")
    stats["drift_items"] += nd
    all_obs = [o for o, _ in res]
    judge_reasm(chk, cfg, hists, all_obs, stats)
    if gateway:
        gateway_conformance(chk, pool, cfg, hists, all_obs, stats["gateway_n"], stats)
    if hists:
        i = len(hists) // 2
        stats["samples"].append({"source": cfg, "events": [list(e) for e in hists[i]], "views": all_obs[i][-1]["view"]})


def sim_conformance(chk: Check, pool, cfg: str, num: int, length: int, stats: dict, tmp: str) -> None:
    d = os.path.join(tmp, "sim")
    os.makedirs(d)
    r = tlc.run_tlc("MC_SchedFrags", cfg, simulate=f"file={d}/tr,num={num}", depth=length, seed=chk.seed + 1,
                    workers=1, timeout=900)
    if r.errors:
        raise tlc.MachineryFailure(f"TLC -simulate {cfg}: {r.errors[:3]}\n{r.out[-1500:]}")
    behs = tlc.read_sim_traces(f"{d}/tr")
    shutil.rmtree(d)
    hists, jobs, seen = [], [], set()
    for beh in behs:
        sts = [s for _, s in beh if "h" in s and s["h"]["ev"][0] != "init"]
        hist = tuple(EV(s) for s in sts)
        if not hist or hist in seen:
            continue
        seen.add(hist)
        hists.append(hist)
        jobs.append((hist, [expected(s) for s in sts]))
    res = run_real(pool, jobs)
    nd = 0
    for (obs, drift), hsty in zip(res, hists):
        if drift:
            nd += 1
            if nd <= 3:
                chk.model_drift(f"simulate {cfg}: {drift} after {list(hsty)[:10]}...")
    stats["drift_items"] += nd
    stats["sim"][cfg] = {"behaviours": len(hists), "real_steps": sum(len(x) for x in hists)}
    judge_reasm(chk, "simulate:" + cfg, hists, [o for o, _ in res], stats)


# --------------------------------------------------------------------------------------
# codec half: systematic + seeded random schedules


def times_cycle(start: int, n: int) -> list[str]:
    """n strictly increasing 5-minute times of day, starting at slot `start` (0..287), spread out."""
    slots = sorted({(start + i * (288 // max(n, 1))) % 288 for i in range(n)})
    while len(slots) < n:  # collisions cannot happen for n <= 288, keep it total anyway
        slots.append((slots[-1] + 1) % 288)
        slots = sorted(set(slots))
    return [f"{(s * 5) // 60:02d}:{(s * 5) % 60:02d}" for s in slots]


def gen_codec_inputs(tier: str, rng: random.Random) -> list[tuple[str, dict]]:
    from harness import ext_c17 as X
    out: list[tuple[str, dict]] = []
    zones = [f"{i:02X}" for i in range(12)]
    # (1) the whole set-point grid 5.00..35.00 step 0.01, six switch-points a day, all 288 times cycled
    grid = list(range(500, 3501))
    per = 42
    slot = 0
    for base in range(0, len(grid), per):
        vals = grid[base:base + per]
        vals = vals + [grid[-1]] * (per - len(vals))
        days = []
        for d in range(7):
            ts = times_cycle(slot, 6)
            slot = (slot + 7) % 288
            days.append([(t, vals[d * 6 + i] / 100) for i, t in enumerate(ts)])
        out.append(("zon", X.zon_sched(zones[(base // per) % 12], days)))
    # (2) every time of day at least once with 1..6 switch-points a day; half-degree set-points
    for n in range(1, 7):
        for start in range(0, 288, 1 if tier == "thorough" else 12):
            days = [[(t, 5.0 + ((start + d + i) % 61) * 0.5) for i, t in enumerate(times_cycle((start + d) % 288, n))]
                    for d in range(7)]
            out.append(("zon", X.zon_sched(zones[(start + n) % 12], days)))
    # (3) hot water, 1..6 switch-points a day, all on/off patterns of the day cycled
    for n in range(1, 7):
        for start in range(0, 288, 1 if tier == "thorough" else 16):
            days = [[(t, bool((start + d + i) % 2)) for i, t in enumerate(times_cycle((start + 3 * d) % 288, n))]
                    for d in range(7)]
            out.append(("dhw", X.dhw_sched(days)))
    # (4) boundaries: integer set-points (the validator coerces), extremes, ragged days
    out.append(("zon", X.zon_sched("00", [[("00:00", 5), ("23:55", 35)]])))
    out.append(("zon", X.zon_sched("0B", [[("00:00", 5.0)], [("00:05", 35.0), ("12:00", 20.01), ("23:55", 19.99)]])))
    # (4b) the small end of the size dimension: the same single switch-point on every day of the week - what compresses
    #      best (hot water: 30-37 bytes = ONE fragment; a zone: 39-41 bytes = one, or two); every time of day (thorough) /
    #      every hour
    for start in range(0, 288, 1 if tier == "thorough" else 12):
        t = times_cycle(start, 1)
        out.append(("dhw", X.dhw_sched([[(t[0], bool(start % 2))]])))
        out.append(("zon", X.zon_sched(zones[start % 12], [[(t[0], 5.0 + (start % 61) * 0.5)]])))
    # (5) seeded random: ragged days, any grid set-point, any times
    for _ in range(300 if tier == "quick" else 12000):
        if rng.random() < 0.8:
            days = []
            for d in range(7):
                n = rng.randint(1, 6)
                sl = sorted(rng.sample(range(288), n))
                days.append([(f"{(s * 5) // 60:02d}:{(s * 5) % 60:02d}",
                              rng.randint(500, 3500) / 100 if rng.random() < 0.7 else rng.randint(10, 70) / 2)
                             for s in sl])
            out.append(("zon", X.zon_sched(rng.choice(zones), days)))
        else:
            days = []
            for d in range(7):
                n = rng.randint(1, 6)
                sl = sorted(rng.sample(range(288), n))
                days.append([(f"{(s * 5) // 60:02d}:{(s * 5) % 60:02d}", rng.random() < 0.5) for s in sl])
            out.append(("dhw", X.dhw_sched(days)))
    return out


def _codec_many(jobs):
    logging.disable(logging.CRITICAL)
    from harness import ext_c17 as X
    return [X.codec_row(full, kind) for kind, full in jobs]


def codec_keys(row: dict, clause: str) -> list[str]:
    """Canonical classes of what differs (every class present in the row gets its own key)."""
    if clause == "FitsFrame":
        return ["C17b-FitsFrame:fragment-longer-than-41-bytes" if any(x > 41 for x in row["lens"]) else "C17b-FitsFrame:empty-fragment"]
    if clause == "WriteAccepted":
        ks = set()
        for c in row["cmds"]:
            if not c["ok"]:
                ks.add(f"C17c-WriteAccepted:decoder-rejects:{c['exc']}")
            elif not c["feq"] or c["plen"] > 48:
                ks.add("C17c-WriteAccepted:fragment-altered")
            elif c["k"] == 0 or c["n"] != len(row["lens"]):
                ks.add("C17c-WriteAccepted:numbering-altered")
        return sorted(ks) or ["C17c-WriteAccepted:count"]
    if row["exc"]:
        return [f"C17a-Identity:{row['exc']}"]
    ks = set()
    if row["zout"] != row["zone"]:
        ks.add("C17a-Identity:zone-idx")
    if len(row["out"]) != len(row["inp"]):
        ks.add("C17a-Identity:number-of-switchpoints")
    for a, b in zip(row["inp"], row["out"]):
        if a[0] != b[0]:
            ks.add("C17a-Identity:day")
        if a[1] != b[1]:
            ks.add("C17a-Identity:time-of-day")
        if a[2] != b[2]:
            kind = "on-off" if row["kind"] == "dhw" else (
                "setpoint-one-lsb-low" if b[2] == a[2] - 1 else "setpoint-off-grid" if b[2] == -1 else "setpoint-other")
            ks.add(f"C17a-Identity:{kind}")
    return sorted(ks) or ["C17a-Identity:other"]


def codec_half(chk: Check, pool, tier: str, stats: dict) -> None:
    rng = random.Random(chk.seed * 104729 + 17)
    inputs = gen_codec_inputs(tier, rng)
    n = max(1, len(inputs) // (WORKERS * 8))
    rows: list[dict] = []
    for part in pool.map(_codec_many, [inputs[i:i + n] for i in range(0, len(inputs), n)]):
        rows.extend(part)
    from harness import ext_c17 as X
    r = X.validate_parallel("SchedCodecTrace", rows, procs=WORKERS)
    stats["codec"] = {"rows": len(rows), "rejected_rows": len(r["rejects"]),
                      "setpoints_covered": len({p[2] for row in rows if row["kind"] == "zon" for p in row["inp"]}),
                      "times_covered": len({p[1] for row in rows for p in row["inp"]}),
                      "zones_covered": sorted({row["zone"] + ("/dhw" if row["kind"] == "dhw" else "") for row in rows}),
                      "max_fragments": max((len(row["lens"]) for row in rows), default=0),
                      "min_fragments": min((len(row["lens"]) for row in rows if row["lens"]), default=0),
                      "one_fragment_schedules": sum(1 for row in rows if len(row["lens"]) == 1),
                      "max_fragment_bytes": max((max(row["lens"]) for row in rows if row["lens"]), default=0)}
    stats["trace_states"] += r["states"]
    for idx, fail in r["rejects"]:
        clauses = [fail[1]] + (fail[2].split(",") if len(fail) > 2 and fail[2] else [])
        for clause in clauses:
            if clause == "harness":
                raise tlc.MachineryFailure(f"codec: generated schedule outside the statement's domain / refused by the validator: {inputs[idx]} {rows[idx]['exc']}")
            for key in codec_keys(rows[idx], clause):
                stats["rejects"][key] += 1
                bad = [(a, b) for a, b in zip(rows[idx]["inp"], rows[idx]["out"]) if a != b][:3]
                chk.violation(key, f"codec clause {clause} fails for a validator-accepted {rows[idx]['kind']} schedule "
                                   f"(zone {rows[idx]['zone']}); first differences in/out: {bad} exc={rows[idx]['exc']!r}",
                              {"kind": "codec", "sched_kind": inputs[idx][0], "schedule": inputs[idx][1], "clause": clause, "key": key})
    if rows:
        stats["samples"].append({"source": "codec", "row": {k: rows[0][k] for k in ("kind", "zone", "lens", "exc")},
                                 "switchpoints": len(rows[0]["inp"])})


# --------------------------------------------------------------------------------------
def do_replay(path: str) -> None:
    logging.disable(logging.CRITICAL)
    from harness import ext_c17 as X
    data = json.load(open(path))
    rp = data.get("replay", data)
    if rp["kind"] == "codec":
        row = X.codec_row(rp["schedule"], rp["sched_kind"])
        diffs = [(a, b) for a, b in zip(row["inp"], row["out"]) if a != b]
        print(f"codec replay: {len(row['inp'])} switch-points in, {len(row['out'])} out, zone {row['zone']}->{row['zout']}, "
              f"fragment bytes {row['lens']}, exc={row['exc']!r}")
        print(f"  differing switch-points <day, minute, value> in/out: {diffs[:8]}")
        print(f"  write commands: {row['cmds']}")
        r = tlc.validate_batch("SchedCodecTrace", [row], workers=1)
        if not r["rejects"]:
            print("TLC (SchedCodecTrace): every clause holds on this row -> not reproduced")
            raise SystemExit(0)
        fail = r["rejects"][0][1]
        for clause in [fail[1]] + (fail[2].split(",") if len(fail) > 2 and fail[2] else []):
            print(f"TLC (SchedCodecTrace): clause {clause} fails; keys = {codec_keys(row, clause)}")
        raise SystemExit(1)
    events = [tuple(e) for e in rp["events"]]
    inv = {v: k for k, v in ZMAP.items()}
    full_obs = X.run_history(X.catalogue(), list(ZMAP.values()), [(e[0], ZMAP[e[1]], e[2], e[3]) for e in events])
    for n, (e, o) in enumerate(zip(events, full_obs), 1):
        print(f"  {n:2d} {e!s:28s} views={o['view']} payload sets: shared={o['shared']} own={o['own']} exc={o['exc']!r}")
    (obs, _), = _run_many([(events, None)])
    from harness import ext_c17 as X
    r = X.validate_forest("SchedFragsTrace", [slim(obs)["ev"]], IDENT, ROOT, procs=1)
    if not r["rejects"]:
        print("TLC (SchedFragsTrace): clause d holds on this execution -> not reproduced")
        raise SystemExit(0)
    line, clause = r["rejects"][0][1][0]
    print(f"TLC (SchedFragsTrace): clause {clause} fails at step {line}; key = {reasm_key(obs, line, clause)}")
    raise SystemExit(1)


def main(tier: str, replay: str | None) -> None:
    if replay:
        return do_replay(replay)
    logging.disable(logging.CRITICAL)
    chk = Check(PID, tier, "model_checking")
    stats = {"gateway": {}, "gateway_loop_exceptions": 0, "gateway_n": 200 if tier == "quick" else 2000,
             "mc": {}, "graph": {}, "sim": {}, "codec": {}, "states": 0, "transitions": 0, "traces": 0,
             "trace_states": 0, "drift_items": 0, "rejects": collections.Counter(), "samples": []}
    from harness import ext_c17 as X
    tmp = tempfile.mkdtemp(prefix="c17_")
    try:
        with mp.get_context("fork").Pool(WORKERS) as pool:
            codec_half(chk, pool, tier, stats)
            try:
                cat = X.catalogue()
            except Exception as err:  # noqa: BLE001
                # the catalogue's packets are made with the library's own encoder and command builder: if they
                # refuse, that is the code's doing and the codec half has judged it; without any codec verdict
                # it is a harness problem
                if not chk.violations:
                    raise
                chk.note(f"reassembly half skipped: the packet catalogue could not be built ({X.exc_name(err)}: {err})")
                cat = None
            if cat is not None:
                real_nf = {v: len(c["frames"]) for v, c in cat.items()}
                if real_nf != NF_MODEL:
                    if not chk.violations:
                        raise tlc.MachineryFailure(f"catalogue fragment counts {real_nf} differ from MC_SchedFrags NFc {NF_MODEL}")
                    chk.note(f"reassembly half skipped: catalogue fragment counts {real_nf} differ from the model's {NF_MODEL}")
                    cat = None
            if cat is not None and tier == "quick":
                graph_conformance(chk, pool, "MC_SchedFrags.cfg", stats, tmp, 4)
                graph_conformance(chk, pool, "MC_SchedFrags_f.cfg", stats, tmp, 4, gateway=False)
                sim_conformance(chk, pool, "MC_SchedFrags_sim.cfg", 100, 40, stats, tmp)
            elif cat is not None:
                graph_conformance(chk, pool, "MC_SchedFrags.cfg", stats, tmp, 4)
                graph_conformance(chk, pool, "MC_SchedFrags_t.cfg", stats, tmp, 4)
                graph_conformance(chk, pool, "MC_SchedFrags_f.cfg", stats, tmp, 4, gateway=False)
                graph_conformance(chk, pool, "MC_SchedFrags_ft.cfg", stats, tmp, 4, gateway=False)
                sim_conformance(chk, pool, "MC_SchedFrags_sim.cfg", 2000, 60, stats, tmp)
                for big in ("MC_SchedFrags_big.cfg", "MC_SchedFrags_fbig.cfg"):  # TLC only (too large to replay edge by edge)
                    rb = tlc.run_tlc("MC_SchedFrags", big, workers=4, timeout=1500, java_opts=["-Xmx3g"])
                    stats["mc"][big] = {"generated": rb.states, "distinct_transitions": rb.distinct,
                                        "depth": rb.depth, "violated": rb.violated, "wall_s": round(rb.wall_s, 1)}
                    if rb.errors or not rb.completed and not rb.violated:
                        raise tlc.MachineryFailure(f"TLC {big}: {rb.errors[:3]}\n{rb.out[-1500:]}")
                    if rb.violated:
                        chk.note(f"{big}: the model violates {rb.violated} (model-level candidate only; TLC-only instance)")
    finally:
        shutil.rmtree(tmp, ignore_errors=True)
    print(f"C17 {tier}: TLC instances: " + "; ".join(
        f"{c}: {v['distinct_transitions']} distinct ({v['generated']} generated) {'violated=' + str(v['violated']) if v['violated'] else 'ok'}"
        for c, v in stats["mc"].items()))
    print(f"C17 {tier}: model transitions replayed on real Schedule objects: {stats['transitions']} (drift on "
          f"{stats['drift_items']} histories); histories judged by TLC: {stats['traces']}; codec rows judged by TLC: "
          f"{stats['codec'].get('rows', 0)}; clause trips by key: {dict(stats['rejects'])}")
    chk.finish(
        coverage={
            "states": stats["states"],
            "transitions": stats["transitions"],
            "traces_validated_against_impl": stats["traces"] + stats["codec"].get("rows", 0),
            "trace_validation_states": stats["trace_states"],
            "tlc_instances": stats["mc"],
            "graph_conformance": stats["graph"],
            "whole_gateway_replays": stats["gateway"],
            "whole_gateway_loop_exceptions": stats["gateway_loop_exceptions"],
            "simulation": stats["sim"],
            "codec_table": stats["codec"],
            "clause_trips_on_real_code_by_key": dict(stats["rejects"]),
            "samples": stats["samples"],
        },
        assumptions=[
            "a payload set decompresses only if it holds all fragments of one version in place (zlib checksum) - tested on the real packets, not proved",
            "0404 packets are dispatched by the harness to the Schedule of the zone they name; a sample of the histories is replayed as a packet log by a whole real Gateway and must show the same final schedules",
            "EMPTY_PAYLOAD_SET (module-level, mutated by the code under test) is reset by the harness before every history",
            "fetch: the controller answers every RQ|0404 for a fragment it has with that fragment (total = its set's size) and RQ|0006 with a counter that has gone up since the zone's last fetch; a request for a fragment beyond its set goes unanswered (the send fails); nobody else holds the schedule lock, nothing is overheard during the call (C18)",
            "the 'no schedule' reply (RP 0404 007 ..01FF) cannot be delivered: the repository's payload regex rejects it",
            "codec: N <= 6 switch-points a day; set-point grid complete; 288 times complete; other dimensions systematic/seeded samples",
        ],
    )


if __name__ == "__main__":
    main_wrapper(PID, main)

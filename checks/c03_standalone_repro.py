#!/usr/bin/env python3
"""Stand-alone reproduction of the C03 findings: only the library (ramses_tx), no model, no harness.

Each entry is (finding key, the literal constructor call).  The key says which clause fails:
  C03a  the command's verb|code is not the one the constructor is registered under in CODE_API_MAP
  C03b  the library's own decoder (Message._from_cmd) rejects the frame the constructor built
  C03c  the decoded payload does not carry the value passed in (last field of the key = payload key)
  C03d  a call inside the documented domain is refused
Run:  PYTHONPATH=/repo/src python c03_standalone_repro.py [key]     exit 1 = at least one still reproduces
"""
import logging
import sys
from datetime import datetime as dt

logging.disable(logging.CRITICAL)

from ramses_tx.command import CODE_API_MAP, Command  # noqa: E402
from ramses_tx.message import Message  # noqa: E402

FINDINGS = [
    ('C03b:get_dhw_mode:dhw_idx=ood',
     "Command.get_dhw_mode('01:145038', dhw_idx=2)"),
    ('C03b:get_dhw_params:dhw_idx=ood',
     "Command.get_dhw_params('01:145038', dhw_idx=2)"),
    ('C03b:get_dhw_temp:dhw_idx=ood',
     "Command.get_dhw_temp('01:145038', dhw_idx=2)"),
    ('C03b:get_mix_valve_params:default',
     "Command.get_mix_valve_params('01:145038', zone_idx='00')"),
    ('C03b:get_opentherm_data:msg_id=unknown-id',
     "Command.get_opentherm_data('10:048122', msg_id=4)"),
    ('C03b:get_relay_demand:zone_idx=zone',
     "Command.get_relay_demand('01:145038', zone_idx='FA')"),
    ('C03b:get_schedule_fragment:ood*2',
     "Command.get_schedule_fragment('01:145038', zone_idx='00', frag_number=256, total_frags=256)"),
    ('C03b:get_system_log_entry:log_idx=ood',
     "Command.get_system_log_entry('01:145038', log_idx=64)"),
    ('C03b:get_tpi_params:domain_id=ood',
     "Command.get_tpi_params('01:145038', domain_id='F9')"),
    ('C03b:get_zone_config:zone_idx=ood',
     "Command.get_zone_config('01:145038', zone_idx='FA')"),
    ('C03b:get_zone_mode:zone_idx=ood',
     "Command.get_zone_mode('01:145038', zone_idx='FA')"),
    ('C03b:get_zone_name:zone_idx=ood',
     "Command.get_zone_name('01:145038', zone_idx='FA')"),
    ('C03b:get_zone_setpoint:zone_idx=ood',
     "Command.get_zone_setpoint('01:145038', zone_idx='FA')"),
    ('C03b:get_zone_temp:zone_idx=ood',
     "Command.get_zone_temp('01:145038', zone_idx='FA')"),
    ('C03b:get_zone_window_state:zone_idx=ood',
     "Command.get_zone_window_state('01:145038', zone_idx='FA')"),
    ('C03b:put_actuator_cycle:cycle_countdown=ood',
     "Command.put_actuator_cycle('13:049798', '18:006402', modulation_level=1.0, actuator_countdown=10, cycle_countdown=7200)"),
    ('C03b:put_actuator_cycle:modulation_level=ood',
     "Command.put_actuator_cycle('13:049798', '18:006402', modulation_level=0.5, actuator_countdown=10)"),
    ('C03b:put_actuator_state:modulation_level=mnone',
     "Command.put_actuator_state('13:049798', modulation_level=None)"),
    ('C03b:put_actuator_state:modulation_level=ood',
     "Command.put_actuator_state('13:049798', modulation_level=0.29)"),
    ('C03b:put_bind:dstrel=rother,codes=nocodes,idx=i01',
     "Command.put_bind(' I', '34:021943', None, '01:145038', idx='01')"),
    ('C03b:put_presence_detected:default',
     "Command.put_presence_detected('37:039266', presence_detected=False)"),
    ('C03b:set_dhw_mode:dhw_idx=ood',
     "Command.set_dhw_mode('01:145038', dhw_idx=2, mode=None, active=True, until=None, duration=None)"),
    ('C03b:set_dhw_mode:duration=secs',
     "Command.set_dhw_mode('01:145038', mode=None, active=True, until=None, duration=60)"),
    ('C03b:set_dhw_mode:mode=countdown,duration=ood',
     "Command.set_dhw_mode('01:145038', mode='countdown_override', active=True, until=None, duration=0)"),
    ('C03b:set_dhw_mode:mode=temporary',
     "Command.set_dhw_mode('01:145038', mode='temporary_override', active=True, until=None, duration=None)"),
    ('C03b:set_dhw_params:dhw_idx=ood',
     "Command.set_dhw_params('01:145038', dhw_idx=2)"),
    ('C03b:set_fan_mode:idx=ood',
     "Command.set_fan_mode('32:155617', fan_mode=2, idx='01', src_id='37:155617')"),
    ('C03b:set_mix_valve_params:zone_idx=ood',
     "Command.set_mix_valve_params('01:145038', zone_idx='FA')"),
    ('C03b:set_schedule_fragment:fragment=ood',
     "Command.set_schedule_fragment('01:145038', zone_idx='00', frag_num=1, frag_cnt=3, fragment='')"),
    ('C03b:set_schedule_fragment:ood*2',
     "Command.set_schedule_fragment('01:145038', zone_idx='00', frag_num=256, frag_cnt=256, fragment='AABB')"),
    ('C03b:set_tpi_params:domain_id=ood',
     "Command.set_tpi_params('01:145038', domain_id='F9')"),
    ('C03b:set_tpi_params:min_on_time=ood',
     "Command.set_tpi_params('01:145038', domain_id='FC', min_on_time=2.5)"),
    ('C03b:set_tpi_params:ood*2',
     "Command.set_tpi_params('01:145038', domain_id='FC', cycle_rate=64, min_on_time=64)"),
    ('C03b:set_zone_config:zone_idx=ood',
     "Command.set_zone_config('01:145038', zone_idx='FA')"),
    ('C03b:set_zone_mode:zone_idx=ood',
     "Command.set_zone_mode('01:145038', zone_idx='FA', mode=None, setpoint=21.5, until=None, duration=None)"),
    ('C03b:set_zone_name:zone_idx=ood',
     "Command.set_zone_name('01:145038', zone_idx='FA', name='Kitchen')"),
    ('C03b:set_zone_setpoint:zone_idx=ood',
     "Command.set_zone_setpoint('01:145038', zone_idx='FA', setpoint=21.5)"),
    ('C03c:put_actuator_cycle:actuator_countdown=ood:actuator_countdown',
     "Command.put_actuator_cycle('13:049798', '18:006402', modulation_level=1.0, actuator_countdown=40000)"),
    ('C03c:set_bypass_position:bypass_position=frac:bypass_position',
     "Command.set_bypass_position('32:155617', bypass_position=1.01, src_id='37:155617')"),
    ('C03c:set_fan_mode:fan_mode=name,src=src0,seqn=seqn:fan_mode',
     "Command.set_fan_mode('32:155617', fan_mode='high', seqn=256)"),
    ('C03c:set_fan_param:value=ood:value',
     "Command.set_fan_param('32:155617', param_id='3F', value=2147483647, src_id='37:155617')"),
    ('C03c:set_system_time:datetime=ood:is_dst',
     "Command.set_system_time('01:145038', datetime=None)"),
    ('C03c:set_zone_name:name=ood:name',
     "Command.set_zone_name('01:145038', zone_idx='00', name='Master Bedroom Suite2')"),
    ('C03d:set_bypass_position:src=src0',
     "Command.set_bypass_position('32:155617')"),
    ('C03d:set_fan_mode:src=src0',
     "Command.set_fan_mode('32:155617', fan_mode=2)"),
]


def run(key: str, call: str) -> bool:
    """True if the finding reproduces."""
    clause = key[3]
    print(f"{key}\n    {call}")
    try:
        cmd = eval(call, {"Command": Command, "dt": dt})  # noqa: S307
    except Exception as err:  # noqa: BLE001
        print(f"    -> raises {type(err).__name__}: {err}")
        return clause == "d"
    print(f"    -> {cmd}")
    ctor = call.split("(")[0].split(".")[1]
    registered = [k for k, v in CODE_API_MAP.items() if v.__name__ == ctor]
    if clause == "a":
        ok = f"{cmd.verb}|{cmd.code}" in registered
        print(f"    verb|code = {cmd.verb}|{cmd.code}, registered under {registered}")
        return not ok
    try:
        msg = Message._from_cmd(cmd)
    except Exception as err:  # noqa: BLE001
        print(f"    decoder REJECTS: {type(err).__name__}: {err}")
        return clause == "b"
    print(f"    decoded: {msg.payload}")
    if clause == "c":
        want = key.rsplit(":", 1)[1]
        print(f"    compare the argument(s) above with the decoded {want!r} (absent or different)")
        return True  # shown for inspection: the check (TLC) does the comparison
    return False


if __name__ == "__main__":
    sel = sys.argv[1] if len(sys.argv) > 1 else None
    n = sum(run(k, c) for k, c in FINDINGS if sel in (None, k))
    print(f"{n} finding(s) reproduce")
    sys.exit(1 if n else 0)

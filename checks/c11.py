"""C11 - transmit regulation holds for every send pattern (duty cycle, write spacing, MQTT tokens).

  1. TLC model-checks spec/TxRegulator.tla (the duty-cycle wrapper as its real non-atomic steps, the
     leaky semaphore, concurrent writers, integer time, the *real* constants) and spec/TxMqtt.tla:
     shadow-bucket bound, spacing, no-dup, bounded termination.  The "in order" clause is checked in
     its own instance: its counter-example is a *candidate* that is replayed on the real transport.
     The proposed repair (Serialised = TRUE) is model-checked too.
  2. Behaviours are taken out of TLC (the counter-example, `-simulate` runs) and executed as they are
     on the real PortTransport (FakeSerial, virtual time.perf_counter); designed arrival patterns
     (bursts, steady above/below the limit, idle gaps, concurrent closed-loop callers, hours of air
     time, all frame lengths) run on PortTransport and on MqttTransport (fake paho client).
  3. TLC (spec/TxTrace.tla) judges every recorded execution against clauses a-d of DESIGN App. A,
     recomputing the shadow bucket itself; in drift mode it compares the code's own bucket and the
     write times with the model (never a verdict).
"""
from __future__ import annotations

import json
import os
import random
import shutil
import tempfile
import time
from concurrent.futures import ThreadPoolExecutor

from harness import ext_c11 as X
from harness import tlc
from harness.report import Check, main_wrapper

PID = "C11"
KNOWN_ORDER_CLASSES = ("d:order:shorter_overtakes", "d:order:equal_overtakes")


def _workers(tier: str) -> int:
    return int(os.environ.get("VERIF_TLC_WORKERS_N", "8" if tier == "thorough" else "4"))


# ----------------------------------------------------------------------------------------------
# 1. model checking

def model_check(tier: str, workers: int, stats: dict) -> dict:
    """Returns the counter-example to InOrder as a scenario (or None)."""
    deep = tier == "thorough"
    jobs = [
        ("MC_TxRegulator", "MC_TxRegulator_w3.cfg" if deep else "MC_TxRegulator.cfg", "hold"),
        ("MC_TxRegulator", "MC_TxRegulator_order.cfg", "order"),
        ("MC_TxRegulator", "MC_TxRegulator_fixed_w3.cfg" if deep else "MC_TxRegulator_fixed.cfg", "hold"),
        ("MC_TxMqtt", "MC_TxMqtt_deep.cfg" if deep else "MC_TxMqtt.cfg", "hold"),
    ]
    per = max(1, workers // 2)

    def run(job):
        return tlc.run_tlc(job[0], job[1], workers=per, timeout=1500)

    with ThreadPoolExecutor(2 if not deep else 2) as ex:
        results = list(ex.map(run, jobs))
    cex = None
    stats["mc"] = []
    for (mod, cfg, kind), r in zip(jobs, results):
        invs = [ln.split()[1] for ln in open(tlc.SPEC / cfg) if ln.startswith("INVARIANT")]
        rec = {"module": mod, "cfg": cfg, "distinct_states": r.distinct, "generated": r.states, "depth": r.depth,
               "invariants": invs, "violated": r.violated, "wall_s": round(r.wall_s, 1)}
        stats["mc"].append(rec)
        if r.errors:
            raise tlc.MachineryFailure(f"{cfg}: {r.errors[:2]}\n{r.out[-1500:]}")
        if kind == "hold":
            if not r.ok:
                # a model invariant failed: a candidate only - but these instances are expected to hold,
                # so this is a change of the *model*; surface it loudly rather than guess
                raise tlc.MachineryFailure(f"{cfg}: model invariant(s) {r.violated} failed\n{r.out[-2500:]}")
            print(f"TLC {cfg}: {r.distinct} distinct states, {len(invs)} invariants hold ({r.wall_s:.1f}s)")
        else:
            if r.violated == ["InOrder"] and r.error_trace:
                first, lastst = r.error_trace[0][1], r.error_trace[-1][1]
                calls = [[c[0], size_to_bytes(c[1])] for c in lastst["h"]]
                cex = {"kind": "serial", "name": "tlc-counterexample:InOrder", "init": first["bucket"], "calls": calls,
                       "model_writes": [[w["id"], w["t"]] for w in lastst["written"]]}
                rec["counterexample"] = {"init_bucket": first["bucket"], "calls": lastst["h"],
                                         "model_writes": cex["model_writes"]}
                print(f"TLC {cfg}: InOrder has a counter-example (candidate, replayed on the code below): "
                      f"bucket={first['bucket']} calls={list(lastst['h'])} -> writes {cex['model_writes']}")
            elif r.ok:
                print(f"TLC {cfg}: InOrder holds on the model of the current code")
            else:
                raise tlc.MachineryFailure(f"{cfg}: unexpected {r.violated}\n{r.out[-2500:]}")
    return cex


def size_to_bytes(units: int) -> int:
    bits = units // 10000
    return (bits - 330) // 20


def simulate(n: int, seed: int, stats: dict) -> list[dict]:
    """Random behaviours of the model (4 writers, calls spread over 6 s) as executable scenarios."""
    tmp = tempfile.mkdtemp(prefix="c11_")
    try:
        r = tlc.run_tlc("MC_TxRegulator", "MC_TxRegulator_sim.cfg", simulate=f"file={tmp}/tr,num={n}", depth=80,
                        seed=seed + 1, workers=1, timeout=600)
        if r.errors or r.violated:
            raise tlc.MachineryFailure(f"simulate: {r.violated} {r.errors[:2]}\n{r.out[-1500:]}")
        behs = tlc.read_sim_traces(f"{tmp}/tr")
    finally:
        shutil.rmtree(tmp, ignore_errors=True)
    out = []
    for i, beh in enumerate(behs):
        if not beh:
            continue
        first, lastst = beh[0][1], beh[-1][1]
        if not lastst.get("h"):
            continue
        done = all(p in ("new", "done") for p in lastst["pc"])
        out.append({"kind": "serial", "name": f"tlc-simulate:{i}", "init": first["bucket"],
                    "calls": [[c[0], size_to_bytes(c[1])] for c in lastst["h"]],
                    # a behaviour cut by -depth has pending writers: the model's writes are a prefix only
                    "model_writes": [[w["id"], w["t"]] for w in lastst["written"]] if done else []})
    stats["simulate"] = {"behaviours": len(behs), "usable": len(out), "wall_s": round(r.wall_s, 1)}
    return out


# ----------------------------------------------------------------------------------------------
# 2. designed arrival patterns (ticks of 0.1 ms; sizes in payload bytes 1..48)

def S(sec: float) -> int:
    return int(round(sec * 10000))


def patterns(tier: str, seed: int) -> list[dict]:
    rnd = random.Random(seed)
    deep = tier == "thorough"
    hours = 3.0 if deep else 0.6
    P: list[dict] = []

    def add(name: str, **kw) -> None:
        P.append({"kind": "serial", "name": name, **kw})

    # concurrent callers, full bucket
    for n in (2, 4, 8, 32):
        add(f"burst{n}-same-instant-full", calls=[[0, rnd.choice((1, 24, 48))] for _ in range(n)])
    # DESIGN 5: depleted bucket, then [big, small, big, small] in one instant
    add("depleted-then-big-small-big-small", clients=[[0, [[0, 48]] * 30]],
        calls=[[S(60), 48], [S(60), 1], [S(60), 48], [S(60), 1]])
    # one closed-loop caller saturating the channel for a long time, every frame length
    add("saturating-1-client", clients=[[0, [[0, rnd.randint(1, 48)] for _ in range(int(hours * 3600 * 384 / 820))]]])
    add("all-lengths-1..48-after-depletion", clients=[[0, [[0, 48]] * 20 + [[0, n] for n in range(1, 49)]]])
    # several closed-loop callers
    for k in (2, 3, 5):
        add(f"saturating-{k}-clients", clients=[[i * 7, [[rnd.choice((0, 0, S(0.3))), rnd.randint(1, 48)]
                                                          for _ in range(int(hours * 1200 / k))]] for i in range(k)])
    # steady streams
    add("steady-below-limit", clients=[[0, [[S(4), 10]] * int(hours * 900)]])
    add("steady-at-limit", clients=[[0, [[S(1.6), 14]] * int(hours * 2000)]])
    add("steady-above-limit-open-loop", calls=[[S(1.0) * i, 48] for i in range(100 if deep else 90)])
    # idle gaps between bursts
    calls, t = [], 0
    for gap_s in (0, 120, 600, 45, 3600, 5):
        t += S(gap_s)
        calls += [[t + rnd.choice((0, 0, 250, 500, 501)) * j, rnd.choice((1, 48, 48))] for j in range(12)]
    add("bursts-with-idle-gaps", calls=calls)
    # around the leak ticks
    add("on-the-leak-ticks", calls=[[500 * k + d, 1] for k in range(4, 40, 3) for d in (-1, 0, 1)])
    # random open-loop streams
    for mean in ((0.02, 0.3, 3.0, 30.0) if deep else (0.02, 0.3, 3.0)):
        for rep in range(3 if deep else 1):
            t, calls = 0, []
            # at means below ~1 s the calls pile up faster than the bucket refills: more than ~170 frames of
            # concurrent debt leave the judge's 32-bit integers (1e-4 bit units), so that stream stays at 150 calls
            for _ in range(300 if deep and mean >= 3.0 else 150):
                t += S(rnd.expovariate(1 / mean))
                calls.append([t, rnd.randint(1, 48)])
            add(f"random-open-loop-mean{mean}s-{rep}", calls=calls)
    # mixed: closed-loop callers plus sporadic concurrent calls
    add("mixed-closed-and-open", clients=[[0, [[S(0.2), rnd.randint(1, 48)] for _ in range(200)]],
                                          [3, [[S(2.5), 48] for _ in range(60)]]],
        calls=[[S(rnd.uniform(0, 300)), rnd.randint(1, 48)] for _ in range(80)])

    P.extend(sync_patterns(tier, rnd))

    def addm(name: str, **kw) -> None:
        P.append({"kind": "mqtt", "name": "mqtt:" + name, **kw})

    addm("burst-200-same-instant", calls=[[0, 5]] * 200)
    addm("closed-loop-400", clients=[[0, [[0, 10]] * 400]])
    addm("three-closed-loop-clients", clients=[[i, [[rnd.choice((0, S(0.1), S(0.7))), 8] for _ in range(250)]] for i in range(3)])
    addm("steady-below-allowance", clients=[[0, [[S(1.0), 12]] * int(hours * 1500)]])
    addm("steady-above-allowance-open-loop", calls=[[S(0.5) * i, 12] for i in range(int(hours * 3000))])
    calls, t = [], 0
    for gap_s in (0, 30, 61, 200, 3, 1000):
        t += S(gap_s)
        calls += [[t + rnd.choice((0, 1, 100, 7400, 7600)) * j, 6] for j in range(100)]
    addm("bursts-with-idle-gaps", calls=calls)
    # the broker re-announces the gateway / delivers inbound traffic between and during bursts
    addm("bursts-with-status-reannounced", calls=[[S(20) * (j // 100) + (j % 100), 6] for j in range(400)],
         broker=[[S(20) * k - 5, "online"] for k in range(1, 4)] + [[S(20) * k + 50, "online"] for k in range(1, 4)])
    addm("closed-loop-with-broker-traffic", clients=[[0, [[0, 10]] * 400]],
         broker=[[S(rnd.uniform(0, 200)), rnd.choice(("online", "rx", "rx"))] for _ in range(60)])
    for mean in (0.05, 0.74, 0.76, 2.0):
        t, calls = 0, []
        for _ in range(400):
            t += S(rnd.expovariate(1 / mean))
            calls.append([t, rnd.randint(1, 48)])
        addm(f"random-open-loop-mean{mean}s", calls=calls)
    return P


def sync_patterns(tier: str, rnd: random.Random) -> list[dict]:
    """Controller sync announcements (I|1F09|003) on the air while frames are offered: the stage between the duty-cycle
    wrapper and the write-gap semaphore (spec/TxSync.tla).  Announcements arrive 0.3 ms off the 1 ms grid, calls on it,
    so that a poll and a delivery never share an instant; frames are all 10 bytes, the bucket never runs low."""
    deep = tier == "thorough"
    P: list[dict] = []

    def add(name: str, syncs: list, calls: list | None = None, clients: list | None = None, **kw) -> None:
        sc = {"kind": "serial", "name": "sync:" + name, "syncs": syncs, "settle_s": 3, "timeout_s": 900, **kw}
        if calls:
            sc["calls"] = [[c, 10] for c in calls]
        if clients:
            sc["clients"] = clients
        P.append(sc)

    at = 2000                                   # stamped 1000 (cut to ms) + 0.1 s
    # every edge of the window (at - now just inside / outside 8 ms and 108.8 ms), one caller per run
    for d in (79, 81, 1087, 1089, 0, -7, 500, 1000, 90, 180, 1080):
        add(f"edge{d:+d}", [[1003, 1, 1]], [at - d])
    # the same edges with callers that follow each other closely (they pass on their own 10 ms grids)
    add("edges-together", [[1003, 1, 1]], [at - d for d in (1089, 1087, 700, 81, 79, 0)])
    # two controllers whose windows chain
    add("two-chained", [[1003, 1, 2], [1503, 2, 1]], [1600, 2400, 2990, 3600])
    # a controller re-announces: its older announcement is forgotten
    add("re-announced", [[1003, 1, 3], [2003, 1, 30]], [3000, 3500, 30000, 31500])
    # four controllers: the oldest of the three tracked is pushed out
    add("four-controllers", [[1003, 1, 6], [1103, 2, 7], [1203, 3, 8], [1303, 4, 9]], [6500, 7500, 8500, 9500, 10500])
    # an announcement that is no longer pending is dropped by the next one
    add("expired-dropped", [[1003, 1, 1], [5003, 2, 1]], [1500, 5500, 7000])
    # remaining = 0 and the largest value
    add("rem-0-and-max", [[1003, 1, 0], [1503, 2, 0xFFFF]], [1004, 1100, 1600])
    # a long run: a controller announcing every 185.5 s, a caller every 7.03 s (phases drift through the window)
    hrs = 2.0 if deep else 0.4
    n = int(hrs * 3600 / 185.5)
    add("long-run", [[int(1855000 * k) + 3, 1, 1855] for k in range(n)], clients=[[0, [[70300, 10]] * int(hrs * 3600 / 7.03)]],
        timeout_s=int(hrs * 3600) + 600)
    for i in range(24 if deep else 8):
        srcs = rnd.randint(1, 4)
        syncs = sorted([rnd.randrange(100, 20000, 10) + 3, rnd.randint(1, srcs), rnd.choice((0, 1, 1, 2, 3, 5, 10))]
                       for _ in range(rnd.randint(1, 8)))
        calls = sorted({rnd.randrange(100, 32000, 10) for _ in range(rnd.randint(3, 14))})
        add(f"random-{i}", [list(x) for x in syncs], calls)
    return P


def judge_sync(results: list[dict], workers: int) -> dict:
    idx = [i for i, r in enumerate(results) if r.get("sx", {}).get("rx")]
    items = []
    for i in idx:
        r = results[i]
        items.append({"rx": r["sx"]["rx"], "passes": r["sx"]["passes"],
                      "calls": [{"id": e["id"], "t": e["t"]} for e in r["ev"] if e["k"] == "call"]})
    res = tlc.validate_batch("TxSyncTrace", items, cfg="TxSyncTrace.cfg", workers=workers, timeout=900, chunk=40) if items else \
        {"n": 0, "rejects": [], "states": 0, "wall_s": 0.0}
    res["index"] = idx
    return res


def model_check_sync(tier: str, workers: int, stats: dict) -> None:
    jobs = [("MC_TxSync.cfg", "hold"), ("MC_TxSync_w2.cfg", "hold"), ("MC_TxSync_live.cfg", "hold"),
            ("MC_TxSync_x_collide.cfg", "X_NoTxAtSync"), ("MC_TxSync_x_fifo.cfg", "X_FifoThroughStage")]
    with ThreadPoolExecutor(3) as ex:
        results = list(ex.map(lambda j: tlc.run_tlc("MC_TxSync", j[0], workers=max(1, workers // 2), timeout=900), jobs))
    for (cfg, kind), r in zip(jobs, results):
        rec = {"module": "MC_TxSync", "cfg": cfg, "distinct_states": r.distinct, "generated": r.states, "depth": r.depth,
               "violated": r.violated, "wall_s": round(r.wall_s, 1)}
        stats["mc"].append(rec)
        if r.errors:
            raise tlc.MachineryFailure(f"{cfg}: {r.errors[:2]}\n{r.out[-1500:]}")
        if kind == "hold":
            if not r.ok:
                raise tlc.MachineryFailure(f"{cfg}: model property {r.violated} failed\n{r.out[-2500:]}")
            print(f"TLC {cfg}: {r.distinct} distinct states, the stage's invariants"
                  f"{' and liveness (every caller passes)' if 'live' in cfg else ''} hold ({r.wall_s:.1f}s)")
        else:
            if r.ok:
                raise tlc.MachineryFailure(f"{cfg}: the sensitivity property {kind} is expected to be refuted and was not")
            print(f"TLC {cfg}: {kind} refuted as expected (observation about the code as it is)")


# ----------------------------------------------------------------------------------------------
# 3. judging

FIELDS = ("mode", "gap", "maxtok", "init", "t0", "ev")


def judge(results: list[dict], workers: int, mode: str) -> dict:
    items = [{k: r[k] for k in FIELDS} for r in results]
    for it in items:
        if mode != "drift":
            it["ev"] = [e for e in it["ev"] if e["k"] != "topup"]
    cfg = {"clauses": "TxTrace.cfg", "clauses_skip_order": "TxTrace_skip_order.cfg", "drift": "TxTrace_drift.cfg"}[mode]
    return tlc.validate_batch("TxTrace", items, cfg=cfg, workers=workers, timeout=1500, chunk=40)


def canary(results: list[dict], workers: int) -> dict:
    """Corrupted records must be rejected, each by the clause it breaks.  The base traces are synthetic
    (independent of the code under test): 8 concurrent calls written in order one gap apart, and 30 MQTT
    writes one second apart."""
    def E(k, i, t, bits=0, b=-1, same=True):
        return {"k": k, "id": i, "t": t, "bits": bits, "b": b, "same": same}

    ev = [E("call", 1, 2000, 3500000), E("write", 1, 2000, 3500000)]
    ev += [E("call", i, 2000, 3500000) for i in range(2, 9)]
    ev += [E("write", i, 2000 + 500 * (i - 1), 3500000) for i in range(2, 9)] + [E("end", 0, 60000)]
    base = {"mode": "serial", "gap": 500, "maxtok": 0, "init": X.CAP_UNITS, "t0": 0, "ev": ev}
    ev = []
    for i in range(1, 31):
        ev += [E("call", i, 10000 * i), E("write", i, 10000 * i), E("ret", i, 10000 * i)]
    mq = {"mode": "mqtt", "gap": 500, "maxtok": 80, "init": 0, "t0": 0, "ev": ev + [E("end", 0, 400000)]}
    ok0 = tlc.validate_batch("TxTrace", [base, mq], cfg="TxTrace.cfg", workers=1, timeout=300)
    if ok0["rejects"]:
        raise tlc.MachineryFailure(f"canary: the clean synthetic traces are rejected: {ok0['rejects']}")

    def mutate(r: dict, fn) -> dict:
        c = {k: json.loads(json.dumps(r[k])) for k in FIELDS}
        c["ev"] = [e for e in c["ev"] if e["k"] != "topup"]
        fn(c["ev"])
        return c

    def drop_write(ev):  # a frame is lost
        i = max(j for j, e in enumerate(ev) if e["k"] == "write")
        del ev[i]

    def dup_write(ev):  # a frame is written twice
        i = max(j for j, e in enumerate(ev) if e["k"] == "write")
        ev.insert(i + 1, dict(ev[i]))

    def alter(ev):
        next(e for e in ev if e["k"] == "write")["same"] = False

    def squeeze(ev):  # all writes happen at the time of the first: bits and spacing
        t0 = next(e for e in ev if e["k"] == "write")["t"]
        for e in ev:
            if e["k"] in ("write", "call", "ret"):
                e["t"] = t0

    def flood(ev):  # 300 more publishes in the first instant: beyond the initial burst allowance
        t0 = ev[0]["t"]
        ev[0:0] = [x for i in range(1000, 1300) for x in ({"k": "call", "id": i, "t": t0, "bits": 0, "b": -1, "same": True},
                                                            {"k": "write", "id": i, "t": t0, "bits": 0, "b": -1, "same": True})]

    def swap(ev):  # two writes of different calls exchange places
        w = [j for j, e in enumerate(ev) if e["k"] == "write"]
        a, b = w[1], w[2]
        ev[a]["id"], ev[b]["id"] = ev[b]["id"], ev[a]["id"]
        ev[a]["bits"], ev[b]["bits"] = ev[b]["bits"], ev[a]["bits"]

    bad = [mutate(base, drop_write), mutate(base, dup_write), mutate(base, alter), mutate(base, squeeze), mutate(base, swap),
           mutate(mq, drop_write), mutate(mq, dup_write), mutate(mq, flood),
           {"mode": "serial", "gap": 500, "maxtok": 0, "init": 0, "t0": 2000,      # an empty bucket, yet no wait
            "ev": [E("call", 1, 2000, 12900000), E("write", 1, 2000, 12900000), E("end", 0, 9000)]}]
    expect = ["d:lost", "d:dup_or_unknown", "d:altered", ("a:overdraw", "b:spacing"), "d:order", "d:", "d:dup_or_unknown",
              "c:", "a:overdraw"]
    res = tlc.validate_batch("TxTrace", bad, cfg="TxTrace.cfg", workers=workers, timeout=600)
    got = {i: f[1] for i, f in res["rejects"]}
    for i, exp in enumerate(expect):
        g = got.get(i)
        ok = g is not None and (g.startswith(exp) if isinstance(exp, str) else g.startswith(exp))
        if not ok:
            raise tlc.MachineryFailure(f"canary {i}: corrupted trace expected to fail {exp}, TxTrace said {g}")
    return {"corrupted_traces_rejected": len(bad), "clauses": [got[i] for i in range(len(bad))]}


def key_of(clause: str, res: dict) -> str:
    # executions with sync announcements on the air are a family of their own (another stage of write_frame is at work)
    return f"{clause}|{res['mode']}{'+sync' if res.get('sx', {}).get('rx') else ''}"


def main(tier: str, replay: str | None) -> None:
    chk = Check(PID, tier, "model_checking")
    workers = _workers(tier)
    if replay:
        return do_replay(replay, workers)
    stats: dict = {}
    cex = model_check(tier, workers, stats)
    model_check_sync(tier, workers, stats)
    scs = ([cex] if cex else []) + simulate(300 if tier == "thorough" else 60, chk.seed, stats) + patterns(tier, chk.seed)
    t0 = time.time()
    results = X.run_scenarios(scs, procs=workers)
    n_ev = sum(len(r["ev"]) for r in results)
    n_wr = sum(1 for r in results for e in r["ev"] if e["k"] == "write")
    air_h = sum(r["info"]["end_s"] for r in results) / 3600
    stats["execution"] = {"scenarios": len(scs), "events": n_ev, "writes": n_wr, "virtual_hours": round(air_h, 2),
                          "wall_s": round(time.time() - t0, 1)}
    print(f"executed {len(scs)} scenarios on the real transports: {n_wr} writes, {air_h:.1f} h of virtual time "
          f"({stats['execution']['wall_s']}s)")
    for r in results:
        inf = r["info"]
        if not inf.get("connected", True):
            raise tlc.MachineryFailure(f"{r['name']}: the transport never connected ({inf})")
        if r["mode"] == "serial" and inf["topups"] == 0 and any(e["k"] == "write" for e in r["ev"]):
            chk.note(f"{r['name']}: the perf_counter hook saw no top-up (wrapper renamed?) - drift check is blind")
        for m in inf.get("loop_exc", []) + inf.get("errors", []):
            chk.note(f"{r['name']}: exception during the run (not a C11 clause): {m}")
    stats["canary"] = canary(results, workers)
    res = judge(results, workers, "clauses")
    stats["judge"] = {"traces": res["n"], "tlc_states": res["states"], "rejected": len(res["rejects"]),
                      "wall_s": round(res["wall_s"], 1)}
    # TxTrace names the first failing clause of a trace: traces that stop at the (known) ordering class are
    # judged again with that class switched off, so that it cannot hide a different violation behind it
    order_idx = [idx for idx, fail in res["rejects"] if fail[1].startswith("d:order:")]
    rejects = list(res["rejects"])
    if order_idx:
        r2 = judge([results[i] for i in order_idx], workers, "clauses_skip_order")
        rejects += [(order_idx[i], fail) for i, fail in r2["rejects"]]
        stats["judge"]["rejudged_without_order_clause"] = len(order_idx)
    seen: dict[str, int] = {}
    for idx, fail in rejects:
        r, sc = results[idx], scs[idx]
        clause = fail[1]
        if clause.startswith("harness:"):
            raise tlc.MachineryFailure(f"{r['name']}: {clause}")
        key = key_of(clause, r)
        seen[key] = seen.get(key, 0) + 1
        e = [x for x in r["ev"] if x["k"] != "topup"][fail[0] - 1]
        chk.violation(key, f"clause C11{clause} fails in scenario {r['name']!r} ({r['mode']}) at event {fail[0]}: {e}",
                      {"scenario": sc, "clause": clause, "event": e})
    rd = judge(results, workers, "drift")
    stats["drift"] = {"rejected": len(rd["rejects"]), "wall_s": round(rd["wall_s"], 1)}
    for idx, fail in rd["rejects"][:20]:
        r = results[idx]
        chk.model_drift(f"{fail[1]} in scenario {r['name']!r} at event {fail[0]}: {r['ev'][fail[0] - 1]}")
    rs = judge_sync(results, workers)
    stats["sync_stage"] = {"executions": rs["n"], "calls": sum(len([e for e in results[i]["ev"] if e["k"] == "call"]) for i in rs["index"]),
                           "announcements": sum(len(results[i]["sx"]["rx"]) for i in rs["index"]),
                           "held_back": sum(1 for i in rs["index"] for p in results[i]["sx"]["passes"]
                                            if p["t"] > next(e["t"] for e in results[i]["ev"] if e["k"] == "call" and e["id"] == p["id"])),
                           "drift": len(rs["rejects"]), "wall_s": round(rs["wall_s"], 1)}
    if rs["n"] and not stats["sync_stage"]["held_back"]:
        chk.note("sync scenarios: no caller was seen to be held back by an announcement (stage not observed - drift comparison blind)")
    print(f"TLC TxSyncTrace: {rs['n']} executions with sync announcements ({stats['sync_stage']['calls']} calls, "
          f"{stats['sync_stage']['held_back']} held back), {len(rs['rejects'])} differ from TxSync")
    for k, fail in rs["rejects"][:20]:
        r = results[rs["index"][k]]
        chk.model_drift(f"{fail[1]} in scenario {r['name']!r}: call {fail[2]} (entered at "
                        f"{[e['t'] for e in r['ev'] if e['k'] == 'call' and e['id'] == fail[2]]}, left the stage at "
                        f"{[p['t'] for p in r['sx']['passes'] if p['id'] == fail[2]]}; announcements {r['sx']['rx'][:6]})")
    # search-based conformance of the small open-loop runs (TLC looks for a model behaviour with these writes)
    cf = X.conform(results, scs, workers)
    stats["conformance"] = {k: v for k, v in cf.items() if k != "index"}
    if cf["items"]:
        bad_now, bad_fix = cf["as_is"]["rejected"], cf["repaired"]["rejected"]
        print(f"TLC TxConform: {cf['items']} executions; behaviours of the model of the code as it is: "
              f"{cf['as_is']['accepted']}; of the repaired model: {cf['repaired']['accepted']}")
        if bad_now and not bad_fix:
            chk.note(f"{len(bad_now)} executions are not behaviours of TxRegulator(Serialised=FALSE) but all are behaviours "
                     f"of TxRegulator(Serialised=TRUE): the code behaves like the repaired model")
        elif bad_now:
            for i in bad_now[:10]:
                chk.model_drift(f"execution of scenario {results[i]['name']!r} is not a behaviour of TxRegulator given its calls: "
                                f"writes {[(e['id'], e['t']) for e in results[i]['ev'] if e['k'] == 'write'][:8]}")
    stats["rejected_by_key"] = seen
    print(f"TLC TxTrace: {res['n']} traces judged, {len(res['rejects'])} rejected {seen}; drift {len(rd['rejects'])}")
    samples = []
    for r in results[:: max(1, len(results) // 5)][:6]:
        wr = [e for e in r["ev"] if e["k"] == "write"][:3]
        samples.append({"scenario": r["name"], "mode": r["mode"], "events": len(r["ev"]), "first_writes": wr, "info": r["info"]})
    chk.finish(
        coverage={
            "states": sum(m["distinct_states"] for m in stats["mc"]),
            "transitions": sum(m["generated"] for m in stats["mc"]),
            "traces_validated_against_impl": res["n"],
            "samples": samples, **stats,
        },
        assumptions=[
            "time is recorded in ticks of 0.1 ms, sizes in 1e-4 bit; 1 ms / 0.384 bit of rounding slack (J3)",
            "hard-wired in the contract: 1 % of 38 400 bit/s, 60 s bucket (J13); read from the running code: MIN_INTER_WRITE_GAP, MAX_TRANSMIT_RATE_TOKENS",
            "a frame counts 330 + 20 bits per payload byte (the library's own deemed size); 'one frame per write already pending' = the frames of all writes whose pending interval overlaps",
            "J12: order is judged among the calls of one transport's write_frame, in call order",
            "the signature frames of the connection phase bypass the regulator and are not judged",
            "long-run 1 % is checked as the shadow-bucket bound (equivalent to every window), runs of up to a few hours",
        ],
    )


def do_replay(path: str, workers: int) -> None:
    obj = json.load(open(path))
    rp = obj.get("replay", obj)
    sc = rp["scenario"]
    print(f"replay {path}\n  scenario {sc.get('name')!r} ({sc.get('kind')}): "
          f"{len(sc.get('calls', []))} open-loop calls, {len(sc.get('clients', []))} closed-loop clients, init={sc.get('init')}")
    r = X.run_scenario(sc)
    wr = [(e["id"], e["t"], e["bits"]) for e in r["ev"] if e["k"] == "write"]
    print(f"  calls:  {[(e['id'], e['t'], e['bits']) for e in r['ev'] if e['k'] == 'call'][:12]}")
    print(f"  writes: {wr[:12]}{' ...' if len(wr) > 12 else ''}")
    res = judge([r], 1, "clauses")
    if res["rejects"]:
        f = res["rejects"][0][1]
        print(f"  TLC verdict: clause C11{f[1]} FAILS at event {f[0]} (reproduced)")
        raise SystemExit(1)
    print("  TLC verdict: all clauses hold (not reproduced)")
    raise SystemExit(0)


if __name__ == "__main__":
    main_wrapper(PID, main)

"""C15 - the reported schema is well-formed, re-loadable and structurally consistent (spec/Topology.tla).

1. TLC checks the graph model (set_parent / _add_child accept-refuse rules, zone creation and class
   promotion, DHW / appliance slots, eavesdropped parents): structural invariants and "a parent
   never changes silently" under all claim orders (exhaustive over the graph space of small instances).
2. Spec histories (-simulate of a larger generator instance, eavesdropping on and off) are replayed as
   000C / 0005 / ... packets through a real Gateway; after every step the real object graph is
   projected and compared with the model state (a mismatch is MODEL-DRIFT, never a verdict).
   Transition coverage: every (graph, claim) pair of a small instance (MC_TopologyTC) is executed at least once
   (tours); claims include replies that name no device and the application faking a device; the known_list
   (nothing listed / listed / listed as faked) is a dimension of every family.
3. Second driver: the graphs reached by the model are turned into schemas and loaded as
   configuration, plus larger generated schemas (1-3 controllers, 0-12 zones, DHW, UFH, orphans).
4. TLC (TopologyTrace) judges every recorded step: a validator accepts shrink(gwy.schema);
   b a fresh Gateway(**schema) reports the same view; c structure; d no silent move.
"""
from __future__ import annotations

import json
import multiprocessing as mp
import os
import random
import re
import shutil
import tempfile
import threading
import time
from typing import Any

from harness import ext_c15 as y
from harness import fakes, tlc
from harness.report import Check, main_wrapper

PID = "C15"
GEN_DEVS = ["34:000011", "22:000012", "04:000021", "00:000022", "13:000031", "13:000032", "07:000041",
            "10:000051", "01:000111"]

# generator instances (-simulate), eavesdropping on / off.  (Controllers of the model are 01: devices: the protocol
# refuses 0005 / 000C from a 23: programmer - "Unexpected code for src (PRG) to Tx" - so a programmer's system is only
# ever configured, never built from claims: see PRG_SCHEMA.)
GEN_CFGS = (("MC_Topology_gen.cfg", True), ("MC_Topology_gen_ne.cfg", False))

# a configured system of the other controller type the validator accepts (DEVICE_ID_REGEX.CTL), devices of its own
PRG = "23:000333"
PRG_SCHEMA = {PRG: {"system": {"appliance_control": "13:000931"},
                    "stored_hotwater": {"sensor": "07:000941", "hotwater_valve": "13:000932", "heating_valve": "13:000933"},
                    "zones": {"00": {"class": "zone_valve", "sensor": "12:000911", "actuators": ["13:000934"]},
                              "01": {"class": "electric_heat", "sensor": "22:000912", "actuators": ["13:000935"]}}}}

# --------------------------------------------------------------------------------------
# jobs (worker processes)


def run_job(job: dict) -> dict:
    fakes.quiet_logging()
    t0 = time.time()
    rec = y.run_history(job.get("claims", []), eavesdrop=job.get("eavesdrop", False),
                        max_zones=job.get("max_zones"), schema=job.get("schema"),
                        observe_every=job.get("observe_every", 1), known_list=job.get("known_list"))
    rec["job"] = {k: v for k, v in job.items() if k != "model"}
    rec["drift"] = []
    if job.get("model") and "load_error" not in rec:
        for i, st in enumerate(job["model"]):
            if i < len(rec["steps"]):
                d = y.model_vs_real(st, rec["steps"][i], sorted(st["par"]))
                if d:
                    rec["drift"].append([i, d[:3]])
                    break
    if job.get("expect_view") is not None and "load_error" not in rec and rec["steps"]:
        if _facts(rec["steps"][0]["view"]) != _facts(job["expect_view"]):
            rec["drift"].append([0, ["loaded schema is reported differently",
                                     json.dumps(rec["steps"][0]["view"])[:300]]])
    rec["wall"] = round(time.time() - t0, 2)
    return rec


def _facts(view: dict) -> dict:
    """A view without content-free zones / controllers (what clause b compares)."""
    out = {}
    for c, v in view.items():
        zones = {z: r for z, r in v["zones"].items() if r["cls"] or r["sen"] or r["acts"]}
        if zones or any(v["dhw"].values()) or v["app"]:
            out[c] = {"zones": zones, "dhw": v["dhw"], "app": v["app"]}
    return out


# --------------------------------------------------------------------------------------
# behaviours out of TLC


def simulate(cfgfile: str, n: int, seed: int, depth: int = 10) -> list[list[dict]]:
    tmp = tempfile.mkdtemp(prefix="c15sim_")
    try:
        r = tlc.run_tlc("MC_Topology", cfgfile, workers=1, timeout=1500,
                        simulate=f"file={tmp}/tr,num={n}", depth=depth, seed=seed + 1)
        if not r.ok:
            raise tlc.MachineryFailure(f"TLC -simulate {cfgfile} failed: {r.violated} {r.errors[:2]}\n{r.out[-800:]}")
        behs = tlc.read_sim_traces(f"{tmp}/tr")
        out = []
        for b in behs:
            states = [st for _, st in b]
            if states and all("hist" in st for st in states):
                out.append(states)
        if len(out) < n // 2:
            raise tlc.MachineryFailure(f"TLC -simulate {cfgfile}: only {len(out)} of {n} behaviours parsed")
        return out
    finally:
        shutil.rmtree(tmp, ignore_errors=True)


def plain(v: Any) -> Any:
    """TLC values -> JSON-able (frozenset -> sorted list, tuple -> list, () -> {} for empty functions)."""
    if isinstance(v, dict):
        return {k: plain(x) for k, x in v.items()}
    if isinstance(v, (frozenset, set)):
        return sorted(plain(x) for x in v)
    if isinstance(v, tuple):
        return [plain(x) for x in v]
    return v


def model_state(st: dict) -> dict:
    m = plain({k: st[k] for k in ("zones", "cls", "sen", "acts", "dhw", "app", "par", "ctl", "rep")})
    return m


# --------------------------------------------------------------------------------------
# transition coverage: every (graph, claim) pair of a small instance is executed on the real code

GRAPH_VARS = ("zones", "cls", "sen", "acts", "dhw", "app", "par", "ctl")


def transition_tours(cfgfile: str, max_len: int = 60) -> tuple[list[dict], dict]:
    """TLC enumerates the transition relation of the instance (spec/MC_TopologyTC.tla: one dumped state per distinct
    <<graph before, claim, graph after>>); the edges are strung into histories ("tours") that start at the empty
    graph and together take every edge at least once: at each graph reached, first every claim that leaves the graph
    as it is (refused, repeated, empty, fake), then an edge not taken yet - or the shortest way to a graph that has one.
    Returns the tours [{claims, model}] and the measured numbers."""
    tmp = tempfile.mkdtemp(prefix="c15tc_")
    try:
        r = tlc.run_tlc("MC_TopologyTC", cfgfile, workers=2, timeout=1500, dump=f"{tmp}/all")
        if not r.ok:
            raise tlc.MachineryFailure(f"TLC {cfgfile}: violated={r.violated} errors={r.errors[:2]}\n{r.out[-1200:]}")
        states = tlc.read_dump(f"{tmp}/all")
    finally:
        shutil.rmtree(tmp, ignore_errors=True)
    if len(states) != r.distinct:
        raise tlc.MachineryFailure(f"TLC {cfgfile}: {r.distinct} distinct states, {len(states)} parsed from the dump")

    def key(g: dict) -> str:
        return json.dumps({k: g[k] for k in GRAPH_VARS}, sort_keys=True)

    edges: dict[str, list[dict]] = {}
    init = None
    for st in states:
        m = model_state(st)
        if not st["hist"]:
            init = m
            edges.setdefault(key(m), [])
            continue
        src = key(plain(dict(zip(GRAPH_VARS, st["pg"]))))
        e = {"claim": plain(st["hist"][-1]), "dst": key(m), "model": m}
        e["ck"] = json.dumps(e["claim"], sort_keys=True)
        edges.setdefault(src, []).append(e)
        edges.setdefault(e["dst"], [])
    if init is None:
        raise tlc.MachineryFailure(f"TLC {cfgfile}: no initial state in the dump")
    for src in edges:
        edges[src].sort(key=lambda e: e["ck"])
    todo = {src: list(es) for src, es in edges.items()}
    left = sum(len(es) for es in todo.values())
    n_edges = left

    def way_to_work(cur: str) -> list[dict] | None:  # BFS over the edges that change the graph
        seen, queue = {cur}, [(cur, [])]
        while queue:
            node, path = queue.pop(0)
            if todo[node] and node != cur:
                return path
            for e in edges[node]:
                if e["dst"] not in seen:
                    seen.add(e["dst"])
                    queue.append((e["dst"], path + [e]))
        return None

    tours = []
    while left:
        cur, tour, left0 = key(init), [], left
        while True:
            room = max_len - len(tour)
            loops = [e for e in todo[cur] if e["dst"] == cur]
            if loops and (room > 0 or not tour):
                take = loops[: max(room, 1)]
            elif todo[cur] and (room > 0 or not tour):
                take = [todo[cur][0]]
            else:
                path = way_to_work(cur) if (room > 0 or not tour) else None
                if path is None or (tour and len(path) >= room):
                    break
                tour += path
                cur = path[-1]["dst"]
                continue
            for e in take:
                todo[cur].remove(e)
                left -= 1
                tour.append(e)
            cur = take[-1]["dst"]
        if left == left0:
            raise tlc.MachineryFailure("transition tours: no progress")
        tours.append({"claims": [y.claim_from_model(e["claim"]) for e in tour],
                      "model": [init] + [e["model"] for e in tour]})
    return tours, {"cfg": cfgfile, "graphs": len(edges), "transitions": n_edges, "tours": len(tours),
                   "tour_steps": sum(len(t["claims"]) for t in tours), "tlc_generated": r.states,
                   "tlc_wall_s": round(r.wall_s, 1)}


def kl_variant(n: int, devs: list[str]) -> dict | None:
    """The known_list dimension: nothing listed / the devices that can be faked listed / listed as `faked: true`."""
    cls = {"01": "CTL", "23": "PRG", "34": "THM", "22": "THM", "12": "THM", "03": "THM", "07": "DHW", "04": "TRV", "00": "TRV", "13": "BDR",
           "10": "OTB"}
    fakeable = ("THM", "DHW")
    if n % 3 == 0:
        return None
    return {d: ({"class": cls[d[:2]], "faked": True} if n % 3 == 2 and cls[d[:2]] in fakeable else {"class": cls[d[:2]]})
            for d in devs if d[:2] in cls}


def directed_histories() -> list[dict]:
    """One history per device type the library's own tables permit in a role (DEV_TYPE_MAP.HEAT_ZONE_SENSORS,
    HEAT_ZONE_ACTUATORS, ...): the claim, the same claim again, and a conflicting second claim."""
    from ramses_tx.const import DEV_TYPE_MAP
    out: list[dict] = []
    for t in ctl_types():   # every type the validator accepts as a controller
        _directed(out, f"{t}:000111" if t == "01" else f"{t}:000333", DEV_TYPE_MAP)
    return out


def _directed(out: list[dict], ctl: str, DEV_TYPE_MAP: Any) -> None:
    def hist(role: str, idx: str, typ: str, tag: str) -> None:
        d1, d2 = f"{typ}:000301", f"{typ}:000302"
        if typ == "01":
            d1, d2 = ctl, "34:000302"
        claims = [{"k": "devs", "ctl": ctl, "idx": idx, "role": role, "devs": [d1]},
                  {"k": "devs", "ctl": ctl, "idx": idx, "role": role, "devs": [d1]},
                  {"k": "devs", "ctl": ctl, "idx": idx, "role": role, "devs": [d2]},
                  {"k": "devs", "ctl": ctl, "idx": "01" if idx == "00" else "00", "role": role, "devs": [d1]}]
        # ... then the role is reported empty (a reply that names no device), and the other zone claims the device again
        claims += [{"k": "devs", "ctl": ctl, "idx": idx, "role": role, "devs": []}, dict(claims[3])]
        for eav in (False, True):
            out.append({"kind": "directed-by-type", "claims": claims, "eavesdrop": eav, "max_zones": 12,
                        "tag": f"{tag}@{ctl[:2]}", "known_list": kl_variant(len(out), [ctl, d1, d2])})

    def two_roles(typ: str, act_role: str, sensor_first: bool) -> None:
        """A device that is the sensor *and* an actuator of its zone (an HR92 usually is): both roles claimed, then
        either role reported empty, then another zone claims the device in either role."""
        d1 = f"{typ}:000301"

        def cl(idx: str, role: str, devs: list[str]) -> dict:
            return {"k": "devs", "ctl": ctl, "idx": idx, "role": role, "devs": devs}

        both = [cl("00", "04", [d1]), cl("00", act_role, [d1])]
        for empty_role in ("04", act_role):
            for then_role in ("04", act_role):
                claims = (both if sensor_first else both[::-1]) + [cl("00", empty_role, []), cl("01", then_role, [d1]),
                                                                   cl("00", "04", [d1]), cl("00", act_role, [d1])]
                out.append({"kind": "directed-by-type", "claims": claims, "eavesdrop": empty_role == "04",
                            "max_zones": 12, "tag": f"two-roles-{typ}-{act_role}-empty-{empty_role}-then-{then_role}",
                            "known_list": kl_variant(len(out), [ctl, d1])})

    for typ in DEV_TYPE_MAP.HEAT_ZONE_SENSORS:
        hist("04", "00", typ, f"sensor-{typ}")
        if typ in DEV_TYPE_MAP.HEAT_ZONE_ACTUATORS:
            for n, act_role in enumerate(("00", "08")):
                two_roles(typ, act_role, sensor_first=bool(n))
    for typ in DEV_TYPE_MAP.HEAT_ZONE_ACTUATORS:
        for role in ("00", "08", "0A"):
            hist(role, "00", typ, f"actuator-{typ}-{role}")
    for typ in ("07", "13", "10", "34"):
        hist("0D", "00", typ, f"dhw-sensor-{typ}")
        hist("0E", "00", typ, f"dhw-valve-{typ}")
        hist("0E", "01", typ, f"htg-valve-{typ}")
        hist("0F", "00", typ, f"appliance-{typ}")


def ufc_histories() -> list[dict]:
    """Underfloor-heating controllers (HCE80): their circuits in use (RP|0005 role 09), each circuit's zone
    (RP|000C role 09: the controller's id and the zone index, or 7FFFFFFF for a circuit that is not in use), and the
    controller's own view of the same zones - in several orders, with circuits unassigned, re-assigned, and with the
    controller not (yet) known.  Contract only (validator, reload)."""
    from ramses_tx.address import dev_id_to_hex_id
    ctl, ufc, ufc2 = "01:000111", "02:000921", "02:000922"
    hx = dev_id_to_hex_id(ctl)

    def c0005(u: str, idxs: list[int]) -> str:
        return f"RP --- {u} {y.HGI} --:------ 0005 004 0009{y.mask([f'{i:02X}' for i in idxs])}"

    def c000c(u: str, circuit: int, zone: int | None) -> str:
        body = f"{circuit:02X}09{zone:02X}{hx}" if zone is not None else f"{circuit:02X}097FFFFFFF"
        return f"RP --- {u} {y.HGI} --:------ 000C 006 {body}"

    def ctl_zone(zone: int, u: str) -> str:
        return f"RP --- {ctl} {y.HGI} --:------ 000C 006 {zone:02X}0900{dev_id_to_hex_id(u)}"

    base = [c0005(ufc, [0, 1]), c000c(ufc, 0, 3), c000c(ufc, 1, 4), c000c(ufc, 2, None), c000c(ufc, 7, None)]
    hists = {
        "in-use-and-unused-circuits": base,
        "unused-only": [c000c(ufc, 0, None), c000c(ufc, 5, None)],
        "mask-only": [c0005(ufc, [0, 1, 2, 3, 4, 5, 6, 7])],
        "mask-none": [c0005(ufc, [])],
        "controller-first": [f"RP --- {ctl} {y.HGI} --:------ 0005 004 00090018", ctl_zone(3, ufc), ctl_zone(4, ufc)] + base,
        "ufc-first-controller-later": base + [f"RP --- {ctl} {y.HGI} --:------ 0005 004 00090018", ctl_zone(3, ufc)],
        "reassigned": base + [c000c(ufc, 0, 5), c000c(ufc, 1, None), c000c(ufc, 2, 3)],
        "two-ufcs-one-zone": base + [c0005(ufc2, [0]), c000c(ufc2, 0, 3), c000c(ufc2, 1, None)],
        "demand-traffic": base + [f" I --- {ufc} --:------ {ufc} 22C9 006 0007D00A2801",
                                  f" I --- {ufc} --:------ {ufc} 3150 010 00000100020003000400",
                                  f" I --- {ufc} --:------ {ctl} 3150 002 FC00"],
    }
    out = []
    for tag, frames in hists.items():
        for n, eav in enumerate((False, True)):
            # the UFC unknown to the configuration / configured as the controller's (then its circuits are reported
            # in the controller's schema)
            for sch in (None, {"main_tcs": ctl, ctl: {"underfloor_heating": {ufc: {}}}}):
                out.append({"kind": "directed-ufc", "tag": tag + ("+configured" if sch else ""), "eavesdrop": eav,
                            "max_zones": 12, "schema": sch,
                            "claims": [{"k": "raw", "frame": fr} for fr in frames]})
    return out


def log_histories(rng: random.Random, n_variants: int) -> list[dict]:
    """Histories from the shipped packet logs: as they are, spliced with another system's log, with
    stretches repeated or dropped - eavesdropping on and off, max_zones 1..16 (contract only)."""
    import glob
    root = os.path.join(os.path.dirname(fakes.REPO_SRC.rstrip("/")), "tests", "tests")
    files = sorted(glob.glob(f"{root}/systems/*/packet.log") + glob.glob(f"{root}/schemas/log_files/*.log")
                   + glob.glob(f"{root}/eavesdrop_schema/*/packet.log"))
    logs = {f: y.frames_of_log(f) for f in files}
    logs = {f: fr for f, fr in logs.items() if len(fr) >= 10}
    out = []
    names = sorted(logs)
    for f in names:
        for eav in (False, True):
            out.append({"kind": "log-history", "src": os.path.relpath(f, root), "frames": logs[f], "eavesdrop": eav,
                        "max_zones": None})
    for _ in range(n_variants):
        f, g = rng.choice(names), rng.choice(names)
        a, b = list(logs[f]), list(logs[g])
        op = rng.choice(["splice", "repeat", "drop", "shuffle"])
        if op == "splice":
            fr = []
            while a or b:
                src = a if (a and (not b or rng.random() < 0.5)) else b
                n = rng.randint(1, 8)
                fr += src[:n]
                del src[:n]
        elif op == "repeat":
            i = rng.randrange(len(a))
            fr = a[: i + 20] + a[i: i + 20] + a[i + 20:]
        elif op == "drop":
            fr = [x for x in a if rng.random() < 0.7]
        else:
            k = rng.randint(5, 30)
            chunks = [a[i: i + k] for i in range(0, len(a), k)]
            rng.shuffle(chunks)
            fr = [x for ch in chunks for x in ch]
        out.append({"kind": "log-history", "src": f"{op}:{os.path.relpath(f, root)}+{os.path.relpath(g, root)}",
                    "frames": fr[:700], "eavesdrop": bool(rng.getrandbits(1)),
                    "max_zones": rng.choice([None, 1, 2, 4, 8, 12, 16])})
    for j in out:
        j["claims"] = [{"k": "raw", "frame": fr} for fr in j.pop("frames")]
        j["observe_every"] = max(1, len(j["claims"]) // 8)
    return out


# --------------------------------------------------------------------------------------
# larger generated schemas (validator-accepted; 1-3 controllers, 0-12 zones, DHW, UFH, orphans)

CLASSES = ["radiator_valve", "zone_valve", "electric_heat", "mixing_valve", "underfloor_heating"]
ACT_T = {"radiator_valve": ["04", "00"], "zone_valve": ["13"], "electric_heat": ["13"],
         "mixing_valve": [], "underfloor_heating": []}


def ctl_types() -> list[str]:
    """The device types the library's validator accepts as a controller (main_tcs, the keys of the systems)."""
    from ramses_tx.const import DEVICE_ID_REGEX
    m = re.match(r"\^\(([0-9|]+)\):", DEVICE_ID_REGEX.CTL.pattern)
    if not m:
        raise tlc.MachineryFailure(f"DEVICE_ID_REGEX.CTL not understood: {DEVICE_ID_REGEX.CTL.pattern}")
    return sorted(m.group(1).split("|"))


def gen_schema(rng: random.Random) -> dict:
    n = [100]

    def nid(t: str) -> str:
        n[0] += 1
        return f"{t}:{n[0]:06d}"

    out: dict[str, Any] = {}
    types = ctl_types()
    ctls = [nid(rng.choice(types)) for _ in range(rng.randint(1, 3))]   # every type the validator takes as a controller
    for c in ctls:
        tcs: dict[str, Any] = {}
        zones = {}
        ctl_sensor_used = False
        for idx in sorted(rng.sample(range(12), rng.randint(0, 12 if rng.random() < 0.3 else 4))):
            z: dict[str, Any] = {}
            cls = rng.choice(CLASSES + [None])
            if cls:
                z["class"] = cls
            st = rng.choice(["01", "03", "04", "12", "22", "34", None, "own"])
            acts = [nid(rng.choice(ACT_T[cls])) for _ in range(rng.randint(0, 8 if rng.random() < 0.2 else 2))] \
                if cls and ACT_T[cls] else []
            if st == "01":
                if not ctl_sensor_used and c[:2] == "01":   # (DEVICE_ID_REGEX.SEN: of the controllers, only an 01:)
                    z["sensor"], ctl_sensor_used = c, True
            elif st == "own" and acts and acts[0][:2] == "04":
                z["sensor"] = acts[0]
            elif st not in (None, "own"):
                z["sensor"] = nid(st)
            if acts:
                z["actuators"] = acts
            if z:
                zones[f"{idx:02X}"] = z
        if zones:
            tcs["zones"] = zones
        parts = rng.choice([(), ("sensor",), ("hotwater_valve",), ("sensor", "hotwater_valve"),
                            ("sensor", "hotwater_valve", "heating_valve"), ("heating_valve",)])
        if parts:
            tcs["stored_hotwater"] = {p: nid("07" if p == "sensor" else "13") for p in parts}
        app = rng.choice([None, "13", "10"])
        if app:
            tcs["system"] = {"appliance_control": nid(app)}
        if rng.random() < 0.3:
            tcs["underfloor_heating"] = {nid("02"): {} for _ in range(rng.randint(1, 2))}
        if rng.random() < 0.05:  # (a TCS-level orphans list makes Gateway.start() raise - see the notes)
            tcs["orphans"] = [nid(rng.choice(["04", "13", "34", "22"])) for _ in range(rng.randint(1, 3))]
        out[c] = tcs
    out["main_tcs"] = rng.choice(ctls)
    if rng.random() < 0.4:
        out["orphans_heat"] = [nid(rng.choice(["04", "13", "34", "07", "10"])) for _ in range(rng.randint(1, 3))]
    return out


def schema_devs(sch: dict) -> list[str]:
    """The devices a schema names as zone / DHW sensors, actuators, valves, appliance control."""
    out: set[str] = set()
    for c, tcs in sch.items():
        if not isinstance(tcs, dict):
            continue
        for z in (tcs.get("zones") or {}).values():
            out |= {z["sensor"]} if z.get("sensor") else set()
            out |= set(z.get("actuators") or [])
        out |= set((tcs.get("stored_hotwater") or {}).values())
        out |= {tcs["system"]["appliance_control"]} if (tcs.get("system") or {}).get("appliance_control") else set()
    out |= {c for c, tcs in sch.items() if isinstance(tcs, dict)}     # ... and the controllers themselves
    return sorted(d for d in out if d)


# --------------------------------------------------------------------------------------
# judging


def classify(rec: dict, fail: tuple) -> tuple[str, str]:
    idx, clause = fail[0], fail[1]
    s = rec["steps"][idx - 1]
    cl = s["claim"]
    what_claim = f"{cl.get('k')}/{cl.get('role', '')}"
    if clause == "a_valid":
        path = ".".join(re.findall(r"\['([a-z_]+)'\]", s["valid_err"])) or "?"
        bad = ""
        m = re.search(r"data\['([0-9:]+)'\]\['zones'\]\['(\w\w)'\]\['sensor'\]", s["valid_err"])
        if m:
            bad = ":dev-type-" + (s["view"].get(m.group(1), {}).get("zones", {}).get(m.group(2), {}).get("sen", "??")[:2])
        key = f"C15a:invalid:{path}{bad}"
        what = f"the library's validator rejects the schema the gateway reports: {s['valid_err']}"
    elif clause == "b_reload":
        rel = s["reload"] if isinstance(s["reload"], dict) else {}
        if "error" in rel:
            aspect = "error:" + rel["error"].split(":")[0]
        else:
            a, b = _facts(s["view"]), _facts(rel)
            aspect = "controller" if set(a) != set(b) else next(
                (f for f in ("zones", "dhw", "app") if any(a[c][f] != b[c][f] for c in a)), "?")
        key = f"C15b:reload:{aspect}"
        what = (f"a fresh gateway configured with the reported schema reports a different one: "
                f"{json.dumps(s['view'])[:400]} vs {json.dumps(rel)[:400]}")
    else:
        key = f"C15{clause[0]}:{clause[2:]}:{what_claim}"
        what = f"{clause} fails after claim {json.dumps(cl)}: graph {json.dumps(s['graph'])[:600]}"
    return key, f"step {idx}: {what}"


def judge(chk: Check, recs: list[dict]) -> dict:
    items = [y.to_item(r) for r in recs]
    res = tlc.validate_batch("TopologyTrace", items, workers=2, timeout=900, chunk=300)
    by_kind: dict[str, int] = {}
    for i, fail in res["rejects"]:
        rec = recs[i]
        key, what = classify(rec, fail)
        job = rec["job"]
        oe = job.get("observe_every", 1)
        replay = {"claims": job.get("claims", [])[: max(fail[0] - 1, 0) * oe], "eavesdrop": job.get("eavesdrop", False),
                  "max_zones": job.get("max_zones"), "schema": job.get("schema"), "observe_every": oe,
                  "known_list": job.get("known_list"), "fail": list(fail)}
        chk.violation(key, what, replay)
        by_kind[f"{job['kind']}|{key}"] = by_kind.get(f"{job['kind']}|{key}", 0) + 1
    if by_kind:
        chk.note("rejected histories by kind|key: " + json.dumps(by_kind, sort_keys=True))
    return res


def selfcheck_judge(recs: list[dict], rejected: set[int]) -> int:
    base = next((r for i, r in enumerate(recs) if i not in rejected and len(r["steps"]) >= 3 and any(
        s["graph"]["devices"] and any(d["parent"] for d in s["graph"]["devices"].values())
        for s in r["steps"])), None)
    if base is None:
        raise tlc.MachineryFailure("no history with a parented device available for the judge self-check")
    it0 = y.to_item(base)
    k = next(i for i, s in enumerate(it0["steps"]) if any(d["parent"] for d in s["devices"]))

    def mut(fn) -> dict:
        it = json.loads(json.dumps(it0))
        it["steps"] = it["steps"][: k + 1]
        for s in it["steps"]:
            s["valid"], s["reloadErr"], s["reload"] = "", "", json.loads(json.dumps(s["view"]))
        fn(it["steps"])
        return it

    def invalid(st):
        st[-1]["valid"] = "MultipleInvalid: corrupted"

    def reload_differs(st):
        v = st[-1]["reload"]
        for c in v:
            for z in c["zones"]:
                z["sen"] = "34:999999"
                return
            c["app"] = "13:999999"
            return

    def two_places(st):  # the device is listed by a second parent as well
        s = st[-1]
        d = next(x for x in s["devices"] if x["parent"])
        sy = next(x for x in s["systems"] if x["ctl"] == d["ctl"])
        if sy["app"] != d["id"] and not d["parent"].endswith("_FF"):
            sy["app"] = d["id"]
        else:
            sy["dhw"]["hwv"] = d["id"]

    def moved(st):  # the device's parent changes in a further, unreported step
        s = json.loads(json.dumps(st[-1]))
        d = next(x for x in s["devices"] if x["parent"])
        old = d["parent"]
        for sy in s["systems"]:  # detach from every member list, then attach as appliance control
            for z in sy["zones"]:
                z["acts"] = [a for a in z["acts"] if a != d["id"]]
                z["childs"] = [a for a in z["childs"] if a != d["id"]]
                if z["sen"] == d["id"]:
                    z["sen"] = ""
            for f in ("sen", "hwv", "htv"):
                if sy["dhw"][f] == d["id"]:
                    sy["dhw"][f] = ""
            if sy["app"] == d["id"]:
                sy["app"] = ""
        sy = next(x for x in s["systems"] if x["ctl"] == d["ctl"])
        if old.endswith("_FF"):
            sy["dhw"]["hwv"], d["parent"] = d["id"], d["ctl"] + "_HW"
        else:
            sy["app"], d["parent"] = d["id"], d["ctl"] + "_FF"
        s["reported"] = False
        st.append(s)

    def out_of_range(st):
        for sy in st[-1]["systems"]:
            sy["maxZones"] = sy["maxZones"]
            for z in sy["zones"]:
                z["num"] = sy["maxZones"]
                return
        st[-1]["systems"][0]["maxZones"] += 1

    wants = [(invalid, "a_valid"), (reload_differs, "b_reload"), (two_places, "c_place"), (moved, "d_move"),
             (out_of_range, "c_range")]
    items = [mut(fn) for fn, _ in wants] + [mut(lambda st: None)]
    res = tlc.validate_batch("TopologyTrace", items, workers=1, timeout=300)
    got = {i: f[1] for i, f in res["rejects"]}
    for i, (_, clause) in enumerate(wants):
        if got.get(i) != clause:
            raise tlc.MachineryFailure(f"judge self-check: corrupted item {i} expected {clause}, got {got.get(i)}")
    if len(wants) in got:
        raise tlc.MachineryFailure(f"judge self-check: the uncorrupted item was rejected: {got[len(wants)]}")
    return len(wants)


# --------------------------------------------------------------------------------------


class TlcPhase:
    def __init__(self, tier: str, workers: int) -> None:
        self.tier, self.workers = tier, workers
        self.cov: dict[str, Any] = {"instances": {}, "states": 0, "transitions": 0}
        self.error: BaseException | None = None

    def run(self, name: str, cfg: str) -> None:
        r = tlc.run_tlc("MC_Topology", cfg, workers=self.workers, timeout=1500)
        self.cov["instances"][name] = {"cfg": cfg, "ok": r.ok, "violated": r.violated, "distinct": r.distinct,
                                       "generated": r.states, "depth": r.depth, "wall_s": round(r.wall_s, 1)}
        self.cov["states"] += r.distinct
        self.cov["transitions"] += r.states
        if not r.ok:
            raise tlc.MachineryFailure(f"TLC {cfg}: model clause failed / error: violated={r.violated} "
                                       f"errors={r.errors[:2]}\n{r.out[-1500:]}")

    def all(self) -> None:
        t0 = time.time()
        try:
            self.run("one_ctl_two_zones_five_devices", "MC_Topology_mz2.cfg")
            self.run("two_ctls_max_zones_1_four_devices", "MC_Topology.cfg")
            if self.tier == "thorough":
                self.run("two_ctls_two_zones_two_devices", "MC_Topology_c2z2.cfg")
        except BaseException as err:  # noqa: BLE001
            self.error = err
        self.cov["tlc_wall_s"] = round(time.time() - t0, 1)


def do_replay(path: str) -> None:
    obj = json.load(open(path))
    rp = obj.get("replay", obj)
    rec = y.run_history(rp.get("claims", []), eavesdrop=rp.get("eavesdrop", False), max_zones=rp.get("max_zones"),
                        schema=rp.get("schema"), observe_every=rp.get("observe_every", 1),
                        known_list=rp.get("known_list"))
    rec["job"] = rp
    if "load_error" in rec:
        print("the gateway refused the configuration:", rec["load_error"])
        return
    for i, s in enumerate(rec["steps"], 1):
        print(f"step {i}: claim {json.dumps(s['claim'])}")
        print(f"   schema view {json.dumps(s['view'])}")
        print(f"   validator: {s['valid_err'] or 'accepted'};  reload: "
              f"{'same' if _facts(s['reload']) == _facts(s['view']) else json.dumps(s['reload'])}")
        print(f"   reported: {s['loop_exc'] + s['logs']};  faked: {s['faked']}  {s['api_exc'] or ''}")
    res = tlc.validate_batch("TopologyTrace", [y.to_item(rec)], workers=1)
    print("TLC verdict:", res["rejects"] or "accepted")
    for _, fail in res["rejects"]:
        print("key:", classify(rec, fail)[0])


def main(tier: str, replay: str | None) -> None:
    if replay:
        do_replay(replay)
        return
    chk = Check(PID, tier, "model_checking")
    rng = random.Random(chk.seed)
    thorough = tier == "thorough"
    procs = 8 if thorough else 4
    mc = TlcPhase(tier, 6 if thorough else 3)
    import ramses_rf.schemas  # noqa: F401  (before the workers are forked)
    # the workers are forked first (no thread is running yet); the exhaustive instances then run beside everything
    # else - generating the histories, driving the gateway, judging - and are collected at the end
    pool = mp.get_context("fork").Pool(procs)
    th_mc = threading.Thread(target=mc.all)
    try:
        th_mc.start()
        recs, drive_wall, ctx = _explore(chk, rng, thorough, pool)
    finally:
        pool.terminate()
        pool.join()
    _conclude(chk, mc, th_mc, recs, drive_wall, ctx)


def _explore(chk: Check, rng: random.Random, thorough: bool, pool: Any) -> tuple[list[dict], float, dict]:
    # ---- histories out of TLC ------------------------------------------------------------
    n_sim = 300 if thorough else 30
    jobs: list[dict] = []
    graphs: dict[str, dict] = {}
    sims: dict[str, Any] = {}

    def sim(cfgfile: str) -> None:
        try:
            sims[cfgfile] = simulate(cfgfile, n_sim, chk.seed)
        except BaseException as err:  # noqa: BLE001
            sims[cfgfile] = err

    tc: dict[str, Any] = {}

    def tours() -> None:
        try:
            tc["tours"], tc["cov"] = [], []
            for cfgfile in (("MC_TopologyTC_bdr.cfg", "MC_TopologyTC_z3.cfg") if thorough else ("MC_TopologyTC.cfg",)):
                tours_, cov_ = transition_tours(cfgfile)
                tc["tours"] += tours_
                tc["cov"].append(cov_)
        except BaseException as err:  # noqa: BLE001
            tc["err"] = err

    ths = [threading.Thread(target=sim, args=(f,)) for f, _ in GEN_CFGS]
    ths.append(threading.Thread(target=tours))
    [t.start() for t in ths]
    [t.join() for t in ths]
    if "err" in tc:
        raise tc["err"]
    for cfgfile, eav in GEN_CFGS:
        if isinstance(sims[cfgfile], BaseException):
            raise sims[cfgfile]
        for states in sims[cfgfile]:
            claims = [y.claim_from_model(c) for c in plain(states[-1]["hist"])]
            model = [model_state(st) for st in states]
            # (the known_list dimension: nothing listed / the thermostats and the DHW sensor listed / listed as faked)
            jobs.append({"kind": "tlc-history", "claims": claims, "eavesdrop": eav, "max_zones": 2, "model": model,
                         "known_list": kl_variant(len(jobs), GEN_DEVS + sorted(model[0]["zones"]))})
            for m in model[1:]:
                sch = y.schema_from_model(m)
                if sch:
                    graphs.setdefault(json.dumps(sch, sort_keys=True), sch)
    n_hist = len(jobs)
    # every transition of the small instance, the tours taking turns in the three known_list settings
    for n, t in enumerate(tc["tours"]):
        jobs.append({"kind": "tlc-transition-tour", "claims": t["claims"], "eavesdrop": True, "max_zones": 2,
                     "model": t["model"],
                     "known_list": kl_variant(n, sorted(t["model"][0]["par"]) + sorted(t["model"][0]["zones"]))})
    jobs += directed_histories()
    jobs += ufc_histories()
    jobs += log_histories(rng, 120 if thorough else 10)
    # the same histories under other max_zones settings (contract only, the model instance is for 2)
    for j in rng.sample(jobs[:n_hist], min(len(jobs), 60 if thorough else 12)):
        jobs.append({"kind": "tlc-history-other-max-zones", "claims": j["claims"], "eavesdrop": j["eavesdrop"],
                     "max_zones": rng.choice([1, 3, 12, 16])})
    # ... and on a gateway that has a system of the other controller type (a 23: programmer) configured beside
    # (contract only: the programmer's system must stay as configured, the reported schema valid and re-loadable)
    if PRG[:2] in ctl_types():
        for j in rng.sample(jobs[:n_hist], min(n_hist, 60 if thorough else 12)):
            jobs.append({"kind": "tlc-history-beside-programmer", "claims": j["claims"], "eavesdrop": j["eavesdrop"],
                         "max_zones": 2, "schema": json.loads(json.dumps(PRG_SCHEMA)),
                         "known_list": kl_variant(len(jobs), GEN_DEVS + [PRG] + schema_devs(PRG_SCHEMA))})
    # ---- second driver: schemas from the model's graphs, and larger generated ones ---------
    keys = sorted(graphs)
    rng.shuffle(keys)
    from ramses_rf.schemas import SCH_GLOBAL_SCHEMAS
    n_rejected = 0
    for k in keys[: (400 if thorough else 50)]:
        try:
            SCH_GLOBAL_SCHEMAS(json.loads(k))
        except Exception:  # noqa: BLE001  (only validator-accepted schemas are in the quantifier)
            n_rejected += 1
            continue
        sch = graphs[k]
        if len(jobs) % 2:   # the controller-type dimension: the last controller is a 23: programmer instead
            last = sorted(c for c in sch if c != "main_tcs")[-1]
            if not any(z.get("sensor") == last for z in (sch[last].get("zones") or {}).values()):  # (SEN: 01 only)
                sch = json.loads(json.dumps(sch).replace(last, PRG))
        jobs.append({"kind": "tlc-graph-as-schema", "schema": sch, "max_zones": 2,
                     "eavesdrop": bool(rng.getrandbits(1)), "expect_view": y.schema_view(sch),
                     "known_list": kl_variant(len(jobs), GEN_DEVS + sorted(c for c in sch if c != "main_tcs"))})
    for _ in range(300 if thorough else 40):
        sch = gen_schema(rng)
        try:
            SCH_GLOBAL_SCHEMAS(sch)
        except Exception:  # noqa: BLE001
            n_rejected += 1
            continue
        jobs.append({"kind": "generated-schema", "schema": sch, "eavesdrop": bool(rng.getrandbits(1)),
                     "max_zones": rng.choice([None, 12, 16]), "expect_view": y.schema_view(sch),
                     "known_list": kl_variant(len(jobs), schema_devs(sch))})

    t0 = time.time()
    recs = pool.map(run_job, jobs, chunksize=2)
    return recs, round(time.time() - t0, 1), {"tc": tc, "graphs": graphs, "n_rejected": n_rejected}


def _conclude(chk: Check, mc: TlcPhase, th_mc: threading.Thread, recs: list[dict], drive_wall: float, ctx: dict) -> None:
    tc, graphs, n_rejected = ctx["tc"], ctx["graphs"], ctx["n_rejected"]
    refused = [r for r in recs if "load_error" in r]
    recs = [r for r in recs if "load_error" not in r]
    t0 = time.time()
    res = judge(chk, recs)
    n_self = selfcheck_judge(recs, {i for i, _ in res["rejects"]})
    judge_wall = round(time.time() - t0, 1)
    th_mc.join()
    if mc.error is not None:
        raise mc.error
    cov = mc.cov

    n_drift = 0
    for r in recs:
        for i, d in r["drift"]:
            n_drift += 1
            cl = r["steps"][i]["claim"] if i < len(r["steps"]) else {}
            chk.model_drift(f"{r['job']['kind']} step {i} claim {json.dumps(cl)[:160]}: {d}")
    kinds: dict[str, int] = {}
    for r in recs:
        kinds[r["job"]["kind"]] = kinds.get(r["job"]["kind"], 0) + 1
    refusals = sorted({r["load_error"].split(":")[0] for r in refused})
    samples = []
    for kind in ("tlc-history", "tlc-transition-tour", "directed-by-type", "log-history", "tlc-graph-as-schema", "generated-schema"):
        for r in [q for q in recs if q["job"]["kind"] == kind][:2]:
            samples.append({"kind": kind, "eavesdrop": r["eavesdrop"], "max_zones": r["max_zones"],
                            "src": r["job"].get("src"), "claims": r["claims"][:6], "schema_loaded": r["job"].get("schema"),
                            "final_view": r["steps"][-1]["view"], "steps": len(r["steps"]),
                            "reported_steps": sum(1 for s in r["steps"] if s["loop_exc"] or s["logs"])})
    chk.finish(
        coverage={
            "states": cov["states"],
            "transitions": cov["transitions"],
            "tlc_instances": cov["instances"],
            "traces_validated_against_impl": res["n"],
            "steps_judged": sum(len(r["steps"]) for r in recs),
            "steps_compared_with_model": sum(len(r["steps"]) for r in recs
                                             if r["job"]["kind"] in ("tlc-history", "tlc-transition-tour")),
            "transition_coverage": tc["cov"],
            "steps_with_a_faked_device": sum(1 for r in recs for s in r["steps"] if s["faked"]),
            "steps_with_a_faked_zone_or_dhw_sensor": sum(
                1 for r in recs for s in r["steps"]
                if set(s["faked"]) & ({z["sen"] for v in s["view"].values() for z in v["zones"].values()}
                                      | {v["dhw"]["sen"] for v in s["view"].values()})),
            "steps_after_an_empty_claim": sum(1 for r in recs for s in r["steps"]
                                              if s["claim"].get("k") == "devs" and not s["claim"].get("devs")),
            "steps_refused_and_reported": sum(1 for r in recs for s in r["steps"] if s["loop_exc"] or s["logs"]),
            "runs_by_kind": kinds,
            "distinct_model_graphs_as_schemas": len(graphs),
            "schemas_rejected_by_validator_not_loaded": n_rejected,
            "configurations_refused_at_load": len(refused),
            "load_refusal_types": refusals,
            "model_drift_steps": n_drift,
            "judge_selfcheck_corrupted_items_rejected": n_self,
            "drive_wall_s": drive_wall,
            "judge_wall_s": judge_wall,
            "tlc_wall_s": cov.get("tlc_wall_s"),
            "samples": samples,
        },
        assumptions=[
            "claims are the 0005 / 000C replies of controllers, and (eavesdropping) a thermostat's W|2309 to a "
            "controller; a controller is only named as a sensor of its own zones",
            "'reported' = an exception reached the loop's exception handler or a record >= WARNING was logged "
            "while the claim was processed",
            "clause b compares controllers, zones (class, sensor, actuators), DHW parts and appliance control; "
            "zones/controllers about which nothing but their existence is known are not compared "
            "(shrink() drops them on any reload) - resolved towards not alarming, see the notes",
            "a configuration the gateway refuses to load (exception from Gateway.start) has no reported schema "
            "and is only counted",
            "the configuration fed back is the reported schema with the known_list the gateway was given, plus "
            "'faked: true' for the devices the application has had faked since; what fake_device() raises to its "
            "caller is recorded, not judged",
        ],
    )


if __name__ == "__main__":
    main_wrapper(PID, main)

"""Single source for MANIFEST.json (tools/mkmanifest.py turns this into the manifest).

An entry with built=False is listed under not_applicable with `reason` until its check exists and
passes on the unchanged tree.
"""

NOT_BUILT = "check not built yet in this round (design in DESIGN.md §4); not claimed until it passes on the unchanged tree"

CHECKS: dict[str, dict] = {
    # pid: built, category, text, note, technique, design_ref
}


def entry(pid, built, category, text, note, technique, design_ref, reason=NOT_BUILT):
    CHECKS[pid] = dict(built=built, category=category, text=text, note=note, technique=technique,
                       design_ref=design_ref, reason=reason)


for _i in range(1, 21):
    entry(f"C{_i:02d}", False, "model_checking", "", "", "", f"DESIGN.md §4 C{_i:02d}")

_QOS_NOTE = ("Trusted: harness/vloop.py reproduces CPython 3.12's loop-iteration semantics; FakeTransport delivers packets "
             "via call_soon(pkt_received) like the real transports; echo/reply/foreign classification as discharged by C06. "
             "Bounds: TLC 2 callers x <=3 delivered packets x <=1 disconnect x <=1 write failure; real-code scenarios <=4 callers. "
             "A failed model invariant alone never raises a verdict (it is reported as MODEL-DRIFT); verdicts come from "
             "QosContract clauses evaluated by TLC on recorded executions of the real PortProtocol.")
_QOS_TECH = ("TLA+ model (spec/QosFsm.tla) checked by TLC; TLC behaviours replayed on the real PortProtocol by a directed "
             "event loop with state comparison at every iteration boundary; recorded executions validated by TLC against "
             "spec/QosContract.tla (trace validation)")
entry("C07", True, "model_checking",
      "Every send ends with its own echo/reply or a protocol error, within the caller's time-out: TLC explores all interleavings "
      "of the callback-grain model of ProtocolContext (callers, time-outs, echo/reply/duplicate/foreign packets, disconnect, "
      "write failure, coincident timers) for the invariants OwnPacket/NotFrozen/EndsIdle; the model is bound to the code by "
      "replaying TLC behaviours on the real protocol with stepwise state comparison, and thousands of systematic and seeded "
      "executions of the real code are judged by TLC against the contract clauses C07a-e.", _QOS_NOTE, _QOS_TECH, "DESIGN.md §4 C07-C09")
entry("C08", True, "model_checking",
      "Retry budget, back-off, no transmission after the answer, one command in flight, priority-then-FIFO start order: "
      "model invariants Budget/NoTimerLeak/NoWriteAfterAnswer under TLC, and contract clauses C08a-f evaluated by TLC on "
      "recorded executions of the real code (all max_retries, time-outs at the back-off coincidence points, loss patterns, "
      "queue orders with callers timing out while queued).", _QOS_NOTE, _QOS_TECH, "DESIGN.md §4 C07-C09")
entry("C09", True, "model_checking",
      "The sender never wedges: TLC shows NoTrip (every assertion site), NotFrozen (context lock), EndsIdle at quiescence for all "
      "bounded episodes of the model of the current code; every explored real execution ends idle/inactive with nothing in "
      "flight, no consistency check tripped, no loop exception, event-loop thread never blocked, and a probe send succeeds "
      "(clauses C09a-d). Stage gateway_life_cycle (also part of C07/C08): spec/GwyLife.tla models Engine.start()/stop(), the "
      "protocol's connection callbacks and futures, ports that die or stay silent (TLC: 5 instances, safety + liveness); a real "
      "Gateway is driven through stop / start-again / dying-port sequences - hand-written and taken from the model by "
      "-simulate - with callers using async_send_cmd() and send_cmd(); every execution is folded by TLC through the model's "
      "operators (GwyLifeTrace) and judged by the same contract.", _QOS_NOTE, _QOS_TECH, "DESIGN.md §4 C07-C09, §9.11")

_TBL_NOTE = ("Trusted: the ~10-line table dumpers / run-length encoder in the harness; TLC evaluating the spec operators; "
             "strings are sampled systematically (bounds in the evidence file), integer grids are exhaustive. "
             "The spec is thin here (DESIGN.md §6): TLA+ supplies the structured input space and the oracle as executable "
             "mathematics on integers and sequences; it does not reason about floating point, zlib or regex semantics.")
entry("C02", True, "translation_validation",
      "Frame text round-trips: TLC model-checks the print/parse laws of spec/FrameGrammar.tla over the whole abstract cross "
      "product (verbs x seqn x three legal address-set shapes x codes x lengths) and the write->replay identity of spec/PktLog.tla; "
      "the cross product is concretised (all device types, payload lengths 1..48) and run through the real Command / Packet / "
      "from_cli constructors and the real packet logger + FileTransport; every outcome row / session is validated by TLC.",
      _TBL_NOTE, "TLC model checking of the frame grammar + TLC table/trace validation of the real constructors and log replay",
      "DESIGN.md §4 C02")
entry("C03", True, "translation_validation",
      "Every constructor of the API map x argument class enumerated from spec/CmdApi.tla (decision tables for mode/until/duration, "
      "fragment numbering, bind dispatch, per-argument domains) is passed to the real constructor and the library's own decoder; "
      "TLC validates each row against clauses a-d (verb/code = map key, decoder accepts, values carried to wire resolution, "
      "out-of-domain arguments never yield a harmful frame).",
      _TBL_NOTE + " In-domain is read off the constructors' own checks/docstrings (J6).",
      "TLC-checked decision tables (spec/CmdApi.tla) + TLC table validation of real constructor/decoder outcomes", "DESIGN.md §4 C03")
entry("C04", True, "translation_validation",
      "Full I/O tables of the real scalar codecs (65,536 temperature words, all k/100 temperatures, 256 bytes x both percent "
      "resolutions, flag bytes, covering date/time sets incl. leap days and the DST bit, packed timestamps, all 2^24 device ids as "
      "run-length tables, schedule set-points) are validated row by row by TLC against the integer-grid codecs of "
      "spec/WireCodec.tla, whose inverse/sentinel/range laws TLC checks on the full grids.",
      _TBL_NOTE, "TLC model checking of integer-grid codec laws + TLC table validation of exhaustive tables of the real helpers",
      "DESIGN.md §4 C04")
entry("C06", True, "model_checking",
      "Echo/reply/near-miss relation of spec/Correlate.tla (header families incl. 0005/000C, 0404, 0418 null entry, 3220, 1FC9) is "
      "checked by TLC on all families x contexts x near-miss dimensions; every scenario is concretised and executed on the real "
      "Command/Packet headers and through the real PortProtocol.send_cmd (which packet is returned), plus the RQ/RP exchanges of "
      "the shipped logs; TLC validates every row.",
      "Trusted: harness FakeTransport/VLoop; payload templates for codes without a public constructor. Open dimensions (requester of "
      "a look-alike echo, addressee of a look-alike reply) are recorded, not judged.",
      "TLC model checking of the correlation relation + TLC validation of real header / send_cmd outcomes", "DESIGN.md §4 C06")
entry("C17", True, "model_checking",
      "Fragment reassembly (Schedule._update_payload_set) is transcribed in spec/SchedFrags.tla; TLC checks 'same schedule or none, "
      "never a mix' for all orders/duplicates/versions and two zones sharing the default payload set; every transition of the TLC "
      "state graph is replayed on real Schedule objects with real 0404 packets (drift check) and the clauses are evaluated by TLC on "
      "the recorded real histories; the codec half (schedule -> fragments -> schedule, fragment size, write commands decodable) is a "
      "TLC-validated table over all set-points, all 288 times, zones 00-0B and DHW.",
      "Assumes zlib's checksum rejects a mix of fragments of different versions (stated in DESIGN.md §6). Bounds: <=3 fragments, 2 versions, 2 zones.",
      "TLC model checking + per-transition conformance replay on the real Schedule + TLC trace/table validation", "DESIGN.md §4 C17")
entry("C19", True, "model_checking",
      "FaultLog._insert_into_map/_process_msg are transcribed expression by expression in spec/FaultLog.tla with a simulated "
      "controller log; TLC checks order / no-duplicate / subset / convergence-after-read-through / announcement-shift for all "
      "histories within bounds; every transition of the TLC state graph is replayed on the real FaultLog object with real 0418 "
      "messages (map compared = drift check), whole-Gateway runs cross-check the stub, and the property clauses are evaluated by TLC "
      "on the recorded public views of the real histories.",
      "Bounds: controller depth <=4 (quick) / 5 (thorough), <=7 events exhaustively; deeper histories (64-deep log) are sampled.",
      "TLC model checking + per-transition conformance replay on the real FaultLog + TLC trace validation", "DESIGN.md §4 C19")

_GW_NOTE = ("Trusted: harness fakes (FakeTransport / load_log_gateway / VDT virtual datetime) and the virtual-time loop; observations "
            "are taken at quiescence (J1). Histories are derived from the ~140 shipped logs by the stated operators with VERIF_SEED; "
            "bounds are in the evidence file.")
entry("C13", True, "model_checking",
      "spec/Engine.tla models pause / compute-or-replay (may raise anywhere) / resume for get_state and restore; TLC checks "
      "'running after every operation' for all raise points. Mutated histories from the shipped logs (deletion, duplication, "
      "reordering, splicing between systems, extreme field values, eavesdropping on/off) drive a real Gateway; after every k-th "
      "packet every public view of gateway/devices/systems/zones is read and get_state/restore invoked; the operation traces "
      "(view ok / exception type, engine projection, probe handled) are validated by TLC against EngineTrace.",
      _GW_NOTE, "TLC model checking of the engine automaton + TLC trace validation of real Gateway operation traces", "DESIGN.md §4 C13")
entry("C14", True, "model_checking",
      "spec/MsgStore.tla: latest-per-(entity, code, context) store with single and array message forms, a clock and lifetime "
      "thresholds; TLC checks freshness under all interleavings and the expiry laws (not before L, always from 2L + grace, monotone, "
      "then unknown). TLC behaviours are replayed into a real Gateway with real packets and every attribute compared after every "
      "step; _expired tables over the clock for every message kind and sync-cycle countdown are validated by TLC against the "
      "threshold function (lifetimes read from the code, J13).",
      _GW_NOTE, "TLC model checking + stepwise conformance replay on a real Gateway + TLC table validation of expiry", "DESIGN.md §4 C14")
entry("C16", True, "model_checking",
      "spec/Snapshot.tla: store + wanted-filter + replay-restore with equal timestamps and arrival-vs-timestamp order; TLC checks "
      "fixpoint, idempotence and content rules on small stores. Gateway states reached by prefixes / splices / deletions / "
      "duplications of the shipped logs go through the real get_state -> fresh Gateway -> restore -> get_state; operation traces "
      "(packet sets, schemas, re-decoded snapshot lines) are validated by TLC against SnapshotTrace.",
      _GW_NOTE, "TLC model checking + TLC trace validation of real snapshot/restore round trips", "DESIGN.md §4 C16")
entry("C18", True, "model_checking",
      "spec/SchedXfer.tla (await-grain): system-wide zone lock, change counter, per-fragment exchange, loss / delay / version bump "
      "between any two exchanges, caller cancellation at every await, set_schedule's try/else/finally; TLC checks that every "
      "transfer ends, never returns a mix of versions, leaves no lock behind, and that a follow-up transfer proceeds (incl. "
      "liveness). TLC fault schedules drive a real Gateway + scripted controller in virtual time; every execution is compared step "
      "by step with the model and its observable trace is validated by TLC against SchedXferTrace.",
      _GW_NOTE + " One-fragment schedules are avoided (they are C17's shared-default-set subject).",
      "TLC model checking (safety + liveness) + stepwise conformance + TLC trace validation on a real Gateway", "DESIGN.md §4 C18")
entry("C20", True, "model_checking",
      "spec/Binding.tla (integer-millisecond timed): respondent and supplicant contexts, per-state futures and 5.1 s timers, the "
      "5 s / 3 s waits, duplicates within one loop iteration, loss, delays around the deadlines, third-party offers, retry round; "
      "TLC checks success under duplicates, every attempt ending with the tuple or a binding error within its waits, not binding "
      "afterwards, retry possible. TLC schedules drive two real gateways with faked devices (DHW/RND->CTL, CO2/REM/DIS->FAN) on an "
      "in-memory ether in virtual time; outcomes are compared with the model's prediction and traces validated by TLC against "
      "BindingContract.",
      _GW_NOTE + " Loop exceptions during a binding are recorded, judged only through the clauses they break (J15).",
      "TLC model checking of the timed binding model + TLC trace validation of real two-gateway handshakes", "DESIGN.md §4 C20")

entry("C01", True, "model_checking",
      "spec/RxPipeline.tla models byte stream -> reads -> CRLF buffer -> lines -> {message, reject} -> delivery and the file/dict "
      "replay loop; TLC checks partition independence and 'a bad line never stops the stream' for all streams over a 5-symbol "
      "alphabet x all partitions into reads (incl. a cut between CR and LF, empty reads) and all placements of bad lines. Every "
      "(stream shape, partition, mutation operator) is concretised and fed to the real PortTransport._read_ready (FakeSerial on a "
      "socketpair), MqttTransport, FileTransport (log and dict) and Packet.from_* / Message; outcome traces (In / Outcome(kind, "
      "exception type) / Deliver / End) are validated by TLC against RxTrace. Line contents: every shipped log line, single/double "
      "edit mutants, regex-boundary payloads of every known verb/code.",
      "Trusted: harness/gen.py generators, FakeSerial/stub paho rigs. 'For all strings' is sampled systematically (bounds in evidence); "
      "stream shapes x partitions are exhaustive within the bound.",
      "TLC model checking of the receive pipeline + TLC trace validation of the real transports/decoder", "DESIGN.md §4 C01")
entry("C05", True, "model_checking",
      "spec/Decode.tla: the decoder as a pure function behind caches; TLC checks determinism under all orders / repeats / cache "
      "eviction and the array law; TLC histories are concretised with regex-generated packets of every known verb/code (arrays of "
      "1..8 elements next to each element alone, eviction bursts in between) and decoded by the real Message; outcome traces "
      "(JSON text, indexes, ranges) are validated by TLC against DecodeTrace.",
      "Trusted: harness/gen.py regex walker (payload members of the library's own CODES_SCHEMA regexes). Ranges are not judged for "
      "codes the library itself names unknown_*/message_*.",
      "TLC model checking of decode histories + TLC trace validation of real decodes", "DESIGN.md §4 C05")

entry("C10", True, "model_checking",
      "spec/DevFilter.tla states the filter rule as the property words it (block beats allow, gateway exemption, placeholder id when "
      "sending, enforcement only with a non-empty known list) next to a clause-by-clause transcription of _is_wanted_addrs; TLC "
      "checks that MustDrop/MustPass is a total, disjoint partition of every (configuration, source, destination, address shape, "
      "direction) and that the transcription equals the rule, and exports the complete row table. Every row is executed on the real "
      "objects at protocol level (PortProtocol, ReadProtocol), gateway level (handler + device creation, eavesdropping on/off), "
      "send level (gwy.async_send_cmd vs. write_frame), file replay and cache restore; the outcome table is judged by TLC against "
      "clauses a-d (DevFilterTrace).",
      "Trusted: harness fakes and the 9-id universe being representative of ids (one id per role: listed, unlisted, blocked, "
      "listed+blocked, gateway, foreign 18:, placeholder, broadcast, null). Python records outcomes only; expectations are TLC's.",
      "TLC model checking of the filter rule + TLC table validation of real protocol / gateway / send outcomes", "DESIGN.md §4 C10")
entry("C11", True, "model_checking",
      "spec/TxRegulator.tla models the duty-cycle wrapper as its real non-atomic steps (top-up, sleep, leak token, write, debit in "
      "finally) with concurrent writers, the leaky semaphore and integer time, spec/TxMqtt.tla the MQTT token bucket; TLC checks the "
      "shadow-bucket bound, write spacing, no loss / no duplicate, bounded termination, and (own instance) write order. TLC "
      "behaviours and designed arrival patterns (bursts, steady above/below the limit, idle gaps, concurrent callers, hours of air "
      "time, all frame lengths) run on the real PortTransport (FakeSerial, substituted perf_counter) and MqttTransport (stub paho); "
      "TLC judges every recorded write trace against clauses a-d, recomputing the bucket itself (TxTrace), and compares the code's "
      "own bucket with the model (drift).",
      "Trusted: FakeSerial / stub paho rigs, the substituted perf_counter. The long-run 1 % rate is judged as the windowed bound over "
      "<= 1 h windows (32-bit integers). Known finding: concurrent write_frame() callers can overtake each other (C11d).",
      "TLC model checking of the regulator + TLC trace validation of real transport write traces", "DESIGN.md §4 C11")
entry("C12", True, "model_checking",
      "spec/Discovery.tla models the controller configuration, the per-entity polling tables (await-grain pollers iterating a live "
      "dict), lossy RQ/RP exchanges, overtaking replies and the 0005/000C/000D/000E/010E/000F handlers; TLC checks that knowledge is "
      "sound and monotone always, that it equals the configuration once the polling round after the last loss is over, and "
      "eventual completeness under fairness, for all small configurations x loss placements. The same configurations and loss "
      "patterns (plus larger generated ones) drive a real Gateway with discovery enabled against a scripted controller in virtual "
      "time (24 h rounds); schema samples are judged by TLC against DiscoveryTrace (sound, monotone, complete by the round after "
      "the last loss).",
      _GW_NOTE + " Which RQs discovery sends is recorded, not judged. Exhaustive for <= 2 zones in the model, sampled for larger systems.",
      "TLC model checking (safety + liveness) + TLC trace validation of real Gateway discovery runs", "DESIGN.md §4 C12")
entry("C15", True, "model_checking",
      "spec/Topology.tla transcribes the accept/refuse rules that build the parent/child graph (set_parent/_get_parent/_add_child, "
      "zone creation and class promotion, 0005 masks, 000C roles, DHW and appliance slots, eavesdropped parents); TLC checks one "
      "controller and one zone/role per device, one sensor per zone, zone indexes in range and 'no silent move' under all claim "
      "orders. TLC behaviours are replayed as real 0005/000C/2309 frames through a real Gateway with the object graph compared "
      "after every step; histories from the model, from the library's own type tables and from the shipped logs (spliced, "
      "shuffled, repeated) are judged by TLC against TopologyTrace: validator accepts the schema, a fresh gateway reloads to the "
      "same graph, structural clauses, moves reported.",
      _GW_NOTE, "TLC model checking + stepwise conformance replay on a real Gateway + TLC trace validation", "DESIGN.md §4 C15")

"""Single source for MANIFEST.json (tools/mkmanifest.py turns this into the manifest).

An entry with built=False is listed under not_applicable with `reason` until its check exists and
passes on the unchanged tree.
"""

NOT_BUILT = "check not built yet in this round (design in DESIGN.md §4); not claimed until it passes on the unchanged tree"

CHECKS: dict[str, dict] = {
    # pid: built, category, text, note, technique, design_ref
}


def entry(pid, built, category, text, note, technique, design_ref, reason=NOT_BUILT):
    CHECKS[pid] = dict(built=built, category=category, text=text, note=note, technique=technique,
                       design_ref=design_ref, reason=reason)


for _i in range(1, 21):
    entry(f"C{_i:02d}", False, "model_checking", "", "", "", f"DESIGN.md §4 C{_i:02d}")

"""Single source for MANIFEST.json (tools/mkmanifest.py turns this into the manifest).

An entry with built=False is listed under not_applicable with `reason` until its check exists and
passes on the unchanged tree.
"""

NOT_BUILT = "check not built yet in this round (design in DESIGN.md §4); not claimed until it passes on the unchanged tree"

CHECKS: dict[str, dict] = {
    # pid: built, category, text, note, technique, design_ref
}


def entry(pid, built, category, text, note, technique, design_ref, reason=NOT_BUILT):
    CHECKS[pid] = dict(built=built, category=category, text=text, note=note, technique=technique,
                       design_ref=design_ref, reason=reason)


for _i in range(1, 21):
    entry(f"C{_i:02d}", False, "model_checking", "", "", "", f"DESIGN.md §4 C{_i:02d}")

_QOS_NOTE = ("Trusted: harness/vloop.py reproduces CPython 3.12's loop-iteration semantics; FakeTransport delivers packets "
             "via call_soon(pkt_received) like the real transports; echo/reply/foreign classification as discharged by C06. "
             "Bounds: TLC 2 callers x <=3 delivered packets x <=1 disconnect x <=1 write failure; real-code scenarios <=4 callers. "
             "A failed model invariant alone never raises a verdict (it is reported as MODEL-DRIFT); verdicts come from "
             "QosContract clauses evaluated by TLC on recorded executions of the real PortProtocol.")
_QOS_TECH = ("TLA+ model (spec/QosFsm.tla) checked by TLC; TLC behaviours replayed on the real PortProtocol by a directed "
             "event loop with state comparison at every iteration boundary; recorded executions validated by TLC against "
             "spec/QosContract.tla (trace validation)")
entry("C07", True, "model_checking",
      "Every send ends with its own echo/reply or a protocol error, within the caller's time-out: TLC explores all interleavings "
      "of the callback-grain model of ProtocolContext (callers, time-outs, echo/reply/duplicate/foreign packets, disconnect, "
      "write failure, coincident timers) for the invariants OwnPacket/NotFrozen/EndsIdle; the model is bound to the code by "
      "replaying TLC behaviours on the real protocol with stepwise state comparison, and thousands of systematic and seeded "
      "executions of the real code are judged by TLC against the contract clauses C07a-e.", _QOS_NOTE, _QOS_TECH, "DESIGN.md §4 C07-C09")
entry("C08", True, "model_checking",
      "Retry budget, back-off, no transmission after the answer, one command in flight, priority-then-FIFO start order: "
      "model invariants Budget/NoTimerLeak/NoWriteAfterAnswer under TLC, and contract clauses C08a-f evaluated by TLC on "
      "recorded executions of the real code (all max_retries, time-outs at the back-off coincidence points, loss patterns, "
      "queue orders with callers timing out while queued).", _QOS_NOTE, _QOS_TECH, "DESIGN.md §4 C07-C09")
entry("C09", True, "model_checking",
      "The sender never wedges: TLC shows NoTrip (every assertion site), NotFrozen (context lock), EndsIdle at quiescence for all "
      "bounded episodes of the model of the current code; every explored real execution ends idle/inactive with nothing in "
      "flight, no consistency check tripped, no loop exception, event-loop thread never blocked, and a probe send succeeds "
      "(clauses C09a-d).", _QOS_NOTE, _QOS_TECH, "DESIGN.md §4 C07-C09")

"""C05 - Decoded payloads are JSON-able, deterministic, element-wise and index-consistent.

  bin/check C05 quick|thorough          bin/check C05 --replay /verif/replays/C05/<hash>.json

1. TLC model-checks spec/Decode.tla (MC_Decode.cfg): a keyed LRU cache in front of a pure function, all
   orders/repeats of <= 4 decodes of 3 packets with eviction bursts; MC_Decode_collide.cfg (cache keyed on
   too little) must fail - the model's own sensitivity check.
2. Every history of the model (-dump) is concretised with packets from harness/gen.py - regex-generated
   payloads of every known verb/code under the corpus' and all legal address shapes, the corpus frames,
   arrays of 1..8 independently generated elements of the array-capable codes together with each element
   as a packet of its own - and executed on the real Packet/Message; an eviction burst is 300 decodes of
   distinct address sets/payloads (or cache_clear() of every lru cache of ramses_tx, for speed).
3. TLC judges every recorded history (spec/DecodeTrace.tla): a JSON, b determinism, c index law,
   d array law, e ranges.  Python only records.
"""
from __future__ import annotations

import hashlib
import json
import os
import random
import shutil
import sys
import tempfile
import time
from datetime import datetime as dt, timedelta as td
from typing import Any

from harness import fakes, gen, tlc
from harness import ext_c01 as rx
from harness.report import Check, main_wrapper

PID = "C05"
IDX_KEYS = ("zone_idx", "domain_id", "ufh_idx", "ufx_idx", "dhw_idx")
RATIO_KEYS = {"modulation_level", "max_rel_modulation", "battery_level", "air_quality", "bypass_position",
              "post_heat", "pre_heat", "demand", "percentage", "percent_remaining", "fan_rate"}
TEMP_KEYS = {"setpoint", "setpoint_now", "setpoint_next", "setpoint_bounds", "temperatures", "ch_setpoint"}

BOUNDS = {
    "quick": dict(neighbours=3, related_per_pair=6, schema_rand=2, every_shape=False, max_profiles=2, arr_per_len=2, real_bursts=400, workers=4,
                  corpus_reps=1),
    "thorough": dict(neighbours=100, related_per_pair=150, schema_rand=36, every_shape=True, max_profiles=None, arr_per_len=30, real_bursts=12000,
                     workers=8, corpus_reps=3),
}


def key_class(key: str) -> str:
    k = key.lower()
    if k in RATIO_KEYS or k.endswith(("_demand", "_humidity", "fan_speed")) or k.startswith("percent"):
        return "ratio"
    if "temp" in k or k in TEMP_KEYS:
        return "temp"
    return ""


def digest(x: Any) -> str:
    return hashlib.sha1(x.encode()).hexdigest()[:16]


def leaves(x: Any, key: str = ""):
    if isinstance(x, dict):
        for k, v in x.items():
            yield from leaves(v, k if isinstance(k, str) else str(k))
    elif isinstance(x, (list, tuple)):
        for v in x:
            yield from leaves(v, key)
    else:
        yield key, x


class JumpClock(dt):
    """datetime whose now() leaps 1 h 13 min on every call: substituted for the `dt` name of
    ramses_tx.parsers / ramses_tx.helpers so that any use of the wall clock in a parser shows up as a
    non-repeatable decode (clause b: 'no dependence on clock')."""

    _calls = 0

    @classmethod
    def now(cls, tz=None):  # type: ignore[override]
        cls._calls += 1
        return dt(2031, 5, 17, 3, 0, 0) + td(minutes=73 * cls._calls)


def install_jump_clock() -> list[str]:
    import ramses_tx.helpers as H
    import ramses_tx.parsers as P

    done = []
    for mod in (P, H):
        if getattr(mod, "dt", None) is dt:
            mod.dt = JumpClock  # type: ignore[attr-defined]
            done.append(mod.__name__)
    if hasattr(H, "dt_now"):
        for mod in (P, H):
            if hasattr(mod, "dt_now"):
                mod.dt_now = JumpClock.now  # type: ignore[attr-defined]
    return done


class Decoder:
    """Runs the real decoder and records what DecodeTrace needs."""

    def __init__(self) -> None:
        from ramses_tx.message import Message
        from ramses_tx.packet import Packet

        self.Message, self.Packet = Message, Packet
        self.arr = gen.array_codes()
        self.t0 = dt(2026, 1, 1, 12, 0, 0)
        self.n = 0
        self.ndec = self.nok = 0
        self.first: dict[str, tuple[dict, Any]] = {}   # frame -> (event, dtm) of its first decode in this process
        self.caches = self._find_caches()
        from ramses_tx.ramses import CODES_SCHEMA

        self.names = {str(k): str(v.get("name", "")) for k, v in CODES_SCHEMA.items()}
        self.rng_skipped: dict[str, int] = {}
        self.clock_patched = install_jump_clock()
        rng = random.Random(99)
        self.burst = [f"RP --- 01:{100000 + i:06d} 18:{200000 + 7 * i:06d} --:------ 30C9 003 00{rng.randrange(0x0F00):04X}"
                      for i in range(300)]
        self.real_bursts = self.clear_bursts = 0

    @staticmethod
    def _find_caches() -> list:
        import ramses_tx

        out = []
        for name, mod in sorted(sys.modules.items()):
            if name.startswith("ramses_tx") and mod is not None:
                for attr, obj in vars(mod).items():
                    if callable(getattr(obj, "cache_clear", None)) and obj not in out:
                        out.append(obj)
        return out

    def evict(self, real: bool) -> None:
        if real:
            self.real_bursts += 1
            for f in self.burst:
                try:
                    self.Message(self.Packet.from_port(self.t0, f"000 {f}"))
                except Exception:  # noqa: BLE001 - burst traffic only
                    pass
        else:
            self.clear_bursts += 1
            for c in self.caches:
                c.cache_clear()

    def decode(self, frame: str, pid: int, item_no: int = 0, dtm: Any = None) -> tuple[dict, dict]:
        used = dtm if dtm is not None else self.t0 + td(seconds=3607 * item_no)
        e, info = self._decode(frame, pid, item_no, dtm)
        if frame not in self.first:
            self.first[frame] = (dict(e), used)
        return e, info

    def _decode(self, frame: str, pid: int, item_no: int = 0, dtm: Any = None) -> tuple[dict, dict]:
        """One decode of `frame` (a fresh Packet object at a fresh timestamp).  Returns (event, info)."""
        self.n += 1
        self.ndec += 1
        given = dtm
        # a packet = frame text + its own timestamp (1F09/2249/313E payloads are relative to msg.dtm): all
        # packets of one history carry the same timestamp (an array and its elements are compared), the
        # same packet keeps it across repeats; the wall clock meanwhile jumps (JumpClock)
        dtm = given if given is not None else self.t0 + td(seconds=3607 * item_no)
        v, _s, _a0, _a1, _a2, code, _l, payload = gen.frame_fields(frame)
        e: dict[str, Any] = {"t": "dec", "p": pid, "ok": 0, "json": 0, "js": "", "code": code,
                             "b0": payload[0:2], "b1": payload[2:4], "b2": payload[4:6], "arr": 0,
                             "els": [], "idx": [], "eb": [], "rng": []}
        info: dict[str, Any] = {}
        try:  # the three packet constructors take turns: the same packet must decode the same through each
            k = self.n % 3
            if k == 0:
                pkt = self.Packet.from_port(dtm, f"045 {frame}")
            elif k == 1:
                pkt = self.Packet.from_file(dtm.isoformat(timespec="microseconds"), f"045 {frame}")
            else:
                pkt = self.Packet.from_dict(dtm.isoformat(timespec="microseconds"), f"045 {frame}")
            if self.n % 4 == 3:
                # every fourth decode is the *second* decode of one Packet object (what the object memoised during
                # the first - header, context, array-ness - must not change the answer), reached through the
                # header first, as the QoS machinery does
                try:
                    _ = pkt._hdr
                    self.Message(pkt)
                except Exception:  # noqa: BLE001 - the first answer is not the one recorded here
                    pass
            msg = self.Message(pkt)
        except Exception as err:  # noqa: BLE001 - a rejected packet is outside C05 (C01 judges the type)
            info["rej"] = type(err).__name__
            return e, info
        self.nok += 1
        pl = msg.payload
        e["ok"] = 1
        try:
            txt = json.dumps(pl, sort_keys=True, allow_nan=False)
            e["json"] = 1
        except Exception as err:  # noqa: BLE001
            txt = repr(pl)
            info["json_err"] = f"{type(err).__name__}: {err}"[:120]
        e["js"] = digest(txt)
        info["payload"] = txt[:400]
        elems = pl if isinstance(pl, list) else [pl]

        def jd(x: Any) -> str:
            try:
                return digest(json.dumps(x, sort_keys=True, allow_nan=False))
            except Exception:  # noqa: BLE001
                return digest(repr(x))

        e["els"] = [jd(x) for x in elems]
        if isinstance(pl, list) and code in self.arr:
            elen = self.arr[code][0] * 2
            if len(pl) * elen <= len(payload):
                e["arr"] = 1
                e["eb"] = [payload[i * elen: i * elen + 2] for i in range(len(pl))]
        if isinstance(pl, dict) or e["arr"]:
            for pos, el in enumerate(elems, 1):
                if isinstance(el, dict):
                    for k in IDX_KEYS:
                        if k in el and isinstance(el[k], str):
                            e["idx"].append([pos, el[k]])
                            info.setdefault("idx_keys", []).append(k)
        guessed = self.names.get(code, "unknown_").startswith(("unknown_", "message_"))
        for k, val in leaves(pl):
            if isinstance(val, bool) or not isinstance(val, (int, float)):
                continue
            cls = key_class(k)
            if cls and guessed:  # the library itself does not know what this code's bytes mean: the key
                self.rng_skipped[f"{code}:{k}"] = self.rng_skipped.get(f"{code}:{k}", 0) + 1  # names
                continue  # (percent_4, temperature_0 ...) are placeholders, not claims - not judged
            if cls and val == val and abs(val) < 2e6:
                e["rng"].append([cls, int(round(val * 1000))])
                info.setdefault("rng_keys", []).append(k)
        return e, info


def evict_event() -> dict:
    return {"t": "evict", "p": 0, "ok": 0, "json": 0, "js": "", "code": "", "b0": "", "b1": "", "b2": "",
            "arr": 0, "els": [], "idx": [], "eb": [], "rng": []}


# --------------------------------------------------------------------------------------
# inputs


def element_pool(code: str, elen: int, rng: random.Random, n_random: int) -> list[str]:
    from ramses_tx.ramses import CODES_SCHEMA

    rgx = CODES_SCHEMA[code][" I"]
    out: dict[str, None] = {}
    for m in gen.regex_members(rgx, rng, n_random):
        for i in range(0, len(m) - elen * 2 + 1, elen * 2):
            el = m[i: i + elen * 2]
            import re

            if re.match(rgx, el):
                out.setdefault(el)
    return list(out)


def array_cases(b: dict, rng: random.Random) -> list[dict]:
    """[{code, src, elements}] - arrays of 1..8 independently drawn elements per array-capable code."""
    cases = []
    for code, (elen, types) in gen.array_codes().items():
        if code == "0005":  # zone-mask lists are not per-zone element arrays (not in the property's list)
            continue
        pool = element_pool(code, elen, rng, 8)
        for t in types:
            for n in range(1, 9):
                for _ in range(b["arr_per_len"]):
                    els = [rng.choice(pool) for _ in range(n)]
                    cases.append({"code": code, "src": gen.dev_id(t, rng), "elements": els})
    return cases


def histories(tmp: str, workers: int) -> tuple[list[tuple], dict]:
    d = os.path.join(tmp, "hist")
    r = tlc.run_tlc("MC_Decode", "MC_Decode.cfg", workers=workers, dump=d, timeout=600)
    if not r.ok:
        raise tlc.MachineryFailure(f"MC_Decode: {r.violated} {r.errors[:2]}\n{r.out[-1500:]}")
    r2 = tlc.run_tlc("MC_Decode", "MC_Decode_collide.cfg", workers=2, timeout=600)
    if "Deterministic" not in r2.violated:
        raise tlc.MachineryFailure("MC_Decode_collide: the model no longer detects a cache keyed on too little")
    hs = sorted({s["h"] for s in tlc.read_dump(d) if sum(1 for x in s["h"] if x[0] == "dec") >= 2
                 and s["h"][-1][0] == "dec"}, key=lambda h: (len(h), str(h)))
    os.unlink(d + ".dump")
    mc = {"states": r.distinct, "transitions": r.states,
          "instances": [{"cfg": "MC_Decode.cfg", "generated": r.states, "distinct": r.distinct, "depth": r.depth,
                         "violated": []},
                        {"cfg": "MC_Decode_collide.cfg (sensitivity, must fail)", "generated": r2.states,
                         "distinct": r2.distinct, "violated": r2.violated}]}
    return hs, mc


# --------------------------------------------------------------------------------------


def _iso_decode(arg: tuple[str, int, str]) -> tuple[dict, dict]:
    """Runs in a process forked from the (still clean) parent for this one packet: the decode nothing precedes."""
    frame, pid, dtm_iso = arg
    fakes.quiet_logging()
    return Decoder().decode(frame, pid, dtm=dt.fromisoformat(dtm_iso))


def time_sibling_oracle(frames: list[str], procs: int) -> dict[tuple[str, str], tuple[dict, dict]]:
    """{(frame, dtm) -> isolated decode} for every frame at two timestamps; must run before the parent decodes
    anything (every worker is forked afresh from the parent: maxtasksperchild=1)."""
    import multiprocessing as mp

    jobs = [(f, k, d) for f in frames for k, d in ((1, T_SIB[0]), (2, T_SIB[1]))]
    with mp.get_context("fork").Pool(procs, maxtasksperchild=1) as pool:
        res = pool.map(_iso_decode, jobs, chunksize=1)
    return {(f, d): r for (f, _k, d), r in zip(jobs, res)}


T_SIB = ("2026-03-01T08:00:00.000000", "2026-03-01T08:47:13.500000")


def run_time_siblings(dec: Decoder, frame: str, oracle: dict) -> dict:
    """The same frame received twice, 47 minutes apart (two different packets): each is decoded in the parent, in
    between the other, and compared (clause b) with its decode in a process where nothing was decoded before."""
    t1, t2 = (dt.fromisoformat(x) for x in T_SIB)
    evs = [oracle[frame, T_SIB[0]][0], dec.decode(frame, 1, dtm=t1)[0], dec.decode(frame, 2, dtm=t2)[0],
           oracle[frame, T_SIB[1]][0], dec.decode(frame, 1, dtm=t1)[0], dec.decode(frame, 2, dtm=t2)[0]]
    item = {"np": 2, "rel": [], "ev": evs}
    return {"item": item, "meta": {"frames": {"A": frame, "B": frame}, "time_siblings": list(T_SIB),
                                   "hist": [["iso", "A"], ["dec", "A"], ["dec", "B"], ["iso", "B"], ["dec", "A"], ["dec", "B"]],
                                   "rel": [], "infos": {"A": oracle[frame, T_SIB[0]][1]}, "real_burst": False}}


def run_item(dec: Decoder, hist: tuple, frames: dict[str, str], rel: list[dict], real_burst: bool) -> dict:
    """Execute one history.  frames: {"A": frame, ...}; ids A=1, B=2, C=3, further ids for array elements."""
    ids = {name: i for i, name in enumerate(sorted(frames), 1)}
    evs, infos = [], {}
    dec.items = getattr(dec, "items", 0) + 1
    for step in hist:
        if step[0] == "evict":
            dec.evict(real_burst)
            evs.append(evict_event())
        else:
            name = step[1]
            e, info = dec.decode(frames[name], ids[name], dec.items)
            evs.append(e)
            infos.setdefault(name, info)
    item = {"np": len(ids), "rel": [{"arr": ids[r["arr"]], "elems": [ids[x] for x in r["elems"]]} for r in rel],
            "ev": evs}
    return {"item": item, "meta": {"frames": frames, "hist": [list(s) for s in hist], "rel": rel, "infos": infos,
                                   "real_burst": real_burst}}


def held_histories(rng: random.Random, n_random: int) -> list[list[str]]:
    """Packet-log sessions in which a controller / UFH controller sends its per-zone arrays in several packets within the
    3 s in which the gateway merges them (gateway.Gateway._msg_handler + dispatcher.detect_array_fragment), among other
    traffic.  What an application was handed must not change afterwards."""
    CTL, UFC = "01:145038", "02:044446"
    t0 = dt(2024, 2, 11, 9, 0, 0)

    def arr(code: str, src: str, zones: list[int], elem) -> str:
        p = "".join(elem(z) for z in zones)
        return f" I --- {src} --:------ {src} {code} {len(p) // 2:03d} {p}"

    e000a = lambda z: f"{z:02X}1001F40DAC"          # noqa: E731
    e2309 = lambda z: f"{z:02X}07D0"                # noqa: E731
    e30c9 = lambda z: f"{z:02X}0834"                # noqa: E731
    e22c9 = lambda z: f"{z:02X}076C0A2801"          # noqa: E731
    hists: list[list[tuple[float, str]]] = []
    splits = [[8, 2, 1], [8, 3], [4, 4, 4], [1, 1, 1], [6, 1]]
    for code, src, el in (("000A", CTL, e000a), ("22C9", UFC, e22c9), ("2309", CTL, e2309), ("30C9", CTL, e30c9)):
        for sp in splits:
            h, t, z = [(0.0, f" I --- {CTL} --:------ {CTL} 1F09 003 FF073F")], 1.0, 0
            for n in sp:
                h.append((t, arr(code, src, list(range(z, z + n)), el)))
                z += n
                t += rng.choice((0.05, 0.4, 1.2, 2.9))
            h.append((t + 5.0, f" I --- 04:189078 --:------ {CTL} 30C9 003 0007D0"))
            h.append((t + 5.5, arr(code, src, [0, 1], el)))           # a later, complete, shorter array
            hists.append(h)
    for _ in range(n_random):
        h, t = [], 0.0
        for _j in range(rng.randint(3, 12)):
            code, src, el = rng.choice((("000A", CTL, e000a), ("22C9", UFC, e22c9), ("2309", CTL, e2309), ("30C9", CTL, e30c9)))
            z0 = rng.randint(0, 8)
            h.append((t, arr(code, src, list(range(z0, z0 + rng.randint(1, 4))), el)))
            t += rng.choice((0.05, 0.5, 2.9, 3.1, 10.0))
        hists.append(h)
    return [[f"{(t0 + td(seconds=t)).isoformat(timespec='microseconds')} 045 {f}\n" for t, f in h] for h in hists]


def run_held(lines: list[str]) -> dict:
    """Replay `lines` through a real Gateway; every message handed to the application is kept; its payload is digested
    when it is handed over and once more after the whole session.  Returns a DecodeTrace item (clause b)."""
    import asyncio

    from harness import vloop

    held: list[tuple[Any, str, str]] = []

    def dg(pl: Any) -> str:
        try:
            return digest(json.dumps(pl, sort_keys=True, allow_nan=False))
        except Exception:  # noqa: BLE001
            return digest(repr(pl))

    async def go() -> None:
        from ramses_rf import Gateway

        fd, path = tempfile.mkstemp(suffix=".log", prefix="c05held_")
        os.write(fd, "".join(lines).encode())
        os.close(fd)
        fh = open(path)
        try:
            gwy = Gateway(None, input_file=fh, config={"disable_discovery": True, "enforce_known_list": False})
            gwy.add_msg_handler(lambda m: held.append((m, dg(m.payload), str(m._pkt._frame))))
            await gwy.start()
            await gwy._protocol.wait_for_connection_lost()
            for _ in range(12):
                await asyncio.sleep(0)
            await gwy.stop()
        finally:
            fh.close()
            os.unlink(path)

    vloop.run(go)

    def evt(p: int, frame: str, js: str) -> dict:
        pl = frame.split()[-1]
        return {"t": "dec", "p": p, "ok": 1, "json": 1, "js": js, "code": frame.split()[-3], "b0": pl[0:2], "b1": pl[2:4],
                "b2": pl[4:6], "arr": 0, "els": [], "idx": [], "eb": [], "rng": []}

    evs = [evt(i, f, js) for i, (_m, js, f) in enumerate(held, 1)]
    evs += [evt(i, f, dg(m.payload)) for i, (m, _js, f) in enumerate(held, 1)]
    frames = {f"M{i:03d}": f for i, (_m, _js, f) in enumerate(held, 1)}
    return {"item": {"np": max(1, len(held)), "rel": [], "ev": evs},
            "meta": {"frames": frames, "hist": [["held-by-application", "re-read after the session"]], "rel": [], "infos": {},
                     "real_burst": False, "held": lines}}


def judge(chk: Check, recs: list[dict], workers: int, stats: dict) -> None:
    res = rx.validate_batch("DecodeTrace", [r["item"] for r in recs], workers=workers, chunk=2500, timeout=1500)
    stats["trace_states"] = stats.get("trace_states", 0) + res["states"]
    stats["trace_items"] = stats.get("trace_items", 0) + res["n"]
    for idx, fail in res["rejects"]:
        rec = recs[idx]
        item, meta = rec["item"], rec["meta"]
        ids = {i: name for i, name in enumerate(sorted(meta["frames"]), 1)}
        stats["rejected"] = stats.get("rejected", 0) + 1
        for ln, clause in fail[2]:
            replay = {"frames": meta["frames"], "hist": meta["hist"], "rel": meta["rel"],
                      "real_burst": meta["real_burst"]}
            if "held" in meta:
                e = item["ev"][ln - 1]
                f = meta["frames"][ids[e["p"]]]
                chk.violation(f"b:{e['code']}/{f[:2].strip()}:held-message",
                              f"the payload of the message of {f!r}, as handed to the application by a real Gateway, read differently "
                              f"after the packets that followed it (clause {clause})", {"held": meta["held"]})
                continue
            if clause == "d":
                r0 = meta["rel"][0]
                f = meta["frames"][r0["arr"]]
                code = gen.frame_fields(f)[5]
                chk.violation(f"d:{code}:src{gen.shape_of(*gen.frame_fields(f)[2:5])[1][:2]}",
                              f"array frame {f!r} does not decode to the list of its elements' own decodes",
                              replay)
                continue
            e = item["ev"][ln - 1]
            f = meta["frames"][ids[e["p"]]]
            verb, code = f[:2], e["code"]
            info = meta["infos"].get(ids[e["p"]], {})
            if clause == "a":
                chk.violation(f"a:{code}/{verb.strip()}", f"payload of {f!r} is not JSON-serialisable: "
                              f"{info.get('json_err')}", replay)
            elif clause == "b":
                chk.violation(f"b:{code}/{verb.strip()}", f"{f!r} decoded differently on a repeat "
                              f"(history {meta['hist']})", replay)
            elif clause == "c":
                chk.violation(f"c:{code}/{verb.strip()}:{','.join(sorted(set(info.get('idx_keys', []))))}",
                              f"{f!r} reports index {e['idx']} but the frame carries b0={e['b0']} eb={e['eb']}",
                              replay)
            elif clause == "e":
                bad = [k for k, (c, v) in zip(info.get("rng_keys", []), e["rng"])
                       if (c == "ratio" and not 0 <= v <= 1000) or (c == "temp" and not -327680 <= v <= 327670)]
                chk.violation(f"e:{code}/{verb.strip()}:{','.join(sorted(set(bad)))}",
                              f"{f!r}: out-of-range {bad} in {info.get('payload')}", replay)
            else:
                raise tlc.MachineryFailure(f"DecodeTrace: unknown clause {clause}")


def canaries(recs: list[dict], stats: dict) -> None:
    """Corrupted copies of accepted recorded histories must be rejected under the expected clause."""
    import copy

    def has_ok_repeat(it: dict) -> bool:
        ps = [e["p"] for e in it["ev"] if e["t"] == "dec" and e["ok"] == 1]
        return len(set(ps)) < len(ps)

    base = next((r["item"] for r in recs if not r["item"]["rel"] and has_ok_repeat(r["item"])
                 and any(e["idx"] for e in r["item"]["ev"])), None)
    arr = next((r["item"] for r in recs if r["item"]["rel"] and all(e["ok"] == 1 for e in r["item"]["ev"] if e["t"] == "dec")), None)
    if base is None or arr is None:
        raise tlc.MachineryFailure("canaries: no suitable accepted history recorded")
    items, expect = [base, arr], [None, None]

    def mutate(b0: dict, fn, clause: str) -> None:
        it = copy.deepcopy(b0)
        fn(it)
        items.append(it)
        expect.append(clause)

    def last_repeat(it: dict) -> dict:
        seen = set()
        for e in it["ev"]:
            if e["t"] == "dec" and e["ok"] == 1:
                if e["p"] in seen:
                    return e
                seen.add(e["p"])
        raise tlc.MachineryFailure("canary: no repeat")

    mutate(base, lambda it: last_repeat(it).__setitem__("js", "0" * 16), "b")
    mutate(base, lambda it: last_repeat(it).__setitem__("ok", 0), "b")
    mutate(base, lambda it: next(e for e in it["ev"] if e["ok"] == 1).__setitem__("json", 0), "a")
    mutate(base, lambda it: next(e for e in it["ev"] if e["idx"]).__setitem__("idx", [[1, "0Z"]]), "c")
    mutate(base, lambda it: next(e for e in it["ev"] if e["ok"] == 1).__setitem__("rng", [["ratio", 1005]]), "e")
    mutate(base, lambda it: next(e for e in it["ev"] if e["ok"] == 1).__setitem__("rng", [["temp", -327690]]), "e")

    def swap_els(it: dict) -> None:
        a = it["rel"][0]["arr"]
        for e in it["ev"]:
            if e["t"] == "dec" and e["p"] == a:
                e["els"] = list(reversed(e["els"])) if len(set(e["els"])) > 1 else e["els"] + ["x"]

    mutate(arr, swap_els, "d")
    res = rx.validate_batch("DecodeTrace", items, workers=2)
    got = {i: [c for _l, c in f[2]] for i, f in res["rejects"]}
    for i, want in enumerate(expect):
        if want is None and i in got:
            raise tlc.MachineryFailure(f"canary base history {i} rejected: {got[i]}")
        if want is not None and want not in got.get(i, []):
            raise tlc.MachineryFailure(f"canary {i}: corrupted history not rejected under {want}: {got.get(i)}")
    stats["canaries_rejected"] = len(expect) - 2


def main(tier: str, replay: str | None) -> None:
    fakes.quiet_logging()
    if replay:
        return do_replay(replay)
    chk = Check(PID, tier, "model_checking")
    b = BOUNDS[tier]
    rng = random.Random(chk.seed)
    tmp = tempfile.mkdtemp(prefix="c05_")
    stats: dict[str, Any] = {}
    try:
        t0 = time.time()
        hists, mc = histories(tmp, b["workers"])
        stats["t_mc"] = round(time.time() - t0, 1)
        h_by_n = {n: [h for h in hists if len({s[1] for s in h if s[0] == "dec"}) == n] for n in (1, 2, 3)}

        # ---- packets ---------------------------------------------------------------------------
        t0 = time.time()
        pool: list[str] = []
        src_count: dict[str, int] = {}
        gfs = gen.schema_frames(rng, b["schema_rand"], every_shape=b["every_shape"], max_profiles=b["max_profiles"])
        pool += [g.frame for g in gfs]
        src_count["schema_regex_frames"] = len(gfs)
        src_count["verb_code_pairs"] = len({(g.code, g.verb) for g in gfs})
        cf = list(gen.corpus_frames())
        for _ in range(b["corpus_reps"]):
            pool += cf
        src_count["corpus_frames"] = len(cf)
        nb = gen.corpus_neighbour_frames(rng, b["neighbours"])
        pool += nb
        src_count["corpus_neighbour_frames"] = len(nb)
        rng.shuffle(pool)
        cases = array_cases(b, rng)
        src_count["array_cases"] = len(cases)
        stats["t_gen"] = round(time.time() - t0, 1)

        # ---- executions -------------------------------------------------------------------------
        t0 = time.time()
        # time siblings first: their oracle needs a parent process that has not decoded anything yet
        sib_frames: list[str] = []
        seen_vc: set[tuple[str, str]] = set()
        cnt_vc: dict[tuple, int] = {}

        def shape_key(f: str, src: str) -> tuple:   # verb, code, which address slots are used, payload length
            ff = gen.frame_fields(f)
            return (ff[5], ff[0], tuple(a[:2] == "--" for a in ff[2:5]), ff[6], src)

        for g in gfs:   # one regex member of every verb/code/address shape/length ...
            if cnt_vc.get(shape_key(g.frame, "re"), 0) < 1:
                cnt_vc[shape_key(g.frame, "re")] = 1
                sib_frames.append(g.frame)
        for f in cf:    # ... and two real frames of each the corpus has
            if cnt_vc.get(shape_key(f, "corpus"), 0) < 2:
                cnt_vc[shape_key(f, "corpus")] = cnt_vc.get(shape_key(f, "corpus"), 0) + 1
                sib_frames.append(f)
        sib_frames = list(dict.fromkeys(sib_frames))
        oracle = time_sibling_oracle(sib_frames, max(2, b["workers"]))
        stats["t_oracle"] = round(time.time() - t0, 1)
        dec = Decoder()
        recs: list[dict] = []
        for f in sib_frames:
            recs.append(run_time_siblings(dec, f, oracle))
        src_count["time_sibling_items"] = len(sib_frames)
        stats["_sib"] = (sib_frames, oracle)
        bursts_left = b["real_bursts"]
        hi = 0

        def next_hist(n: int) -> tuple:
            nonlocal hi
            hi += 1
            return h_by_n[n][hi % len(h_by_n[n])]

        def real() -> bool:
            nonlocal bursts_left
            if bursts_left > 0:
                bursts_left -= 1
                return True
            return False

        # plain triples: every packet of the pool appears in at least one TLC history
        for i in range(0, len(pool) - 2, 3):
            h = next_hist(3)
            rb = real() if any(s[0] == "evict" for s in h) else False
            recs.append(run_item(dec, h, {"A": pool[i], "B": pool[i + 1], "C": pool[i + 2]}, [], rb))
        # related triples: A; B = A's address set with another payload of the same verb/code (same pkt_addrs
        # cache key, different value); C = A's payload under another address set (same regex-cache key)
        by_vc: dict[tuple[str, str], list] = {}
        for g in gfs:
            by_vc.setdefault((g.code, g.verb), []).append(g)
        n_rel = 0
        for (code, verb), gs in sorted(by_vc.items()):
            if len(gs) < 2:
                continue
            for _ in range(b["related_per_pair"]):
                g1, g2 = rng.sample(gs, 2)
                f1 = gen.frame_fields(g1.frame)
                f2 = gen.frame_fields(g2.frame)
                fb = gen.make_frame(verb, f1[2], f1[3], f1[4], code, g2.payload)
                fc = gen.make_frame(verb, f2[2], f2[3], f2[4], code, g1.payload)
                if len({g1.frame, fb, fc}) < 3:
                    continue
                h = next_hist(3)
                rb = real() if any(s[0] == "evict" for s in h) else False
                recs.append(run_item(dec, h, {"A": g1.frame, "B": fb, "C": fc}, [], rb))
                n_rel += 1
        # seqn siblings: A; C = the very same frame under another sequence number (numeric vs ---): whatever a
        # parser memoises per payload must not carry one frame's sequence number into the other's result
        n_sq = 0
        for (code, verb), gs in sorted(by_vc.items()):
            for g1 in gs[: 2 if tier == "quick" else 6]:
                f1 = gen.frame_fields(g1.frame)
                sib = gen.make_frame(verb, f1[2], f1[3], f1[4], code, g1.payload, "045" if f1[1] == "---" else "---")
                other = rng.choice(gs).frame
                if len({g1.frame, sib, other}) < 3:
                    continue
                hist = (("dec", "A"), ("dec", "C"), ("dec", "A"), ("dec", "B"), ("dec", "C"))
                recs.append(run_item(dec, hist, {"A": g1.frame, "B": other, "C": sib}, [], False))
                n_sq += 1
        src_count["seqn_sibling_triples"] = n_sq
        src_count["related_triples"] = n_rel
        # arrays: the array and each of its elements as packets of their own
        for ci, c in enumerate(cases):
            names = ["A"] + [f"E{j}" for j in range(len(c["elements"]))]
            frames = {"A": gen.array_frame(c["code"], c["elements"], c["src"])}
            for j, el in enumerate(c["elements"]):
                frames[f"E{j}"] = gen.element_frame(c["code"], el, c["src"])
            rel = [{"arr": "A", "elems": names[1:]}]
            if len(c["elements"]) == 2:  # exactly three packets: use the model's histories as they are
                h = next_hist(3)
                ren = {"A": "A", "B": "E0", "C": "E1"}
                hist = tuple((s[0], ren.get(s[1], s[1])) for s in h)
                missing = [n for n in names if n not in {s[1] for s in hist}]
                hist += tuple(("dec", n) for n in missing)
            else:
                order = names[:]
                k = ci % 3
                if k == 1:
                    order = names[1:] + ["A"]
                elif k == 2:
                    mid = len(names) // 2
                    order = names[1:mid + 1] + ["A"] + names[mid + 1:]
                hist = tuple(("dec", n) for n in order)
                if ci % 2:
                    hist = hist[:1] + (("evict", ""),) + hist[1:] + (("dec", "A"),)
            rb = real() if any(s[0] == "evict" for s in hist) else False
            recs.append(run_item(dec, hist, frames, rel, rb))
        # at the very end - after everything this process has decoded - the sibling frames once more, against their
        # decode in a process where nothing had been decoded: whatever any earlier packet left behind (a rewritten
        # module-level table, a poisoned cache) shows here
        sib_frames, oracle = stats.pop("_sib")
        t1 = dt.fromisoformat(T_SIB[0])
        for f in sib_frames:
            item = {"np": 1, "rel": [], "ev": [oracle[f, T_SIB[0]][0], dec.decode(f, 1, dtm=t1)[0]]}
            recs.append({"item": item, "meta": {"frames": {"A": f}, "time_siblings": [T_SIB[0]], "after_everything": True,
                                                "hist": [["iso", "A"], ["dec", "A"]], "rel": [],
                                                "infos": {"A": oracle[f, T_SIB[0]][1]}, "real_burst": False}})
        src_count["after_everything_items"] = len(sib_frames)
        # ... and (no oracle needed) every real frame, and a third of the others, once more against its own *first*
        # decode in this process, at the timestamp it had then - however many thousand packets ago that was
        cfs = set(cf)
        again = [f for i, f in enumerate(dec.first) if f in cfs or i % 3 == 0]
        for f in again:
            e0, t_first = dec.first[f]
            item = {"np": 1, "rel": [], "ev": [dict(e0, p=1), dec.decode(f, 1, dtm=t_first)[0]]}
            recs.append({"item": item, "meta": {"frames": {"A": f}, "first_vs_last": True,
                                                "hist": [["dec", "A"], ["...", ""], ["dec", "A"]], "rel": [],
                                                "infos": {}, "real_burst": False}})
        src_count["first_vs_last_items"] = len(again)
        # messages an application holds on to, re-read after the packets that followed (fragment merging at the gateway)
        hh = held_histories(rng, 30 if tier != "quick" else 8)
        held_recs = [run_held(h) for h in hh]
        recs += held_recs
        src_count["gateway_sessions_with_held_messages"] = len(hh)
        src_count["held_messages_re_read"] = sum(len(r["meta"]["frames"]) for r in held_recs)
        stats["t_exec"] = round(time.time() - t0, 1)

        t0 = time.time()
        canaries(recs, stats)
        judge(chk, recs, b["workers"], stats)
        stats["t_judge"] = round(time.time() - t0, 1)
    finally:
        shutil.rmtree(tmp, ignore_errors=True)

    ok_codes = sorted({e["code"] for r in recs for e in r["item"]["ev"] if e["t"] == "dec" and e["ok"] == 1})
    ok_pairs = {(gen.frame_fields(f)[5], f[:2]) for r in recs for n_, f in r["meta"]["frames"].items()
                if "payload" in r["meta"]["infos"].get(n_, {})}
    all_pairs = {(c_, v_) for c_, v_, _r in gen.schema_regexes()}
    chk.finish(
        coverage={
            "states": mc["states"] + stats.get("trace_states", 0),
            "transitions": mc["transitions"],
            "mc_instances": mc["instances"],
            "model_histories": len(hists),
            "traces_validated_against_impl": stats.get("trace_items", 0),
            "histories_rejected": stats.get("rejected", 0),
            "corrupted_trace_canaries_rejected": stats.get("canaries_rejected", 0),
            "decodes": dec.ndec, "decodes_accepted_by_library": dec.nok,
            "codes_decoded": len(ok_codes),
            "verb_code_pairs_decoded": len(ok_pairs & all_pairs), "verb_code_pairs_known": len(all_pairs),
            "verb_code_pairs_never_accepted_by_the_parsers": sorted(f"{c_}/{v_.strip()}" for c_, v_ in all_pairs - ok_pairs),
            "eviction_bursts_real": dec.real_bursts, "eviction_bursts_cache_clear": dec.clear_bursts,
            "lru_caches_cleared": [getattr(c, "__qualname__", str(c)) for c in dec.caches],
            "wall_clock_substituted_in": dec.clock_patched, "clock_reads_by_parsers": JumpClock._calls,
            "inputs": src_count,
            "range_keys_not_judged_in_codes_of_unknown_meaning": dec.rng_skipped,
            "timing_s": {k: v for k, v in stats.items() if k.startswith("t_")},
            "bounds": b,
            "samples": [recs[0]["meta"]["frames"], recs[len(recs) // 2]["meta"]["hist"], recs[-1]["meta"]["frames"]],
        },
        assumptions=[
            "payload strings are sampled systematically from the library's regexes (boundary + seeded random), not exhaustively",
            "a: json.dumps(payload) without a default hook succeeds (tuples/int keys are accepted as JSON-able)",
            "c: judged for zone_idx/domain_id/ufh_idx/ufx_idx/dhw_idx; 0404 'HW' and 000C role-derived ids left open",
            "e: ratio/temperature classes are assigned by key name (see key_class); not judged for codes the "
            "library itself names unknown_*/message_* (placeholder keys such as percent_4 of 22E0/22E5/22E9)",
            "d: judged only where the array and every element decode",
        ],
    )


def do_replay(path: str) -> None:
    obj = json.load(open(path))
    rp = obj.get("replay", obj)
    print(f"replaying {obj.get('key', '?')}: {obj.get('what', '')}")
    if "held" in rp:
        rec = run_held(rp["held"])
        res = rx.validate_batch("DecodeTrace", [rec["item"]], workers=1)
        print(f"{len(rec['meta']['frames'])} messages held; TLC verdict:", res["rejects"] or "accepted")
        sys.exit(1 if res["rejects"] else 0)
    dec = Decoder()
    rec = run_item(dec, tuple(tuple(s) for s in rp["hist"]), rp["frames"], rp["rel"], rp.get("real_burst", True))
    for e in rec["item"]["ev"]:
        if e["t"] == "dec":
            name = sorted(rp["frames"])[e["p"] - 1]
            print(f"dec {name} {rp['frames'][name]!r}: ok={e['ok']} json={e['json']} js={e['js']} idx={e['idx']} "
                  f"eb={e['eb']} rng={e['rng'][:6]}")
            print("    ", rec["meta"]["infos"].get(name, {}).get("payload"))
        else:
            print("evict")
    res = rx.validate_batch("DecodeTrace", [rec["item"]], workers=1)
    print("TLC verdict:", res["rejects"] or "accepted")
    sys.exit(1 if res["rejects"] else 0)


if __name__ == "__main__":
    main_wrapper(PID, main)

"""C14  State is fresh: attributes reflect the newest live message, stale data ages out.

spec/MsgStore.tla      the per-entity store (latest message per code, array messages shared by the
                       zones they list), deferred by-value delete, the expiry rule, the contract
spec/MC_MsgStore.*     bounded instances: as the code is / the proposed repair / in-flight / -simulate
spec/MsgStoreTrace.*   batch validation of recorded executions of the real Gateway

What runs:
  1. TLC checks the clauses on the model for all interleavings within the bounds.
  2. Stepwise conformance: behaviours taken from TLC (-simulate with the history variable h) are
     concretised into real packets (zone family: 2309/2349/30C9/000A/12B0/0004, single + array
     forms; single-form family: DHW 10A0/1F41/1260, system 2E04/3150/1100, TRV, THM, BDR, OTB, DHW
     sensor, FAN, CO2, HUM) and replayed into a real Gateway on a virtual clock; after every step
     the stores are projected out (entity._msgs_) and msg._expired of every message is read; the
     attribute named by the behaviour is read; at the end every attribute is read twice.
     A packet's stamp is the wall clock at its receipt and need not be later than the stamp before it: the same
     millisecond (two frames of one serial read) and a clock that was put back (1 ms .. 1 h) are part of the
     behaviours (MsgStore: StampSteps); "most recently received" is decided by arrival, never by the stamp.
     TLC (MsgStoreTrace) judges each recorded trace: contract clauses C14a-e (VIOLATION) and
     agreement with the transcription (MODEL-DRIFT).
  3. msg._expired tables over the clock for one message of every kind found in the shipped logs and
     for 1F09 countdowns, lifetimes read from the code (J13); judged by the same trace spec.
  4. (thorough) the in-flight counter-example of MC_MsgStore_inflight is replayed on the real code
     and reported in the evidence (not a verdict: J1, observations are at quiescence).
"""
from __future__ import annotations

import asyncio
import concurrent.futures as cf
import datetime as _dt
import glob
import json
import os
import random
import re
import shutil
import sys
import tempfile
import types
from typing import Any

from harness import ext_c14 as X
from harness import fakes, tlc, vloop
from harness.report import Check, main_wrapper

PID = "C14"
# the trace judge's instance: by default it leaves open which of two *codes* of one attribute (setpoint <- 2309/2349)
# is the most recent when the one that arrived earlier has the later (or an equal) stamp; VERIF_C14_CROSSCODE_STRICT=1
# closes that (the unchanged library then fails C14a:not-the-latest-value - see c14_NOTES.md)
TRACE_CFG = "MsgStoreTrace_strict.cfg" if os.environ.get("VERIF_C14_CROSSCODE_STRICT") else None


def stamp_coverage(items: list[dict]) -> dict:
    """How often did arrival order and stamp order disagree (measured on the recorded executions)?"""
    n_eq = n_back = n_repl = n_reads = 0
    for it in items:
        prev_t = None
        cur: dict[tuple[int, int], tuple[int, int]] = {}  # (ctx, code) -> (stamp of the newest arrival, against?)
        for e in it["ev"]:
            if e["k"] in ("rx", "other") and prev_t is not None:
                n_eq += e["t"] == prev_t
                n_back += e["t"] < prev_t
            prev_t = e["t"]
            if e["k"] == "rx":
                against = False
                for c in (e["mcs"] or e["cs"]):
                    old = cur.get((c, e["code"]))
                    a = old is not None and e["t"] <= old[0]
                    cur[(c, e["code"])] = (e["t"], a)
                    against = against or a
                n_repl += against
            elif e["k"] == "read":
                codes = it["attrs"][e["a"] - 1]
                n_reads += any(cur.get((e["c"], k), (0, False))[1] for k in codes)
    return {"packets_with_the_stamp_of_the_packet_before": n_eq, "packets_stamped_earlier_than_the_packet_before": n_back,
            "messages_replacing_one_with_an_equal_or_later_stamp": n_repl,
            "reads_of_an_attribute_whose_newest_message_has_not_the_newest_stamp": n_reads}


# --------------------------------------------------------------------------------------
# 1. model checking


def mc_jobs(tier: str) -> list[tuple[str, str, dict]]:
    jobs = [
        ("as-is", "MC_MsgStore.cfg", {}),
        ("repaired", "MC_MsgStore_fixed.cfg", {}),
        # stamps that do not increase (same millisecond / clock put back): arrival order decides
        ("stamps", "MC_MsgStore_stamps.cfg", {}),
    ]
    if tier == "thorough":
        jobs.append(("as-is-deep", "MC_MsgStore_t.cfg", {}))
        jobs.append(("in-flight", "MC_MsgStore_inflight.cfg", {"expect_violation": "FreshA"}))
        jobs.append(("stamps-deep", "MC_MsgStore_stamps_t.cfg", {}))
        # two codes of one attribute, stamp order against arrival order: left open by the contract (CrossCodeOpen);
        # with it closed the model has the counter-example the library has (`max(msgs)` by dtm)
        jobs.append(("stamps-cross-code-strict", "MC_MsgStore_stamps_strict.cfg", {"expect_violation": "FreshA"}))
    return jobs


def run_mc(cfg: str, workers: int) -> tlc.TlcResult:
    return tlc.run_tlc("MC_MsgStore", cfg, workers=workers, timeout=1500)


# --------------------------------------------------------------------------------------
# 2. behaviours out of TLC


def simulate(cfg: str, num: int, depth: int, seed: int, workers: int, tmp: str) -> list[tuple]:
    d = tempfile.mkdtemp(prefix="sim_", dir=tmp)
    per = max(1, num // workers)
    r = tlc.run_tlc("MC_MsgStore", cfg, simulate=f"file={d}/tr,num={per}", depth=depth, seed=seed,
                    workers=workers, timeout=600, parse_prints=False)
    if r.violated or r.errors:
        raise tlc.MachineryFailure(f"simulation {cfg}: violated={r.violated} errors={r.errors[:2]}\n{r.out[-1500:]}")
    hs = []
    for fn in sorted(os.listdir(d)):
        h = X.last_var(open(os.path.join(d, fn)).read(), "h")
        if h:
            hs.append(h)
    shutil.rmtree(d, ignore_errors=True)
    # de-duplicate, keep order
    seen, out = set(), []
    for h in hs:
        key = repr(h)
        if key not in seen:
            seen.add(key)
            out.append(h)
    return out


def pick_zone_family(rnd: random.Random, tier: str) -> X.ZoneFamily:
    variant = rnd.choice(sorted(X.ZVARIANTS))
    if tier == "quick" and rnd.random() < 0.5:
        zones, extra = ["00", "01", "02"], "03"
    else:
        zs = rnd.sample(X.ALL_ZONES, 4)
        zones, extra = sorted(zs[:3]), zs[3]
    return X.ZoneFamily(variant, zones, extra)


def pick_single_family(rnd: random.Random) -> X.SingleFamily:
    ents = rnd.sample(sorted(X.SINGLES), 3)
    picks = []
    for e in ents:
        idx = list(range(len(X.SINGLES[e])))
        rnd.shuffle(idx)
        picks.append(idx[:3])
    return X.SingleFamily(ents, picks)


async def run_behaviours(jobs: list[tuple[Any, list[dict]]]) -> list[dict]:
    out = []
    for fam, events in jobs:
        out.append(await X.execute(fam, events))
    return out


# --------------------------------------------------------------------------------------
# 3. _expired tables


def corpus_kinds() -> list[tuple[str, Any]]:
    """One real packet per (code, verb, has_array) from the logs shipped under /repo/tests."""
    from ramses_tx.message import Message
    from ramses_tx.packet import Packet

    repo = os.path.dirname(fakes.REPO_SRC.rstrip("/"))
    tests = os.path.join(repo, "tests")
    if not os.path.isdir(tests):
        tests = "/repo/tests"
    seen: dict[tuple, tuple[str, str]] = {}
    for f in sorted(glob.glob(os.path.join(tests, "**", "*.log"), recursive=True)):
        for ln in open(f, errors="replace"):
            m = re.match(r"^(\d{4}-\d\d-\d\d[T ]\d\d:\d\d:\d\d\.\d{6}) (.*)$", ln.rstrip("\n"))
            if not m:
                continue
            try:
                p = Packet.from_file(m.group(1), m.group(2))
                Message(p)
            except Exception:  # noqa: BLE001
                continue
            key = (p.code, p.verb, bool(p._has_array))
            if key not in seen:
                seen[key] = (m.group(1), m.group(2))
    return [(f"{k[0]}/{k[1].strip()}{'/array' if k[2] else ''}", v) for k, v in sorted(seen.items())]


class _Clock:
    def __init__(self) -> None:
        self.now = fakes.EPOCH

    def _dt_now(self):
        return self.now


TABLE_VARIANTS = ("fresh-object", "same-object", "same-object-evaluated-at-age-3s-minus-lifetime")


def table_item(kind: str, dtm_frame: tuple[str, str], variant: str) -> tuple[dict, dict] | None:
    """Tabulate msg._expired over the clock (ascending) for one message.

    fresh-object   a new Message per clock value (the rule as a function of time)
    same-object    one Message object read again and again (its cached state included)
    same-object-evaluated-at-age-3s-minus-lifetime   same, the clock values include that age
                   (only exists for lifetimes <= 3 s); the other variants leave it out
    Returns None if the variant does not apply.
    """
    from ramses_tx.message import Message
    from ramses_tx.packet import Packet

    clock = _Clock()

    def mk():
        m = Message(Packet.from_file(dtm_frame[0], dtm_frame[1]))
        m._gwy = clock  # type: ignore[assignment]
        return m

    m0 = mk()
    life = X.life_ms(m0)
    special = X.GRACE_MS - life if 0 <= life <= X.GRACE_MS else None
    if variant == TABLE_VARIANTS[2] and special is None:
        return None
    if life >= 0:
        pts = {0, 1, life - 1, life, life + 1, 2 * life + 1, 2 * life + X.GRACE_MS - 1, 2 * life + X.GRACE_MS,
               2 * life + X.GRACE_MS + 1, 3 * life + X.GRACE_MS, 7 * life + 10 * X.GRACE_MS}
        pts = {p for p in pts if p >= 0}
        pts.discard(special)
        if variant == TABLE_VARIANTS[2]:
            pts.add(special)
        if 0 not in pts:
            pts.add(0) if variant == TABLE_VARIANTS[2] else None
        pts = sorted(pts)
    else:
        pts = [0, 1, 3000, 3600_000, 86_400_000, 20 * 86_400_000]
    cached = variant != TABLE_VARIANTS[0]
    ev, flags = [], []
    first = True
    for age in pts:  # ascending; the first point doubles as the receipt event
        clock.now = m0.dtm + _dt.timedelta(milliseconds=age)
        m = m0 if cached else mk()
        fl = X.exp_flag(m)
        flags.append(fl)
        base = {"k": "tick", "code": 0, "form": "", "cs": [], "vs": [], "life": 0, "t": 1 + age, "sk": 0, "c": 0,
                "a": 0, "obs": 0, "slots": [], "exp": [fl], "mcs": [], "mvs": [], "mlife": 0}
        if first:
            # receipt is at t = 1 (age 0); if age 0 is left out the first reading is later
            ev.append({**base, "k": "rx", "code": 1, "form": "S", "cs": [1], "vs": [1], "life": life, "t": 1,
                       "exp": [fl] if age == 0 else [0]})
            if age != 0:
                ev.append(base)
            first = False
        else:
            ev.append(base)
    meta = {"kind": kind, "frame": dtm_frame[1], "dtm": dtm_frame[0], "life_ms": life, "variant": variant,
            "ages_ms": pts, "flags": flags}
    return {"attrs": [[1]], "ev": ev}, meta


def sync_cycle_frames(tier: str, rnd: random.Random) -> list[tuple[str, tuple[str, str]]]:
    """1F09 messages with countdowns over 0..6553.5 s (0x0000..0xFFFF tenths)."""
    if tier == "thorough":
        vals = set(range(0, 0x10000, 7)) | set(range(0, 300)) | set(range(0xFF00, 0x10000))
    else:
        vals = set(range(0, 40)) | {100, 1799, 1800, 3000, 0x7FFF, 0x8000, 0xFFFE, 0xFFFF}
        vals |= {rnd.randrange(0x10000) for _ in range(150)}
    out = []
    for v in sorted(vals):
        for verb, addr in ((" I", f"{X.CTL} --:------ {X.CTL}"), ("RP", f"{X.CTL} {X.HGI} --:------")):
            if verb == "RP" and v % 5 and tier != "thorough":
                continue
            kind = "1F09-zero-countdown" if v == 0 else "1F09-countdown"
            out.append((kind, ("2026-01-01T12:00:00.000000", f"... {verb} --- {addr} 1F09 003 {'FF' if verb == ' I' else '00'}{v:04X}")))
    return out


# --------------------------------------------------------------------------------------
# in-flight candidate (model counter-example) on the real code


INFLIGHT_SCENARIOS = [  # (family spec, code, form, contexts, attribute)
    ({"kind": "zone", "variant": "Z1", "zones": ["00", "01", "02"], "extra": "03"}, 3, "S", [1], 3),
    ({"kind": "zone", "variant": "Z1", "zones": ["00", "05", "0B"], "extra": "03"}, 1, "A", [1, 2, 3], 1),
    ({"kind": "zone", "variant": "Z2", "zones": ["02", "03", "04"], "extra": "00"}, 2, "S", [2], 2),
    ({"kind": "single", "ents": ["dhw", "trv", "bdr"], "picks": [[2, 0, 1], [1, 0, 2], [0, 1]]}, 1, "S", [1], 1),
    ({"kind": "single", "ents": ["dhw", "trv", "bdr"], "picks": [[2, 0, 1], [1, 0, 2], [0, 1]]}, 1, "S", [2], 1),
]


async def inflight_scenario(spec: dict, k: int, form: str, cs: list[int], a: int, verbose: bool = False) -> dict:
    """The counter-example of MC_MsgStore_inflight on the real code: message A; A expires; an equal-valued
    B arrives and, while B is being dispatched, a message callback reads the attribute (what a client
    does on every message): that read schedules _delete_msg(A), which runs after B was stored.
    Afterwards, at quiescence, the attribute is read twice.  Returns the recorded trace item."""
    fam = X.family_from_spec(spec)
    rnd = random.Random(1)
    frame = fam.frame(k, form, [(c, 1) for c in cs], rnd)
    c0 = cs[0]
    events = [{"k": "rx", "code": k, "form": form, "cs": cs, "vs": [1] * len(cs), "frame": frame, "dt": 4000, "mt": 1},
              {"k": "tick", "ref": 1, "j": 4},
              {"k": "rx", "code": k, "form": form, "cs": cs, "vs": [1] * len(cs), "frame": frame, "dt": 4000, "mt": 2,
               "read_in_callback": (c0, a)}]
    return await X.execute(fam, events, final_reads=2, verbose=verbose)


# --------------------------------------------------------------------------------------


def do_replay(path: str) -> None:
    obj = json.load(open(path))
    rp = obj.get("replay", obj)
    print(f"replaying {obj.get('key', '?')}: {obj.get('what', '')}")
    fakes.quiet_logging()
    if rp.get("mode") == "table":
        item, meta = table_item(rp["kind"], (rp["dtm"], rp["frame"]), rp["variant"])
        print(f"  {rp['frame']}\n  lifetime read from the code: {meta['life_ms']} ms; grace 3000 ms")
        for age, fl in zip(meta["ages_ms"], meta["flags"]):
            print(f"  age {age:>12} ms  _expired -> {'raised' if fl < 0 else bool(fl)}")
        items = [item]
    elif rp.get("mode") == "inflight":
        item, _ = vloop.run(lambda: inflight_scenario(*rp["scenario"], verbose=True))
        items = [item]
    else:
        fam = X.family_from_spec(rp["family"])
        print(f"  family {rp['family']}")
        item, _ = vloop.run(lambda: X.execute(fam, rp["events"], verbose=True))
        items = [item]
    res = tlc.validate_batch("MsgStoreTrace", items, workers=1, cfg=TRACE_CFG)
    print("TLC verdict:", res["rejects"] or "accepted")
    sys.exit(1 if any(str(f[1]).startswith("C14") for r in res["rejects"] for f in r[1]) else 0)


def main(tier: str, replay: str | None) -> None:
    if replay:
        return do_replay(replay)
    fakes.quiet_logging()
    chk = Check(PID, tier, "model_checking")
    rnd = random.Random(chk.seed)
    tmp = tempfile.mkdtemp(prefix="c14_")
    quick = tier == "quick"
    mcw = 2 if quick else 4
    try:
        pool = cf.ThreadPoolExecutor(max_workers=2)
        futs = {name: (pool.submit(run_mc, cfg, mcw), cfg, opt) for name, cfg, opt in mc_jobs(tier)}

        # ---- behaviours
        n_zone, n_single, depth = (1000, 500, 16) if quick else (14000, 6000, 22)
        hz = simulate("MC_MsgStore_sim.cfg", n_zone, depth, chk.seed + 1, 4, tmp)
        hs = simulate("MC_MsgStore_sim1.cfg", n_single, depth, chk.seed + 2, 4, tmp)
        jobs: list[tuple[Any, list[dict]]] = []
        for h in hz:
            fam = pick_zone_family(rnd, tier)
            jobs.append((fam, X.concretise(h, fam, rnd)))
        for h in hs:
            fam = pick_single_family(rnd)
            jobs.append((fam, X.concretise(h, fam, rnd)))
        items, _ = vloop.run(lambda: run_behaviours(jobs))
        n_ev = sum(len(i["ev"]) for i in items)
        n_reads = sum(1 for i in items for e in i["ev"] if e["k"] == "read")
        n_exp_reads = 0

        # ---- tables
        titems: list[dict] = []
        tmeta: list[dict] = []
        kinds = corpus_kinds()
        for kind, df in kinds + sync_cycle_frames(tier, rnd):
            for variant in TABLE_VARIANTS:
                r = table_item(kind, df, variant)
                if r is not None:
                    titems.append(r[0])
                    tmeta.append(r[1])

        # ---- canaries: corrupted copies of recorded executions that the judge must reject
        canaries: list[tuple[dict, str]] = []
        src = next((it for it in items if any(e["k"] == "read" and e["obs"] in (1, 2) for e in it["ev"])), None)
        if src is not None:
            bad = json.loads(json.dumps(src))
            e = next(e for e in bad["ev"] if e["k"] == "read" and e["obs"] in (1, 2))
            e["obs"] = 99
            canaries.append((bad, "C14a"))
        src = next((i for i, m in enumerate(tmeta) if m["life_ms"] >= 60_000 and m["variant"] == "fresh-object"), None)
        if src is not None:
            bad = json.loads(json.dumps(titems[src]))
            bad["ev"][2]["exp"] = [1]  # "expired" at age 1 ms
            canaries.append((bad, "C14b:expired-before-lifetime"))

        # ---- the in-flight counter-example of the model, on the real code (observed at quiescence)
        sitems = [vloop.run(lambda sc=sc: inflight_scenario(*sc))[0] for sc in INFLIGHT_SCENARIOS]
        sres = tlc.validate_batch("MsgStoreTrace", sitems, workers=1, cfg=TRACE_CFG)
        for idx, fails in sres["rejects"]:
            for line, cls in fails:
                if cls == "drift":
                    continue  # MsgStoreTrace folds the quiescent model; the in-flight step is not in it
                sc = INFLIGHT_SCENARIOS[idx]
                ev = sitems[idx]["ev"][line - 1]
                key = f"{cls}:read-during-dispatch-of-an-equal-packet"
                chk.violation(key, f"{key}: {sc[0]} code {sc[1]} form {sc[2]}: after an expired message was re-sent with the same "
                              f"value while a message callback read the attribute, event {line} read -> {ev['obs']}",
                              {"mode": "inflight", "scenario": list(sc)})

        # ---- TLC judges
        res = tlc.validate_batch("MsgStoreTrace", items + titems + [c[0] for c in canaries],
                                 workers=4 if quick else 8, chunk=1500, cfg=TRACE_CFG)
        nb = len(items)
        nreal = nb + len(titems)
        caught = {idx - nreal: fail for idx, fail in res["rejects"] if idx >= nreal}
        for ci, (_, want) in enumerate(canaries):
            if ci not in caught or not any(str(f[1]).startswith(want) for f in caught[ci]):
                raise tlc.MachineryFailure(f"canary {ci} (corrupted trace, expected {want}) was not rejected: {caught.get(ci)}")
        res["rejects"] = [(idx, fail) for idx, fail in res["rejects"] if idx < nreal]
        samples: list[Any] = []
        for idx, fails in res["rejects"]:
          for fail in fails:  # every distinct class of the trace, with its first line
            line, cls = fail[0], fail[1]
            if idx < nb:
                fam, events = jobs[idx]
                ev = items[idx]["ev"][line - 1]
                if cls == "drift":
                    chk.model_drift(f"trace {idx} line {line}: stores/read differ from MsgStore ({fam.spec()}; event {ev['k']})")
                    continue
                name = fam.reader(ev["c"], ev["a"])[0] if ev["k"] == "read" else "_expired"
                what = (f"{cls}: {fam.kind} family {fam.spec()}, event {line} ({ev['k']} ctx {ev['c']} .{name} -> {ev['obs']}"
                        f" at t={ev['t']} ms)")
                key = cls
                if ev["k"] == "read" and cls.startswith("C14e:stale-value"):
                    # is the value that lingers the one an array carried for this zone, kept alive because the library
                    # merged the array with a per-zone packet that followed within 3 s (detect_array_fragment)?
                    codes = set(items[idx]["attrs"][ev["a"] - 1])
                    if any(p["k"] == "rx" and p["code"] in codes and ev["c"] in p["mcs"] and ev["c"] not in p["cs"]
                           for p in items[idx]["ev"][: line - 1]):
                        key = "C14e:stale-value:zones-of-an-array-merged-with-a-000A-fragment"
                chk.violation(key, what, {"mode": "behaviour", "family": fam.spec(), "events": events, "line": line})
            else:
                meta = tmeta[idx - nb]
                kc = meta["kind"] if meta["kind"].startswith("1F09-") else "message-kind"
                key = f"{cls}:{kc}" if cls == "C14c:expired-raises" else f"{cls}:{kc}:{meta['variant']}"
                what = (f"{cls}: {meta['frame'].strip()} (lifetime {meta['life_ms']} ms, {meta['variant']}): "
                        f"ages {meta['ages_ms']} -> _expired {meta['flags']}")
                chk.violation(key, what, {"mode": "table", **{k: meta[k] for k in ("kind", "frame", "dtm", "variant")}})
        for it in items:
            for e in it["ev"]:
                if e["k"] == "read" and e["obs"] == 0 and any(e["exp"]):
                    n_exp_reads += 1

        # ---- model checking results
        states = trans = 0
        mc_summary = {}
        for name, (fut, cfg, opt) in futs.items():
            r = fut.result()
            mc_summary[name] = {"cfg": cfg, "generated": r.states, "distinct": r.distinct, "depth": r.depth,
                                "violated": r.violated, "wall_s": round(r.wall_s, 1)}
            states += r.distinct
            trans += r.states
            exp = opt.get("expect_violation")
            if exp:
                if r.violated != [exp]:
                    chk.note(f"{cfg}: expected the model counter-example to {exp}, got {r.violated}")
                continue
            if not r.ok:
                raise tlc.MachineryFailure(f"TLC {cfg}: violated={r.violated} errors={r.errors[:3]}\n{r.out[-2500:]}")
        pool.shutdown()

        samples = [
            {"behaviour": jobs[0][0].spec(), "events": [e.get("frame", e) for e in jobs[0][1][:6]]},
            {"recorded": items[0]["ev"][:3]},
            {"table": tmeta[0]},
            {"table": next((m for m in tmeta if m["kind"] == "1F09-countdown"), None)},
        ]
        chk.finish(
            coverage={
                "states": states,
                "transitions": trans,
                "model_checking": mc_summary,
                "behaviours_from_tlc": {"zone_shape": len(hz), "single_shape": len(hs)},
                "traces_validated_against_impl": len(items) + len(titems),
                "behaviour_traces": len(items),
                "events_replayed_on_real_gateway": n_ev,
                "attribute_reads_judged": n_reads,
                "reads_returning_unknown_with_an_expired_message": n_exp_reads,
                "stamp_order_against_arrival_order": stamp_coverage(items),
                "inflight_scenarios_on_real_gateway": len(sitems),
                "expired_tables": len(titems),
                "corrupted_traces_rejected": len(canaries),
                "message_kinds_tabulated": len(kinds),
                "sync_cycle_countdowns_tabulated": len({m["frame"] for m in tmeta if m["kind"].startswith("1F09-")}),
                "trace_validation_states": res["states"],
                "samples": samples,
            },
            assumptions=[
                "observations at quiescence (J1); C14e judged on reads at or after receipt + 2*lifetime + 3 s (J7)",
                "lifetimes are read from the code (pkt._lifespan, 1F09 payload countdown), only the threshold laws are judged (J13)",
                "a fall-back to an older, not-yet-due message of another code of the same attribute (setpoint: 2309/2349) is left open",
                "W/RQ packets and other devices' traffic are 'other traffic': they must not change what is reported",
                "a packet's stamp is the wall clock at its receipt: later than the one before it (> 3 s, or 0.4-2.9 s for the "
                "000A fragment merge), the same millisecond (two frames of one serial read) or earlier (clock put back by "
                "1 ms .. 1 h); 'most recently received' = arrival order; 'before the lifetime has passed' is judged on the "
                "time really elapsed, 'once twice the lifetime has passed' on the age by the (put back) clock",
                "left open: which of two codes of one attribute (setpoint <- 2309/2349) is the most recent when the one "
                "that arrived earlier carries an equal or later stamp (CrossCodeOpen; VERIF_C14_CROSSCODE_STRICT=1 closes it)",
            ],
        )
    finally:
        shutil.rmtree(tmp, ignore_errors=True)


if __name__ == "__main__":
    main_wrapper(PID, main)

"""C20 - binding handshakes complete under duplicates, and always end and can be retried.

    bin/check C20 quick|thorough            bin/check C20 --replay FILE

1. TLC model-checks spec/Binding.tla (MC_Binding*.cfg): the code as it is (Fix = FALSE) and the
   repaired _wait_for_fut_result (Fix = TRUE), flows with and without the fourth frame (addenda).
2. The same TLC runs enumerate every bounded schedule (who attempts, copies/delays of each frame,
   echo delay, third-party offer, the offset of the clock that stamps each gateway's packets from
   the gateway's own clock) together with the outcome the model predicts for it.
3. Each schedule is executed for every supported flow (DHW/RND->CTL, CO2/REM/DIS->FAN) on two real
   gateways with faked devices joined by harness.fakes.Ether in virtual time, followed by an
   undisturbed second attempt.
4. TLC (spec/BindingTrace.tla) judges each recorded execution: clauses C20a/b/c, and whether the
   observed outcome is among the predicted ones (drift, never a violation).
See checks/c20_NOTES.md.
"""
from __future__ import annotations

import json
import os
import random
import shutil
import tempfile
import time
from typing import Any

from harness import fakes, tlc
from harness import ext_c20 as X
from harness.ext_c18 import extract_tagged
from harness.report import Check, main_wrapper

PID = "C20"
FLOWS3 = ["DHW-CTL", "RND-CTL"]
FLOWS4 = ["CO2-FAN", "REM-FAN", "DIS-FAN"]

CLAUSE_TEXT = {
    "C20a_success": "frames all delivered promptly (duplicates allowed) but the two ends did not both return the same packets",
    "C20b_error_type": "a binding attempt ended with something that is neither the packet tuple nor a binding error",
    "C20b_late": "a binding attempt ended after its stated waits (J10)",
    "C20b_hang": "a binding attempt had not ended at the horizon",
    "C20c_still_binding": "the device is still binding after its attempt ended and all timers have run out",
    "C20c_retry": "an undisturbed second attempt did not succeed",
}


def key_of(f: tuple) -> str:
    _, clause, d1, d2, d3 = f
    if clause == "C20b_error_type":
        return f"C20b:error-type:{d1}:{d2}@{d3}"  # what was raised : role @ state class
    if clause == "C20b_late":
        return f"C20b:late:{d1}@{d2}"
    if clause == "C20c_still_binding":
        return f"C20c:still-binding:{d1}@{d2}" + (f":{d3}" if d3 else "")
    if clause == "C20c_retry":
        return f"C20c:retry:{d1}:{d2}:{d3}"  # role : outcome : stuck | peerstuck | clean
    if clause == "C20a_success":
        return f"C20a:success:{d1}:{d2}"
    return clause.replace("_", ":", 1)


def validate(items: list[dict], workers: int) -> dict[str, Any]:
    rejects: dict[int, tuple] = {}
    states = trans = 0
    wall = 0.0
    tmp = tempfile.mkdtemp(prefix="c20tr_")
    try:
        chunk = 3000
        for base in range(0, len(items), chunk):
            part = items[base: base + chunk]
            f = os.path.join(tmp, f"b{base}.json")
            with open(f, "w") as fh:
                json.dump(part, fh, separators=(",", ":"))
            r = tlc.run_tlc("BindingTrace", "BindingTrace.cfg", workers=workers, env={"TRACE_FILE": f},
                            timeout=900, parse_prints=False)
            wall += r.wall_s
            if not r.ok:
                raise tlc.MachineryFailure(f"BindingTrace failed: {r.violated} {r.errors[:3]}\n{r.out[-2500:]}")
            seen = set()
            for txt in extract_tagged(r.out, "VERDICT"):
                v = tlc.parse_value(txt)
                seen.add(v[1])
                if v[2] != ():
                    rejects[base + v[1] - 1] = v[2]
            if len(seen) != len(part):
                raise tlc.MachineryFailure(f"BindingTrace: {len(part) - len(seen)} of {len(part)} items got no verdict")
            states += r.distinct
            trans += r.states
    finally:
        shutil.rmtree(tmp, ignore_errors=True)
    return {"rejects": rejects, "states": states, "transitions": trans, "wall_s": wall}


def h_to_scenario(h: dict) -> dict:
    return {"present": [int(x) for x in h["present"]], "third": h["third"],
            "sends": [[s[0], s[1], s[2], list(s[3])] for s in h["sends"]], "skew": [int(x) for x in h["skew"]]}


def pred_to_json(o: dict) -> dict:
    return {"r1": o["r1"], "s1": o["s1"], "r2": o["r2"], "s2": o["s2"], "br": int(o["br"]), "bs": int(o["bs"]),
            "rt": list(o["rt"]), "st": list(o["st"])}


def scen_key(sc: dict) -> str:
    return json.dumps([sc["present"], sc["third"], sc["sends"], sc.get("skew", [0, 0])])


def _exec(sc: dict) -> tuple[dict, list, dict]:
    fakes.quiet_logging()
    r = X.run_scenario(sc)
    return r.obs, r.loop_exc, r.end_states


def do_replay(path: str) -> None:
    obj = json.load(open(path))
    sc = obj.get("replay", obj)
    print(f"replaying scenario: {json.dumps(sc)}")
    r = X.run_scenario(sc, verbose=True)
    res = validate([r.item()], 1)
    fails = res["rejects"].get(0, ())
    clauses = [f for f in fails if not f[1].startswith("DRIFT")]
    for f in fails:
        print("  TLC verdict:", f, "" if f[1].startswith("DRIFT") else f"-> key {key_of(f)}")
    print("REPRODUCED" if clauses else "not reproduced (all clauses hold on this execution)")
    raise SystemExit(1 if clauses else 0)


def main(tier: str, replay: str | None) -> None:
    fakes.quiet_logging()
    if replay:
        do_replay(replay)
        return
    chk = Check(PID, tier, "model_checking")
    quick = tier == "quick"
    workers = 4 if quick else 8
    rnd = random.Random(chk.seed)
    t0 = time.time()
    mc: dict[str, dict] = {}
    states = trans = 0
    preds: dict[bool, dict[str, dict]] = {False: {}, True: {}}  # ratify -> scenario key -> {"sc", "asis": [...], "fix": [...]}
    preds_skew: dict[bool, dict[str, dict]] = {False: {}, True: {}}  # the same, of the packet-clock instances
    cands: list[tuple[str, bool, dict]] = []

    def run_mc(cfg: str, ratify: bool, variant: str | None, expect: list[str] | None = None,
               into: dict[bool, dict[str, dict]] | None = None) -> None:
        nonlocal states, trans
        into = preds if into is None else into
        r = tlc.run_tlc("MC_Binding", cfg, workers=workers, timeout=1700, deadlock=False, parse_prints=False)
        if r.errors:
            raise tlc.MachineryFailure(f"TLC error on {cfg}: {r.errors[:3]}\n{r.out[-2000:]}")
        mc[cfg] = {"states": r.states, "distinct": r.distinct, "depth": r.depth, "violated": r.violated,
                   "wall_s": round(r.wall_s, 1)}
        states += r.distinct
        trans += r.states
        exp = expect or []
        if sorted(r.violated) != sorted(exp):
            chk.note(f"TLC: {cfg} violated {r.violated}, expected {exp}")
        if r.violated:  # a refuted model clause is a candidate: its schedule is executed on the code
            for _, st in reversed(r.error_trace):
                if "h" in st and st["h"].get("present"):
                    cands.append((f"{cfg}:{','.join(r.violated)}", ratify, h_to_scenario(st["h"])))
                    break
        if variant:
            n = 0
            for txt in set(extract_tagged(r.out, "H")):
                v = tlc.parse_value(txt)
                sc = h_to_scenario(v[1])
                e = into[ratify].setdefault(scen_key(sc), {"sc": sc, "asis": [], "fix": []})
                p = pred_to_json(v[2])
                if p not in e[variant]:
                    e[variant].append(p)
                n += 1
            mc[cfg]["scenario_outcomes"] = n

    sfx = "" if quick else "_thorough"
    run_mc(f"MC_Binding{sfx}.cfg", False, "asis")
    run_mc(f"MC_Binding{sfx}_fix.cfg", False, "fix")
    run_mc(f"MC_Binding_ratify{sfx}.cfg", True, "asis")
    run_mc(f"MC_Binding_ratify{sfx}_fix.cfg", True, "fix")
    if quick:  # slow transmissions (the state's 5.1 s timer beats the 5 s wait_for): small separate instance
        run_mc("MC_Binding_slow.cfg", False, "asis")
        run_mc("MC_Binding_slow_fix.cfg", False, "fix")
    for inv in ("EndsProperly", "NotBindingAfterwards", "RetryWorks"):
        run_mc(f"MC_Binding_x_{inv}.cfg", False, None, [inv])
    # the transports' packet clocks differ from the gateways' own (h.skew; a transport with a remote clock): small
    # separate instances - duplicates and losses x every pair of offsets; the clauses are those of every other run
    run_mc("MC_Binding_skew.cfg", False, "asis", into=preds_skew)
    run_mc("MC_Binding_skew_fix.cfg", False, "fix", into=preds_skew)
    run_mc("MC_Binding_skew_ratify.cfg", True, "asis", into=preds_skew)
    run_mc("MC_Binding_skew_ratify_fix.cfg", True, "fix", into=preds_skew)
    # model self-check: no action of Binding.tla reads h.skew, so the predictions of a schedule must be the same
    # under every skew (this is what licenses re-using a schedule's prediction under another skew below)
    skews: set[tuple[int, int]] = set()
    for ratify in (False, True):
        by_sched: dict[str, dict[tuple, str]] = {}
        for e in preds_skew[ratify].values():
            sc = e["sc"]
            skews.add(tuple(sc["skew"]))
            canon = json.dumps([sorted(json.dumps(p, sort_keys=True) for p in e[v]) for v in ("asis", "fix")])
            by_sched.setdefault(scen_key(dict(sc, skew=[0, 0])), {})[tuple(sc["skew"])] = canon
        n_sk = {len(v) for v in by_sched.values()}
        if any(len(set(v.values())) != 1 for v in by_sched.values()) or len(n_sk) > 1:
            raise tlc.MachineryFailure("Binding.tla: the predicted outcome of a schedule depends on h.skew (it must not)")
    if len(skews) < 2:
        raise tlc.MachineryFailure("MC_Binding_skew*.cfg enumerated no packet-clock offsets")
    t_mc = time.time() - t0

    # ---- schedules x flows -----------------------------------------------------------------------
    jobs: list[tuple[str, dict, list, list]] = []  # origin, scenario(with flow), pred as-is, pred fix
    for origin, ratify, sc in cands:
        e = preds[ratify].get(scen_key(sc), {"asis": [], "fix": []})
        for fl in (FLOWS4 if ratify else FLOWS3):
            jobs.append((origin, dict(sc, flow=fl), e["asis"], e["fix"]))
    n_scen = {False: len(preds[False]), True: len(preds[True])}
    for ratify in (False, True):
        es = list(preds[ratify].values())
        cap = (260 if quick else 4000)
        if len(es) > cap:
            rnd.shuffle(es)
            es = es[:cap]
        for e in es:
            for fl in (FLOWS4 if ratify else FLOWS3):
                jobs.append(("enumerate", dict(e["sc"], flow=fl), e["asis"], e["fix"]))
    n_plain = len(jobs)
    for ratify in (False, True):  # schedules x packet-clock offsets, as enumerated by the skew instances
        for e in sorted(preds_skew[ratify].values(), key=lambda e: scen_key(e["sc"])):
            for fl in (FLOWS4 if ratify else FLOWS3):
                jobs.append(("enumerate-skew", dict(e["sc"], flow=fl), e["asis"], e["fix"]))
    # ... and on every fourth schedule of the other instances (losses, delays around the waits, third-party offers,
    # one party absent), a transport clock that is not the gateway's: the prediction is the schedule's (self-check above)
    off = sorted(k for k in skews if k != (0, 0))
    for n, (o, sc, pa, pf) in enumerate(jobs[:n_plain]):
        if n % 4 == 3:
            jobs.append((o + "+skew", dict(sc, skew=list(off[(n // 4) % len(off)])), pa, pf))

    # the third party's offer in its other legal shape (addressed to the broadcast id, as the vendor schemes do):
    # the model does not distinguish the two, so the prediction is the same
    jobs += [(o + "+bcast3rd", dict(sc, third_dst="bcast"), pa, pf) for (o, sc, pa, pf) in list(jobs) if sc.get("third", -1) >= 0]

    # another pair's handshake on the air at the same time (its accept and confirm, addressed to neither device under
    # test, heard by both gateways at 5 .. 75 ms): unrelated binding traffic, the prediction does not change
    for n, (o, sc, pa, pf) in enumerate(list(jobs)):
        if n % 3 == 1:
            jobs.append((o + "+foreignpair", dict(sc, foreign=[5 + 10 * ((n // 3 + k) % 8) for k in range(3)]), pa, pf))
    # the retry follows the first round closely (0 / 50 ms / 2 s after the attempts ended) instead of after every
    # state timer has fired: "afterwards ... a new attempt can start" does not say "after a pause"
    base_jobs = list(jobs)
    for n, (o, sc, pa, pf) in enumerate(base_jobs):
        if n % 2 == 0:
            jobs.append((o + "+soon", dict(sc, retry_after=(0.0, 0.05, 2.0)[(n // 2) % 3]), pa, pf))

    # the pair's second binding is one without the fourth frame, after a first with it (what the first left behind
    # must not reach into the second): round 2 is the model's round 2 either way - a complete, loss-free handshake
    for n, (o, sc, pa, pf) in enumerate(base_jobs):
        if X.RATIFY[sc["flow"]] and n % 2 == 1:
            jobs.append((o + "+plain2", dict(sc, plain2=1), pa, pf))

    import concurrent.futures as cf
    items, loop_exc, n_noisy = [], 0, 0
    with cf.ProcessPoolExecutor(max_workers=workers) as pool:
        for (origin, sc, pa, pf), (obs, lexc, ends) in zip(jobs, pool.map(_exec, [j[1] for j in jobs], chunksize=16)):
            items.append({"ratify": int(X.RATIFY[sc["flow"]]), "present": sc["present"], "third": sc["third"],
                          "sends": sc["sends"], "skew": list(sc.get("skew") or [0, 0]),
                          "obs": obs, "pred": pa, "predfix": pf})
            loop_exc += len(lexc)
            n_noisy += bool(lexc)
    t_exec = time.time() - t0 - t_mc

    # judge self-test: corrupted copies of a recorded observation must be rejected for the right clause
    n_real = len(items)
    good = [it for it in items if it["obs"]["r1"] == "ok" and it["obs"]["s1"] == "ok"]
    if good:
        p1 = json.loads(json.dumps(good[0]))
        p1["obs"]["r1"] = "ISE"
        p1["obs"]["br"] = 1
        p2 = json.loads(json.dumps(good[0]))
        p2["obs"]["dr1"] = 99000
        items += [p1, p2]
    res = validate(items, workers)
    if good:
        got = [{f[1] for f in res["rejects"].pop(i, ())} for i in range(n_real, len(items))]
        if not ({"C20b_error_type", "C20c_still_binding"} <= got[0] and "C20b_late" in got[1]):
            raise tlc.MachineryFailure(f"judge self-test: corrupted observations were not rejected as expected: {got}")
        del items[n_real:]
    states += res["states"]
    trans += res["transitions"]

    # ---- verdicts ---------------------------------------------------------------------------------------
    drift_f = drift_t = n_fail = 0
    first_drift: dict[str, dict] = {}
    samples: list[dict] = []
    for idx, fails in sorted(res["rejects"].items()):
        origin, sc, _, _ = jobs[idx]
        keys = []
        for f in fails:
            if f[1] == "DRIFT_F":
                drift_f += 1
                first_drift.setdefault("F", {"sc": sc, "obs": items[idx]["obs"], "pred": items[idx]["pred"]})
            elif f[1] == "DRIFT_T":
                drift_t += 1
                first_drift.setdefault("T", {"sc": sc, "obs": items[idx]["obs"], "pred": items[idx]["predfix"]})
            else:
                key = key_of(f)
                keys.append(key)
                chk.violation(key, f"{CLAUSE_TEXT.get(f[1], f[1])} [{f[2:]}; flow {sc['flow']}; schedule from {origin}]", sc)
        if keys:
            n_fail += 1
            if len(samples) < 5:
                samples.append({"scenario": sc, "observed": items[idx]["obs"], "failed": sorted(set(keys))})
    for j, it in list(zip(jobs, items))[:3]:
        samples.append({"scenario": j[1], "observed": it["obs"], "failed": []})
    n = len(items)
    if drift_f == 0:
        conforms = "as-is model (Fix = FALSE)"
    elif drift_t == 0:
        conforms = "repaired model (Fix = TRUE)"
        chk.note(f"the code's outcomes equal the repaired model's on all {n} executions ({drift_f} differ from the as-is model)")
    else:
        conforms = "neither"
        for tag in ("F", "T"):
            if tag in first_drift:
                d = first_drift[tag]
                chk.model_drift(f"outcome differs from the {'as-is' if tag == 'F' else 'repaired'} model's "
                                f"({drift_f if tag == 'F' else drift_t} of {n}); first: {json.dumps(d['sc'])} "
                                f"observed {json.dumps({k: d['obs'][k] for k in ('r1', 's1', 'br', 'bs', 'r2', 's2', 'rt', 'st')})} "
                                f"predicted {json.dumps(d['pred'][:2])}")
    chk.finish(
        coverage={
            "states": states,
            "transitions": trans,
            "traces_validated_against_impl": n,
            "samples": samples,
            "tlc_runs": mc,
            "schedules": {"three_frame_flows": n_scen[False], "four_frame_flows": n_scen[True],
                          "counterexamples": len(cands), "flows": FLOWS3 + FLOWS4,
                          "three_frame_x_skew": len(preds_skew[False]), "four_frame_x_skew": len(preds_skew[True]),
                          "packet_clock_offsets_ms": sorted(list(k) for k in skews),
                          "executions_with_skewed_packet_clock": sum(1 for j in jobs if any(j[1].get("skew") or [0, 0]))},
            "executions_with_failed_clause": n_fail,
            "conforms_to": conforms,
            "outcomes_differing_from_as_is_model": drift_f,
            "outcomes_differing_from_repaired_model": drift_t,
            "executions_with_loop_exceptions_J15": n_noisy,
            "loop_exceptions_seen_J15": loop_exc,
            "judge_selftest": "corrupted outcome kind / is_binding / duration were rejected by BindingTrace",
            "wall_split_s": {"tlc_mc": round(t_mc, 1), "execute": round(t_exec, 1), "judge": round(res["wall_s"], 1)},
        },
        assumptions=[
            "a gateway always hears the echo of its own transmission (loss/delay only between the two parties; echo delay 10 or 150 ms)",
            "a frame goes out 10 ms after the send starts (impersonation alert first); copies reach the peer after the scripted delays",
            "a gateway's packets are stamped by a clock at a constant offset (0, +-250 ms, -5 s; per gateway) from the gateway's own clock; a clock that drifts or steps during a handshake is not scripted",
            "third-party traffic = one offer of a third device heard by the respondent (accepts/confirms between third parties are not routed to the devices under test)",
            "J10: stated waits = 5 s / 3 s per wait plus 10 s (BINDING_QOS) per frame sent; J15: loop-handler exceptions are recorded, not judged",
            "a result and a time-out falling into the same loop iteration are not modelled",
        ],
    )


if __name__ == "__main__":
    main_wrapper(PID, main)

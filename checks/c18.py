"""C18 - schedule transfers end cleanly under faults and never return a mixed schedule.

    bin/check C18 quick|thorough            bin/check C18 --replay FILE

1. TLC model-checks spec/SchedXfer.tla (MC_SchedXfer*.cfg): the code as it is (Fix = FALSE) and the
   repaired action (Fix = TRUE); safety clauses, deadlock freedom, liveness.
2. Fault schedules are taken out of TLC (counter-examples, exhaustive enumeration of maximal
   behaviours, random simulation) and executed against a real Gateway + scripted controller in
   virtual time (harness/ext_c18.py).
3. Every recorded execution is judged by TLC (spec/SchedXferTrace.tla): the C18 clauses, and the
   conformance of the real objects with the model's functional core (drift, never a violation).
See checks/c18_NOTES.md.
"""
from __future__ import annotations

import json
import os
import random
import shutil
import tempfile
import time
from typing import Any

from harness import fakes, tlc
from harness import ext_c18 as X
from harness.report import Check, main_wrapper

PID = "C18"

CLAUSE_TEXT = {
    "C18a_hang": "a transfer did not end (still pending at the horizon)",
    "C18a_none": "get_schedule returned nothing without raising",
    "C18a_stale": "get_schedule returned a schedule the controller did not hold at/after the change counter it relied on "
                  "(read: one it read itself; cached / expired: one cached inside / beyond the 3-minute window; "
                  "first-fragment-unchanged: the controller's schedule differs from the one returned only after its first "
                  "fragment - the cached fragment set was re-validated by fragment 1 alone, re-fetched or overheard)",
    "C18a_set_result": "set_schedule returned something else than the schedule written",
    "C18b_mixed": "the returned schedule is no pure version (stitched / unknown)",
    "C18c_lock_left": "zone_lock_idx still set when no transfer is in progress",
    "C18c_followup": "a fault-free follow-up get_schedule did not return the controller's schedule",
    "C18c_cancelled_by_another_transfer": "a transfer that nobody cancelled ended with CancelledError (another transfer's "
                                          "abandonment took it down)",
}


def key_of(f: tuple) -> str:
    """Canonical key of a failed clause tuple <<line, clause, d1, d2, d3>> (no counts, no times)."""
    _, clause, d1, d2, d3 = f
    if clause == "C18c_lock_left":
        return f"C18c:lock-left:{d1}:{d2}@{d3}"  # op : exit kind @ the await it was at
    if clause == "C18c_followup":
        return f"C18c:followup:{d1}:{d2}:{d3 or 'clean'}"  # exit : lock at the end of the main phase : what it met
    if clause == "C18a_stale":
        return f"C18a:stale:{d1}:{d2}"  # d2: read | cached | expired | first-fragment-unchanged
    if clause == "C18a_hang":
        return f"C18a:hang:{d1}@{d2}"
    return clause.replace("_", ":", 1)


# --------------------------------------------------------------------------------------------------
def validate(items: list[dict], workers: int) -> dict[str, Any]:
    """Batch trace validation with multi-line verdict parsing (the fail tuples are long)."""
    rejects: dict[int, tuple] = {}
    states = trans = 0
    wall = 0.0
    tmp = tempfile.mkdtemp(prefix="c18tr_")
    try:
        chunk = 2500
        for base in range(0, len(items), chunk):
            part = items[base: base + chunk]
            f = os.path.join(tmp, f"b{base}.json")
            with open(f, "w") as fh:
                json.dump(part, fh, separators=(",", ":"))
            r = tlc.run_tlc("SchedXferTrace", "SchedXferTrace.cfg", workers=workers, env={"TRACE_FILE": f},
                            timeout=900, parse_prints=False)
            wall += r.wall_s
            if not r.ok:
                raise tlc.MachineryFailure(f"SchedXferTrace failed: {r.violated} {r.errors[:3]}\n{r.out[-2500:]}")
            seen = set()
            for txt in X.extract_tagged(r.out, "VERDICT"):
                v = tlc.parse_value(txt)
                seen.add(v[1])
                if v[2] != ():
                    rejects[base + v[1] - 1] = v[2]
            if len(seen) != len(part):
                raise tlc.MachineryFailure(f"SchedXferTrace: {len(part) - len(seen)} of {len(part)} items got no verdict")
            states += r.distinct
            trans += r.states
            os.unlink(f)
    finally:
        shutil.rmtree(tmp, ignore_errors=True)
    return {"rejects": rejects, "states": states, "transitions": trans, "wall_s": wall, "n": len(items)}


def scen_of_trace(error_trace: list[tuple[str, dict]], zones: list[int]) -> dict | None:
    for _, st in reversed(error_trace):
        if "h" in st:
            h = X.h_to_list(st["h"])
            # complete the scenario with follow-ups if the counter-example stopped before them
            fu = [e[1] for e in h if e[0] == "fu"]
            last = [e[2] for e in h if e[0] == "start"][-1:] or [zones[0]]
            for z in [z for z in zones if z != last[0]] + last:
                if z not in fu:
                    h.append(["fu", z, 0, 0, 0, 0, -1])
                    fu.append(z)
            return {"zones": zones, "h": h}
    return None


def scenarios_from_output(out: str, zones: list[int]) -> list[dict]:
    seen, res = set(), []
    for txt in X.extract_tagged(out, "H"):
        if txt in seen:
            continue
        seen.add(txt)
        res.append({"zones": zones, "h": X.h_to_list(tlc.parse_value(txt)[1])})
    return res


def add_transparent(sc: dict, rnd: random.Random) -> dict:
    """A variant with 'slow' (first transmission unanswered) / 'dup' (reply delivered twice) exchanges:
    faults the QoS layer absorbs; the model treats them as ok, so the trace must still conform."""
    sc2 = {"zones": sc["zones"], "h": sc["h"], "extra": {}}
    tids = [e[1] for e in sc["h"] if e[0] == "start"] + [100 + e[1] for e in sc["h"] if e[0] == "fu"]
    for _ in range(rnd.randint(1, 3)):
        sc2["extra"][f"{rnd.choice(tids)}:{rnd.randint(1, 5)}"] = rnd.choice(["slow", "dup"])
    return sc2


def bump_sweep() -> list[dict]:
    """Code-side sweep that does not depend on the model's idea of where the awaits are: a get (fresh or stale
    cached counter, forced or not) with the controller's schedule changed right before exchange n of that
    transfer, for every n up to well past the exchanges the current code makes (a trigger that is never reached
    is flushed after the transfer), plus the same around a write; forced follow-ups on every zone then show what
    was filed under which change counter."""
    out = []
    for z, other in ((1, 2), (2, 1)):
        for n in range(0, 8):
            for pre in ((), (["heard6", 0, 0, 0, 0, 0, -1],), (["heard6", 0, 0, 0, 0, 0, -1], ["age", 0, 0, 0, 0, 0, -1])):
                for force in (0, 1):
                    h = [list(e) for e in pre] + [["start", 1, z, 0, force, 0, -1], ["bump", z, 0, 0, 0, 1, n],
                                                  ["fu", z, 0, 0, 0, 0, -1], ["fu", other, 0, 0, 0, 0, -1]]
                    out.append({"zones": [1, 2], "h": h})
            # the same with the edit crossing a change in the number of fragments (versions 0, 1: two fragments,
            # 2 and up: three) and between two three-fragment versions
            for init in (1, 2):
                for force in (0, 1):
                    h = [["bump", z, 0, 0, 0, 0, -1]] * init + [["start", 1, z, 0, force, 0, -1], ["bump", z, 0, 0, 0, 1, n],
                                                                ["fu", z, 0, 0, 0, 0, -1], ["fu", other, 0, 0, 0, 0, -1]]
                    out.append({"zones": [1, 2], "h": [list(e) for e in h]})
            # a second, unforced get of the same zone after the first (cached result must not outlive the counter)
            h = [["heard6", 0, 0, 0, 0, 0, -1], ["start", 1, z, 0, 0, 0, -1], ["bump", z, 0, 0, 0, 1, n],
                 ["start", 2, z, 0, 0, 1, -1], ["fu", z, 0, 0, 0, 0, -1]]
            out.append({"zones": [1, 2], "h": h})
    return out


def stitch_sweep(rnd: random.Random, n_pairs: int) -> tuple[int, dict, list[dict]]:
    """The model's assumption ZlibDetects (SchedXfer.tla: a fragment set mixed from two versions never decodes),
    bound to the real decoder: pairs of plain schedules with the same number of fragments, every way of stitching the
    head of one to the tail of the other -> fragz_to_full_sched() must raise, or return one of the two schedules.
    Returns (sets tried, outcome histogram, offending sets)."""
    from ramses_rf.system.schedule import fragz_to_full_sched, full_sched_to_fragz

    def plain(nsp: int, base: float, step: float, t0: int, dt_: int, days: int = 7) -> dict:
        return {"zone_idx": "01", "schedule": [
            {"day_of_week": d, "switchpoints": [
                {"time_of_day": f"{(t0 + dt_ * i) % 24:02d}:{(10 * ((d * step_min + i) % 6)):02d}",
                 "heat_setpoint": min(35.0, base + step * i + (0.5 * d if vary_days else 0.0))} for i in range(nsp)]}
            for d in range(days)]}

    tried, hist, bad = 0, {"raises": 0, "one-of-the-two": 0}, []
    for _ in range(n_pairs):
        nsp = rnd.randint(3, 5)
        vary_days, step_min = rnd.random() < 0.3, rnd.choice((0, 0, 1))
        a = plain(nsp, rnd.randint(20, 49) / 2, rnd.choice((0.5, 1.0, 1.5)), rnd.randint(5, 8), rnd.choice((2, 3, 4)))
        b = plain(nsp, rnd.randint(20, 49) / 2, rnd.choice((0.5, 1.0, 1.5)), rnd.randint(5, 8), rnd.choice((2, 3, 4)))
        fa, fb = full_sched_to_fragz(a), full_sched_to_fragz(b)
        if fa == fb or len(fa) != len(fb) or len(fa) < 2:
            continue
        for old, new in ((fa, fb), (fb, fa)):
            for k in range(1, len(old)):
                tried += 1
                mix = list(old[:k]) + list(new[k:])
                try:
                    got = fragz_to_full_sched(mix)
                except Exception:  # noqa: BLE001 - any error makes the fetch start over / end with an error
                    hist["raises"] += 1
                    continue
                if got in (fragz_to_full_sched(old), fragz_to_full_sched(new)):
                    hist["one-of-the-two"] += 1
                    continue
                if len(bad) < 3:
                    bad.append({"old": a if old is fa else b, "new": b if old is fa else a, "head_fragments": k,
                                "decoded": str(got)[:400]})
                hist["neither"] = hist.get("neither", 0) + 1
    return tried, hist, bad


def overheard_sweep() -> list[dict]:
    """A zone's transfer waits for the lock (another zone is being read) while the controller is overheard sending
    that zone's schedule to somebody else - the whole set or part of it - and the schedule is edited before one of the
    transfer's own exchanges: what was overheard is an old schedule by the time the transfer reads the counter."""
    out = []
    for a, b in ((1, 2), (2, 1)):            # a waits while b is read
        for pre in ([["heard6", 0, 0, 0, 0, 0, -1]], []):
            for frs in ((1, 2), (2, 1), (1,), (2,)):
                for at in (1, 2):            # overheard before exchange `at` of b's transfer
                    for n in (0, 1, 2):      # edited before exchange n of a's own transfer
                        h = pre + [["start", 1, b, 0, 0, 0, -1], ["start", 2, a, 0, 0, 0, -1]] + \
                            [["heard", a, 0, k, 0, 1, at] for k in frs] + \
                            [["bump", a, 0, 0, 0, 2, n], ["fu", a, 0, 0, 0, 0, -1], ["fu", b, 0, 0, 0, 0, -1]]
                        out.append({"zones": [1, 2], "h": [list(e) for e in h]})
    return out


def refetch_sweep() -> list[dict]:
    """'Another gateway re-fetches': a zone's schedule has been fetched; it is edited on the controller (once or twice, also
    across a change in the number of fragments); then the controller is overheard answering another device - its RP|0006
    (the counter as it is now; or not) followed by a PREFIX (none, the first, .., all) of the RP|0404 fragments of the zone's
    current schedule; then this gateway fetches the zone again, forced or not (the model's HeardVer / HeardFrag, combined;
    ordinary zones: every fragment of every version differs, so a stale result is not the first-fragment defect)."""
    out = []
    for z, other in ((1, 2), (2, 1)):
        for init in (0, 1):                  # the version first fetched
            for edits in (1, 2):
                cur = init + edits
                nfr = 2 if cur < 2 else 3
                for h6 in (1, 0):
                    for p in range(0, nfr + 1):
                        if not h6 and p == 0:
                            continue
                        for force in (1, 0):
                            h = [["bump", z, 0, 0, 0, 0, -1]] * init + [["start", 1, z, 0, 0, 0, -1]] + \
                                [["bump", z, 0, 0, 0, 1, -1]] * edits + ([["heard6", 0, 0, 0, 0, 1, -1]] if h6 else []) + \
                                [["heard", z, cur, k, 0, 1, -1] for k in range(1, p + 1)] + \
                                [["start", 2, z, 0, force, 1, -1], ["fu", z, 0, 0, 0, 0, -1], ["fu", other, 0, 0, 0, 0, -1]]
                            out.append({"zones": [1, 2], "h": [list(e) for e in h]})
    return out


def concurrent_sweep() -> list[dict]:
    """Two zones that already hold a schedule re-read at the same moment (forced, or after the cached counter has
    aged), one of them with a fault at each of its first exchanges: version reads happen *before* the lock is
    taken, so this is where two transfers wait on the controller at once.  The other transfer has no fault on its
    own path and must end normally."""
    out = []
    for bad, good in ((1, 2), (2, 1)):
        for fault in ("timeout", "cancel", "lost", "rlost"):
            for n in range(0, 4):
                for force_bad, force_good in ((1, 1), (1, 0), (0, 1)):
                    h = [["start", 1, bad, 0, 0, 0, -1], ["start", 2, good, 0, 0, 1, -1],
                         ["start", 3, bad, 0, force_bad, 2, -1], ["start", 4, good, 0, force_good, 2, -1],
                         [fault, 3, n, 0, 0, 0, 0], ["fu", 1, 0, 0, 0, 0, -1], ["fu", 2, 0, 0, 0, 0, -1]]
                    out.append({"zones": [1, 2], "h": h})
                h = [["start", 1, bad, 0, 0, 0, -1], ["start", 2, good, 0, 0, 1, -1], ["age", 0, 0, 0, 0, 2, -1],
                     ["start", 3, bad, 0, 0, 2, -1], ["start", 4, good, 0, 0, 2, -1],
                     [fault, 3, n, 0, 0, 0, 0], ["fu", 1, 0, 0, 0, 0, -1], ["fu", 2, 0, 0, 0, 0, -1]]
                out.append({"zones": [1, 2], "h": h})
    return out


def retry_sweep() -> list[dict]:
    """A write that fails part-way (each fault at each of its exchanges) is retried with the very same schedule (the
    harness derives the content from the controller's version, which a failed write has not changed), with and without
    a cached schedule from an earlier read: the retry must write it, and the follow-up read must return it."""
    out = []
    for z, other in ((1, 2), (2, 1)):
        for fault in ("lost", "rlost", "cancel", "timeout"):
            for n in range(0, 5):
                for cached in (1, 0):
                    h = ([["start", 1, z, 0, 0, 0, -1]] if cached else []) + [
                        ["start", 2, z, 1, 0, 1 if cached else 0, -1], [fault, 2, n, 0, 0, 0, 0],
                        ["start", 3, z, 1, 0, 2, -1], ["fu", z, 0, 0, 0, 0, -1], ["fu", other, 0, 0, 0, 0, -1]]
                    out.append({"zones": [1, 2], "h": h})
    return out


def onefrag_sweep() -> list[dict]:
    """Zones whose schedule fits a single fragment (one switch-point a day): reads, forced re-reads, a controller
    edit before each exchange, lost exchanges, next to an ordinary zone."""
    out = []
    for small in ([2], [1], [1, 2]):
        z = small[0]
        other = 3 - z
        base = [["start", 1, z, 0, 0, 0, -1], ["start", 2, other, 0, 0, 1, -1], ["start", 3, z, 0, 1, 2, -1]]
        out.append({"zones": [1, 2], "onefrag": small, "h": base + [["fu", 1, 0, 0, 0, 0, -1], ["fu", 2, 0, 0, 0, 0, -1]]})
        for n in range(0, 4):
            out.append({"zones": [1, 2], "onefrag": small,
                        "h": [["start", 1, z, 0, 0, 0, -1], ["bump", z, 0, 0, 0, 1, n], ["fu", z, 0, 0, 0, 0, -1],
                              ["fu", other, 0, 0, 0, 0, -1]]})
            for fault in ("lost", "rlost"):
                out.append({"zones": [1, 2], "onefrag": small,
                            "h": [["start", 1, z, 0, 0, 0, -1], [fault, 1, n, 0, 0, 0, 0], ["start", 2, z, 0, 1, 1, -1],
                                  ["fu", z, 0, 0, 0, 0, -1], ["fu", other, 0, 0, 0, 0, -1]]})
    # a zone whose multi-fragment schedule has been fetched (or overheard) and is then replaced on the controller by one
    # that fits a single fragment, fetched again - forced, or after the cached counter has aged - and once more
    for z, other in ((1, 2), (2, 1)):
        for pre in ([["start", 1, z, 0, 0, 0, -1]], [["heard", z, 0, 1, 0, 0, 0], ["heard", z, 0, 2, 0, 0, 0]]):
            for again in ([["start", 2, z, 0, 1, 1, -1]], [["age", 0, 0, 0, 0, 1, -1], ["start", 2, z, 0, 0, 1, -1]]):
                h = pre + [["bump", z, 0, 0, 0, 0, -1], ["bump", z, 0, 0, 0, 0, -1]] + again + \
                    [["start", 3, z, 0, 1, 2, -1], ["fu", z, 0, 0, 0, 0, -1], ["fu", other, 0, 0, 0, 0, -1]]
                out.append({"zones": [1, 2], "shrink": [z], "h": [list(e) for e in h]})
    # (reads only: the shadow model's fragment count of a *written* schedule is fixed by its version number)
    return out


# How long "more than the freshness window" is: the model's AgeCache says nothing about the amount, the code
# computes with time stamps.  Every ageing of a scenario is executed with an elapsed time out of this sweep: just past
# the window, and around the periods at which representations of elapsed time wrap (hour, day, week) - one second
# either side of the period, a minute past it, and either side of period + window - and two days and a minute.
_W = int(X.WINDOW)
AGES = sorted({_W + 1, X.AGE_DEFAULT}
              | {p + o for p in (3600, 86400, 7 * 86400) for o in (-1, 1, 60, _W - 1, _W + 1)} | {2 * 86400 + 60})
WAITS = (1, 60, _W - 2)  # less than the window: no model event, the cached counter may still be gone by


def spread_ages(scens: list[tuple[str, dict]], start: int = 0) -> int:
    """Give every ageing that names no duration one out of AGES (round-robin over the whole list, in place)."""
    i = start
    for _, sc in scens:
        if any(e[0] == "age" and not e[1] for e in sc["h"]):
            h = []
            for e in sc["h"]:
                e = list(e)
                if e[0] == "age" and not e[1]:
                    e[1] = AGES[i % len(AGES)]
                    i += 1
                h.append(e)
            sc["h"] = h
    return i - start


def with_every_age(sc: dict) -> list[dict]:
    """One copy of the scenario per elapsed time of the sweep (all its ageings take that long)."""
    return [dict(sc, h=[[e[0], d] + list(e[2:]) if e[0] == "age" else list(e) for e in sc["h"]]) for d in AGES]


def age_sweep() -> list[dict]:
    """Code-side sweep of the freshness window of the cached change counter: the counter is read (by a fetch of the
    zone itself, by a fetch of another zone, overheard, or at the end of a write), the zone's schedule is - or is not -
    edited on the controller, a stretch of time passes with no RP|0006 on the air (every elapsed time of AGES; and less
    than the window: WAITS), then the zone is fetched again, unforced or forced; once more after another such stretch
    (the daily back-up); follow-ups on every zone."""
    out = []
    for z, other in ((1, 2), (2, 1)):
        srcs = {
            "own": [["start", 1, z, 0, 0, 0, -1]],
            "other": [["start", 1, z, 0, 0, 0, -1], ["start", 2, other, 0, 0, 1, -1]],
            "heard6": [["start", 1, z, 0, 0, 0, -1], ["heard6", 0, 0, 0, 0, 1, -1]],
            "set": [["start", 1, z, 0, 0, 0, -1], ["start", 2, z, 1, 0, 1, -1]],
        }
        fus = [["fu", z, 0, 0, 0, 0, -1], ["fu", other, 0, 0, 0, 0, -1]]
        for src, pre in srcs.items():
            last = max(e[1] for e in pre if e[0] == "start")
            for kind, amounts in (("age", AGES), ("wait", WAITS)):
                for d in amounts:
                    for edit, force, again in ((1, 0, 0), (0, 0, 0), (1, 1, 0), (1, 0, 1)):
                        if (src != "own" or z != 1) and (edit, force, again) != (1, 0, 0):
                            continue  # the variants: for the zone's own reading, on the first zone
                        if src != "own" and z != 1:
                            continue
                        h = pre + ([["bump", z, 0, 0, 0, last, -1]] if edit else []) + \
                            [[kind, d, 0, 0, 0, last, -1], ["start", last + 1, z, 0, force, last, -1]]
                        if again:
                            h += [[kind, d, 0, 0, 0, last + 1, -1], ["start", last + 2, z, 0, 0, last + 1, -1]]
                        out.append({"zones": [1, 2], "h": [list(e) for e in h + fus]})
        # two stretches, each shorter than the window, together longer
        h = srcs["own"] + [["bump", z, 0, 0, 0, 1, -1], ["wait", _W - 60, 0, 0, 0, 1, -1], ["wait", _W - 60, 0, 0, 0, 1, -1],
                           ["start", 2, z, 0, 0, 1, -1]]
        out.append({"zones": [1, 2], "h": [list(e) for e in h + fus]})
    return out


def edit_families(n_keep: int, n_ctl: int) -> tuple[list[list], list[list], dict]:
    """Search the seeded family of irregular weekly schedules (harness/ext_c18.py fam_sched) for chains A -> B -> C of
    single-set-point edits: `keep` = families whose first edit leaves fragment 1 byte-identical and the number of
    fragments unchanged, `ctl` = families whose first edit changes fragment 1 (controls).  Measured, not assumed."""
    keep, ctl, hist = [], [], {"tried": 0, "unusable": 0, "first_fragment_unchanged": 0, "first_fragment_changed": 0,
                                 "fragment_count_changed": 0}
    for seed in range(400):
        for where in ("late", "early"):
            if len(keep) >= n_keep and len(ctl) >= n_ctl:
                return keep, ctl, hist
            hist["tried"] += 1
            got = X.classify_family(seed, where)
            if got is None:
                hist["unusable"] += 1
                continue
            n, sh = got
            if n[0] != n[1]:
                hist["fragment_count_changed"] += 1
            elif 1 in sh[1]:
                hist["first_fragment_unchanged"] += 1
                if len(keep) < n_keep:
                    keep.append([seed, where])
            else:
                hist["first_fragment_changed"] += 1
                if len(ctl) < n_ctl:
                    ctl.append([seed, where])
    raise tlc.MachineryFailure(f"edit sweep: the family search found too few pairs: {hist}")


def fu_to_main(h: list[list]) -> list[list]:
    """The scenario with its follow-ups (forced fetches) made ordinary transfers of the main phase, one after the other."""
    out = [list(e) for e in h if e[0] != "fu"]
    tid = max([e[1] for e in out if e[0] == "start"] or [0])
    for e in h:
        if e[0] == "fu":
            tid += 1
            out.append(["start", tid, e[1], 0, 1, tid - 1, -1])
    return out


def edit_sweep(keep: list[list], ctl: list[list]) -> list[dict]:
    """A zone whose (irregular, 6-7 fragment) schedule A has been fetched; one late switch-point is edited on the controller
    (B; counter + 1; for the `keep` families fragment 1 of B has the very bytes of fragment 1 of A); the zone is fetched
    again - forced; unforced once the cached counter has aged; unforced after the new counter was overheard; forced after a
    second such edit.  And with B written through the library instead (set_schedule), fragment 1 of B then overheard
    (the controller answering another device), the zone fetched again.  C18a: the result must be the controller's
    schedule.  (No follow-ups: a forced fetch is part of the scenario itself.)"""
    out = []
    for fam in keep + ctl:
        for z in (1, 2):
            first = [["start", 1, z, 0, 0, 0, -1], ["bump", z, 0, 0, 0, 1, -1]]
            for rest in ([["start", 2, z, 0, 1, 1, -1]],
                         [["age", X.AGE_DEFAULT, 0, 0, 0, 1, -1], ["start", 2, z, 0, 0, 1, -1]],
                         [["heard6", 0, 0, 0, 0, 1, -1], ["start", 2, z, 0, 0, 1, -1]],
                         [["bump", z, 0, 0, 0, 1, -1], ["start", 2, z, 0, 1, 1, -1]]):
                out.append({"zones": [1, 2], "fam": {str(z): fam}, "h": [list(e) for e in first + rest]})
            for force in (1, 0):
                h = [["start", 1, z, 0, 0, 0, -1], ["start", 2, z, 1, 0, 1, -1], ["heard", z, 1, 1, 0, 2, -1],
                     ["start", 3, z, 0, force, 2, -1]]
                out.append({"zones": [1, 2], "fam": {str(z): fam}, "h": h})
            if fam is not keep[0]:
                break  # the second zone: once
    return out


def _exec(sc: dict) -> tuple[dict, int, int, int]:
    fakes.quiet_logging()
    rr = X.run_scenario(sc)
    return rr.item(), len(rr.ev), rr.loop_exc, len(rr.skipped)


# --------------------------------------------------------------------------------------------------
def do_replay(path: str) -> None:
    obj = json.load(open(path))
    sc = obj.get("replay", obj)
    if sc.get("stitch"):   # a stitched fragment set against the decoder
        from ramses_rf.system.schedule import fragz_to_full_sched, full_sched_to_fragz
        b = sc["stitch"]
        old, new = full_sched_to_fragz(b["old"]), full_sched_to_fragz(b["new"])
        try:
            got = fragz_to_full_sched(list(old[: b["head_fragments"]]) + list(new[b["head_fragments"]:]))
        except Exception as err:  # noqa: BLE001
            print(f"the stitched set is refused ({type(err).__name__}): not reproduced")
            raise SystemExit(0)
        bad = got not in (fragz_to_full_sched(old), fragz_to_full_sched(new))
        print(f"decoded: {json.dumps(got)[:400]}")
        print("REPRODUCED" if bad else "not reproduced")
        raise SystemExit(1 if bad else 0)
    print(f"replaying scenario: {json.dumps(sc)}")
    r = X.run_scenario(sc, verbose=True)
    res = validate([r.item()], 1)
    fails = res["rejects"].get(0, ())
    clauses = [f for f in fails if not f[1].startswith("DRIFT")]
    for f in fails:
        print("  TLC verdict:", f, "" if f[1].startswith("DRIFT") else f"-> key {key_of(f)}")
    print("REPRODUCED" if clauses else "not reproduced (all clauses hold on this execution)")
    raise SystemExit(1 if clauses else 0)


def main(tier: str, replay: str | None) -> None:
    fakes.quiet_logging()
    if replay:
        do_replay(replay)
        return
    chk = Check(PID, tier, "model_checking")
    quick = tier == "quick"
    workers = 4 if quick else 8
    rnd = random.Random(chk.seed)
    t0 = time.time()
    mc: dict[str, dict] = {}
    cand: list[tuple[str, dict]] = []  # (origin, scenario) to run first
    states = trans = 0

    def run_mc(cfg: str, expect_violated: list[str] | None = None, zones: list[int] | None = None, **kw: Any):
        nonlocal states, trans
        r = tlc.run_tlc("MC_SchedXfer", cfg, workers=workers, timeout=1500, deadlock=False, **kw)
        if r.errors:
            raise tlc.MachineryFailure(f"TLC error on {cfg}: {r.errors[:3]}\n{r.out[-2000:]}")
        mc[cfg] = {"states": r.states, "distinct": r.distinct, "depth": r.depth, "violated": r.violated,
                   "wall_s": round(r.wall_s, 1), "completed": r.completed}
        states += r.distinct
        trans += r.states
        exp = expect_violated or []
        if sorted(r.violated) != sorted(exp):
            if r.violated:  # a clause of the model failed unexpectedly: a candidate, replayed below
                sc = scen_of_trace(r.error_trace, zones or [1, 2])
                if sc:
                    cand.append((f"{cfg}:{','.join(r.violated)}", sc))
                chk.note(f"TLC: {cfg} refuted {r.violated} (expected {exp}); counter-example replayed on the code")
            else:
                chk.note(f"TLC: {cfg} did not refute {exp}: the as-is model no longer shows the recorded defect")
        elif r.violated:
            sc = scen_of_trace(r.error_trace, zones or [1, 2])
            if sc:
                cand.append((f"{cfg}:{','.join(r.violated)}", sc))
        return r

    # ---- 1. model checking -------------------------------------------------------------------
    sfx = "" if quick else "_thorough"
    run_mc(f"MC_SchedXfer{sfx}.cfg")  # as-is: TypeOK, ResultAsOfRead, NeverMixed, no deadlock
    run_mc(f"MC_SchedXfer_fix{sfx}.cfg")  # repaired: all five clauses, no deadlock
    run_mc("MC_SchedXfer_lock.cfg", ["LockFreeWhenIdle"])  # as-is: expected counter-examples
    run_mc("MC_SchedXfer_fu.cfg", ["FollowUpNormal"])
    # a whole set overheard while the transfer waits for the lock (two overheard fragments): the as-is model returns
    # the overheard - by then old - schedule; the repaired one (fix.stale) does not
    run_mc("MC_SchedXfer_heard.cfg", ["ResultAsOfRead"])
    run_mc("MC_SchedXfer_heard_fix.cfg")
    # an edit that leaves the first fragment of the compressed schedule as it was (Shared <- SharedHead): the code as it is
    # re-validates the cached fragment set by fragment 1 alone - the model returns the old schedule; the counter-example is
    # executed on a zone with real schedules of that kind (edit_families)
    fam_keep, fam_ctl, fam_hist = edit_families(6 if quick else 20, 3 if quick else 8)
    run_mc("MC_SchedXfer_head.cfg", ["ResultAsOfRead"])
    if not quick:
        run_mc("MC_SchedXfer_head_fix.cfg")  # the whole cached set dropped when the counter has gone up: every clause
        # ... which is not enough once a fragment is overheard: a write through the library leaves the cached fragment set
        # as it was, an overheard first fragment with the old bytes completes it again (Schedule._handle_msg)
        run_mc("MC_SchedXfer_head_heard.cfg", ["ResultAsOfRead"])
    for o, sc in cand:
        if o.startswith("MC_SchedXfer_head"):
            sc["fam"] = {str(z): fam_keep[0] for z in sc["zones"]}
            sc["h"] = fu_to_main(sc["h"])
    # the freshness window of the cached change counter: a gateway whose counter never expires must be refuted (the
    # clause has teeth); its counter-example is executed below with every elapsed time of AGES - on the real code, which
    # does let the counter expire, none of them may fail
    r = tlc.run_tlc("MC_SchedXfer", "MC_SchedXfer_ageignored.cfg", workers=workers, timeout=600, deadlock=False)
    if r.errors:
        raise tlc.MachineryFailure(f"TLC error on MC_SchedXfer_ageignored.cfg: {r.errors[:3]}\n{r.out[-2000:]}")
    mc["MC_SchedXfer_ageignored.cfg"] = {"violated": r.violated, "distinct": r.distinct, "wall_s": round(r.wall_s, 1),
                                         "note": "teeth: a cached counter that never expires refutes ResultAsOfRead"}
    if r.violated != ["ResultAsOfRead"]:
        raise tlc.MachineryFailure(f"MC_SchedXfer_ageignored.cfg: expected ResultAsOfRead to be refuted, got {r.violated}")
    teeth = scen_of_trace(r.error_trace, [1, 2])
    if teeth is None or not any(e[0] == "age" for e in teeth["h"]):
        raise tlc.MachineryFailure("MC_SchedXfer_ageignored.cfg: counter-example without an ageing")
    states += r.distinct
    trans += r.states
    if not quick:
        run_mc("MC_SchedXfer_age.cfg")  # three transfers, an edit, an ageing, an overheard RP|0006
        run_mc("MC_SchedXfer_live.cfg")  # every transfer ends (fairness), as-is and repaired
        run_mc("MC_SchedXfer_live_fix.cfg")
        run_mc("MC_SchedXfer_z3.cfg", zones=[1, 2, 3])
        run_mc("MC_SchedXfer_z3_fix.cfg", zones=[1, 2, 3])
        run_mc("MC_SchedXfer_fixlock_only.cfg", ["FollowUpNormal"])  # each repair alone is not enough
        run_mc("MC_SchedXfer_fixack_only.cfg", ["LockFreeWhenIdle"])
        r = tlc.run_tlc("MC_SchedXfer", "MC_SchedXfer_nozlib.cfg", workers=workers, timeout=600, deadlock=False)
        mc["MC_SchedXfer_nozlib.cfg"] = {"violated": r.violated, "distinct": r.distinct,
                                         "note": "assumption check: without the checksum NeverMixed fails"}
    t_mc = time.time() - t0

    # ---- 2. scenarios out of TLC -----------------------------------------------------------------
    scen: list[tuple[str, dict]] = list(cand)
    n_sim = 240 if quick else 3000
    r = tlc.run_tlc("MC_SchedXfer", "MC_SchedXfer_sim.cfg", workers=1, timeout=600, simulate=f"num={n_sim}",
                    depth=45, seed=chk.seed + 1, parse_prints=False)
    if r.errors:
        raise tlc.MachineryFailure(f"TLC simulation failed: {r.errors[:3]}")
    sim2 = scenarios_from_output(r.out, [1, 2])
    r = tlc.run_tlc("MC_SchedXfer", "MC_SchedXfer_sim3.cfg", workers=1, timeout=600,
                    simulate=f"num={n_sim // 3}", depth=60, seed=chk.seed + 2, parse_prints=False)
    if r.errors:
        raise tlc.MachineryFailure(f"TLC simulation failed: {r.errors[:3]}")
    sim3 = scenarios_from_output(r.out, [1, 2, 3])
    scen += [("simulate", s) for s in sim2] + [("simulate3", s) for s in sim3]
    n_enum_total = 0
    # exhaustive enumeration of the maximal behaviours (environment choice sets) of a bounded instance
    r = tlc.run_tlc("MC_SchedXfer", "MC_SchedXfer_scen_q.cfg" if quick else "MC_SchedXfer_scen.cfg",
                    workers=workers, timeout=900, deadlock=False, parse_prints=False)
    if not r.ok:
        raise tlc.MachineryFailure(f"scenario enumeration failed: {r.violated} {r.errors[:3]}")
    enum = scenarios_from_output(r.out, [1, 2])
    n_enum_total = len(enum)
    states += r.distinct
    trans += r.states
    cap = 400 if quick else 9000
    if len(enum) > cap:
        rnd.shuffle(enum)
        enum = enum[:cap]
    scen += [("enumerate", s) for s in enum]
    # the same for an instance with one ageing of the cached counter and one edit (no faults); the clauses are checked
    # on it in the same run
    r = tlc.run_tlc("MC_SchedXfer", "MC_SchedXfer_scen_age.cfg", workers=workers, timeout=900, deadlock=False,
                    parse_prints=False)
    if r.errors or (not r.ok and not r.violated):
        raise tlc.MachineryFailure(f"scenario enumeration (ageing) failed: rc={r.rc} {r.errors[:3]}\n{r.out[-2000:]}")
    if r.violated:  # a clause of the as-is model failed: a candidate, replayed on the code like any other
        sc = scen_of_trace(r.error_trace, [1, 2])
        if sc:
            cand.append((f"MC_SchedXfer_scen_age.cfg:{','.join(r.violated)}", sc))
            scen.append(cand[-1])
        chk.note(f"TLC: MC_SchedXfer_scen_age.cfg refuted {r.violated} (expected none); counter-example replayed on the code")
    mc["MC_SchedXfer_scen_age.cfg"] = {"states": r.states, "distinct": r.distinct, "depth": r.depth, "violated": r.violated,
                                       "wall_s": round(r.wall_s, 1), "completed": r.completed}
    enum_age = [s for s in scenarios_from_output(r.out, [1, 2]) if any(e[0] == "age" for e in s["h"])]
    n_enum_age_total = len(enum_age)
    states += r.distinct
    trans += r.states
    cap = 150 if quick else 2000
    if len(enum_age) > cap:
        rnd.shuffle(enum_age)
        enum_age = enum_age[:cap]
    scen += [("enumerate-age", s) for s in enum_age]
    scen += [("bump-sweep", s) for s in bump_sweep()]
    scen += [("concurrent-sweep", s) for s in concurrent_sweep()]
    scen += [("retry-sweep", s) for s in retry_sweep()]
    scen += [("onefrag-sweep", s) for s in onefrag_sweep()]
    scen += [("overheard-sweep", s) for s in overheard_sweep()]
    scen += [("refetch-sweep", s) for s in refetch_sweep()]
    n_aged = spread_ages(scen)  # every ageing so far gets an elapsed time out of AGES
    scen += [("age-sweep", s) for s in age_sweep()]
    scen += [("edit-sweep", s) for s in edit_sweep(fam_keep, fam_ctl)]
    scen += [("MC_SchedXfer_ageignored.cfg:ResultAsOfRead", s) for s in with_every_age(teeth)]
    # transparent-fault variants (slow / duplicated replies) of a sample
    base = [s for _, s in scen]
    for s in rnd.sample(base, min(len(base), 120 if quick else 2000)):
        scen.append(("transparent", add_transparent(s, rnd)))
    t_scen = time.time() - t0 - t_mc

    # ---- 3. execute on the real code ----------------------------------------------------------------
    items, runs = [], []
    n_events = 0
    loop_exc = 0
    skipped = 0
    import concurrent.futures as cf
    with cf.ProcessPoolExecutor(max_workers=workers) as pool:
        for (origin, sc), (item, nev, nexc, nskip) in zip(scen, pool.map(_exec, [sc for _, sc in scen], chunksize=16)):
            items.append(item)
            runs.append((origin, sc))
            n_events += nev
            loop_exc += nexc
            skipped += nskip
    t_exec = time.time() - t0 - t_mc - t_scen

    # ---- 3b. the model's assumption about the decoder, on the real decoder -----------------------------
    n_st, st_hist, st_bad = stitch_sweep(rnd, 1500 if quick else 20000)
    if st_hist["raises"] == 0:
        raise tlc.MachineryFailure("stitch sweep: no stitched set was refused - the sweep does not exercise the decoder")
    for b in st_bad[:1]:
        chk.violation("C18a:stitched-set-decodes",
                      "fragz_to_full_sched() turns a fragment set stitched from two versions of a zone's schedule (the "
                      f"first {b['head_fragments']} fragment(s) of the old one, the rest of the new one) into a schedule that "
                      f"is neither ({st_hist.get('neither', 0)} of {n_st} stitched sets): a fetch during which the schedule is "
                      f"edited returns it; decoded: {json.dumps(b['decoded'])[:300]}",
                      {"zones": [1], "h": [], "stitch": b})

    # ---- 4. TLC judges the recorded executions --------------------------------------------------
    # judge self-test: two corrupted copies of a recorded trace must be rejected for the right clause
    n_real = len(items)
    probe = json.loads(json.dumps(items[0]))
    ends = [i for i, e in enumerate(probe["ev"]) if e["k"] == "end" and e["s"] == "ok" and e["a"] >= 100]
    if ends:
        probe["ev"][ends[-1]]["b"] += 3  # a version the controller never held
        items.append(probe)
    probe2 = json.loads(json.dumps(items[0]))
    probe2["ev"][-1]["p"]["lock"] = 1  # lock still set at the end
    items.append(probe2)
    res = validate(items, workers)
    got = [{f[1] for f in res["rejects"].pop(i, ())} for i in range(n_real, len(items))]
    want = ([{"C18a_stale", "C18c_followup"}] if ends else []) + [{"C18c_lock_left"}]
    if any(not (w <= g) for w, g in zip(want, got)):
        raise tlc.MachineryFailure(f"judge self-test: corrupted traces were not rejected as expected: {got}")
    del items[n_real:]
    states += res["states"]
    trans += res["transitions"]

    # ---- 5. verdicts ------------------------------------------------------------------------------
    n_clause_fail = 0
    drift_f = drift_t = 0
    first_drift: dict[str, tuple[str, dict, tuple]] = {}
    samples: list[dict] = []
    for idx, fails in sorted(res["rejects"].items()):
        origin, sc = runs[idx]
        keys_here = []
        lock_left = any(f[1] == "C18c_lock_left" for f in fails)
        for f in fails:
            if f[1] == "DRIFT_F":
                drift_f += 1
                first_drift.setdefault("F", (origin, sc, f))
            elif f[1] == "DRIFT_T":
                drift_t += 1
                first_drift.setdefault("T", (origin, sc, f))
            else:
                if f[1] == "C18c_followup" and lock_left and f[4] == "lockheld" and f[2] == "timeout":
                    continue  # a waiter's time-out is the consequence of the lock left behind (reported in this trace)
                key = key_of(f)
                keys_here.append(key)
                chk.violation(key, f"{CLAUSE_TEXT.get(f[1], f[1])} [event {f[0]}: {f[2:]}; scenario from {origin}]", sc)
        if keys_here:
            n_clause_fail += 1
            if len(samples) < 6:
                samples.append({"origin": origin, "scenario": sc["h"], "failed": sorted(set(keys_here))})
    for origin, sc in runs[:3]:
        if len(samples) < 9:
            samples.append({"origin": origin, "scenario": sc["h"], "failed": []})
    # conformance: the code must follow the as-is model, or (once repaired) the repaired model
    n = len(items)
    if drift_f == 0:
        conforms = "as-is model (Fix = FALSE)"
    elif drift_t == 0:
        conforms = "repaired model (Fix = TRUE)"
        chk.note(f"the code conforms to the repaired model on all {n} executions ({drift_f} deviate from the as-is model)")
    else:
        conforms = "neither"
        for tag in ("F", "T"):
            if tag in first_drift:
                o, sc, f = first_drift[tag]
                chk.model_drift(f"execution deviates from the {'as-is' if tag == 'F' else 'repaired'} model at event {f[0]} "
                                f"({f[2]}); {drift_f if tag == 'F' else drift_t} of {n} executions; first: {json.dumps(sc['h'])}")
    for origin, sc in cand:
        # (the counter-examples of the as-is instances - lock, fu, heard - are expected not to reproduce once the
        #  code follows the repaired model)
        if origin.split(":")[1] not in ("LockFreeWhenIdle", "FollowUpNormal") and \
                not (origin.startswith("MC_SchedXfer_heard.cfg") and conforms.startswith("repaired")):
            i = [j for j, (o, _) in enumerate(runs) if o == origin][0]
            if not any(not f[1].startswith("DRIFT") for f in res["rejects"].get(i, ())):
                chk.model_drift(f"TLC refuted {origin} on the model but the real code does not reproduce it")

    chk.finish(
        coverage={
            "states": states,
            "transitions": trans,
            "traces_validated_against_impl": n,
            "samples": samples,
            "tlc_runs": mc,
            "scenarios": {"counterexamples": len(cand), "simulated_2_zones": len(sim2), "simulated_3_zones": len(sim3),
                          "enumerated_total": n_enum_total, "enumerated_run": len(enum),
                          "enumerated_with_ageing_total": n_enum_age_total, "enumerated_with_ageing_run": len(enum_age),
                          "age_sweep": sum(1 for o, _ in runs if o == "age-sweep"),
                          "edit_sweep": sum(1 for o, _ in runs if o == "edit-sweep"),
                          "edit_sweep_families": {"first_fragment_unchanged": fam_keep, "controls": fam_ctl, "search": fam_hist},
                          "elapsed_times_s": AGES, "ageings_given_an_elapsed_time": n_aged,
                          "transparent_variants": sum(1 for o, _ in runs if o == "transparent")},
            "events_recorded": n_events,
            "assumption_ZlibDetects_on_the_real_decoder": {"stitched_sets": n_st, **st_hist},
            "executions_with_failed_clause": n_clause_fail,
            "conforms_to": conforms,
            "executions_deviating_from_as_is_model": drift_f,
            "executions_deviating_from_repaired_model": drift_t,
            "judge_selftest": "corrupted result version and corrupted final lock were rejected by SchedXferTrace",
            "loop_exceptions_seen": loop_exc,
            "environment_events_skipped": skipped,
            "wall_split_s": {"tlc_mc": round(t_mc, 1), "scenarios": round(t_scen, 1), "execute": round(t_exec, 1),
                             "judge": round(res["wall_s"], 1)},
        },
        assumptions=[
            "a fragment set mixing two versions fails to decompress (zlib checksum); C17 owns that codec claim",
            "the controller only sends fragments of its current content; no second writer changes a zone while it is being written",
            "one exchange is atomic: ok | request lost | reply lost (send raises after the QoS retries); slow/duplicated replies are absorbed by QoS",
            "schedules have 2-3 fragments (1-fragment schedules hit the shared EMPTY_PAYLOAD_SET defect owned by C17)",
            "one transfer per zone at a time (the quantifier speaks of concurrent transfers for 2-3 zones)",
        ],
    )


if __name__ == "__main__":
    main_wrapper(PID, main)

"""C07 — see checks/qos_common.py, spec/QosContract.tla, spec/QosFsm.tla, DESIGN.md §4."""
from checks.qos_common import run_check
from harness.report import main_wrapper

if __name__ == "__main__":
    main_wrapper("C07", lambda tier, replay: run_check("C07", tier, replay))

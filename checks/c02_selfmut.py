"""Self-mutation demonstration for C02 (not a check): small, realistic code mutations applied to a scratch
copy of /repo/src; `bin/check C02 quick` must print VIOLATION for each (and must NOT for the non-alarms).

  cd /verif && /venv/bin/python -m checks.c02_selfmut [name ...]
"""
from __future__ import annotations

import os
import shutil
import subprocess
import sys
import tempfile

FR, CMD, ADR, LOG, PKT, TRN = ("ramses_tx/frame.py", "ramses_tx/command.py", "ramses_tx/address.py", "ramses_tx/logger.py",
                               "ramses_tx/packet.py", "ramses_tx/transport.py")
FIX_TS = (LOG, '        if hasattr(rv, "dtm"):  # if dtm := extra.get("dtm"):\n            ct = rv.dtm.timestamp()',
          '        if hasattr(rv, "_dtm"):\n            ct = rv._dtm.timestamp()')

# name: (edits [(file, old, new)], part, key fragment expected)
MUTATIONS = {
    "validate_payload_slice_off_by_one": ([(FR, 'len(self._frame[46:].split(" ")[0])', 'len(self._frame[47:].split(" ")[0])')], "frames", "C02a:cmd:rejected"),
    "validate_addr_slice_off_by_one": ([(FR, "            src, dst, *addrs = pkt_addrs(self._frame[7:36])", "            src, dst, *addrs = pkt_addrs(self._frame[7:35])")], "frames", "C02a:cmd:rejected"),
    "from_attrs_int_seqn_two_digits": ([(CMD, 'seqn = f"{int(seqn):03d}"', 'seqn = f"{int(seqn):02d}"')], "frames", "C02a:attrs:rejected"),
    "addr_shape1_refuses_broadcast_dst": ([(ADR, "            and addrs[1] == NON_DEV_ADDR\n            and addrs[2] != NON_DEV_ADDR\n",
                                            "            and addrs[1] == NON_DEV_ADDR\n            and addrs[2] not in (NON_DEV_ADDR, ALL_DEV_ADDR)\n")], "frames", ":rejected"),
    "from_cli_two_addr_branches_swapped": ([(CMD, "        elif len(parts) == 2 and parts[0] == parts[1]:", "        elif len(parts) == 2 and parts[0] != parts[1]:")], "frames", "C02a:cli2"),
    "from_cli_seqn_always_default": ([(CMD, 'seqn = "---" if DEVICE_ID_REGEX.ANY.match(parts[0]) else parts.pop(0)',
                                       'seqn = "---" if DEVICE_ID_REGEX.ANY.match(parts[0]) else (parts.pop(0) and "---")')], "frames", "C02a:cli"),
    "repr_len_from_payload_unpadded": ([(FR, "                    self.len_,\n                    self.payload,", "                    str(self._len),\n                    self.payload,")], "frames", "printed_text_differs"),
    "log_time_millisecond_precision": ([(LOG, "    precision = 6\n", "    precision = 3\n")], "logs", "C02b:pktlog:packet_lost_on_replay"),
    "packet_rssi_two_chars": ([(PKT, "self._rssi: str = frame[0:3]", "self._rssi: str = frame[0:2]")], "logs", "C02b:pktlog:"),
    "log_frame_without_rssi": ([(LOG, """extra["frame"] = f" {extra['_rssi']} {extra['frame']}\"""", """extra["frame"] = f" {extra['frame']}\"""")], "logs", "C02b:pktlog:"),
    # timestamps: only visible once the known finding is repaired -> mutate the *fixed* tree
    "FIXED+reader_dtm_slice_25": ([FIX_TS, (TRN, "self._frame_read(dtm_pkt_line[:26], dtm_pkt_line[27:])", "self._frame_read(dtm_pkt_line[:25], dtm_pkt_line[27:])")],
                                  "logs", "C02b:pktlog:timestamp_differs"),
    "FIXED+log_time_from_seconds_only": ([FIX_TS, (LOG, "            rv.created = ct\n            rv.msecs = (ct - int(ct)) * 1000", "            rv.created = int(ct)\n            rv.msecs = (ct - int(ct)) * 1000")],
                                         "logs", "C02b:pktlog:timestamp_differs"),
}
NON_ALARMS = {   # behaviour the property leaves open: exit 0, MODEL-DRIFT
    "addr_shape2_accepts_dst_equal_src": ([(ADR, "            and addrs[1] not in (NON_DEV_ADDR, addrs[0])\n", "            and addrs[1] != NON_DEV_ADDR\n")], "frames", "MODEL-DRIFT"),
    "log_line_two_spaces_before_rssi": ([(LOG, """extra["frame"] = f" {extra['_rssi']} {extra['frame']}\"""", """extra["frame"] = f"  {extra['_rssi']} {extra['frame']}\"""")], "logs", "MODEL-DRIFT"),
}


def run(name: str) -> bool:
    alarm = name in MUTATIONS
    edits, part, frag = (MUTATIONS if alarm else NON_ALARMS)[name]
    tmp = tempfile.mkdtemp(prefix="c02mut_")
    try:
        shutil.copytree("/repo/src", f"{tmp}/src")
        for (f, old, new) in edits:
            p = f"{tmp}/src/{f}"
            txt = open(p).read()
            if txt.count(old) != 1:
                print(f"{name}: MUTATION DOES NOT APPLY ({f}: pattern found {txt.count(old)}x)")
                return False
            open(p, "w").write(txt.replace(old, new))
        env = dict(os.environ, VERIF_REPO_SRC=f"{tmp}/src", VERIF_C02_ONLY=part)
        cp = subprocess.run(["bin/check", "C02", "quick"], cwd="/verif", env=env, capture_output=True, text=True)
        keys = [ln.split("clause/key:")[1].strip() for ln in cp.stdout.splitlines() if "clause/key:" in ln]
        if alarm:
            ok = cp.returncode == 1 and any(frag in k for k in keys)
            print(f"{name}: exit={cp.returncode} {'CAUGHT' if ok else 'MISSED'} keys={keys[:6]}")
        else:
            ok = cp.returncode == 0 and frag in cp.stdout
            print(f"{name}: exit={cp.returncode} {'NOT ALARMED, drift reported' if ok else 'UNEXPECTED'} keys={keys[:4]}")
        if not ok:
            print(cp.stdout[-1500:], cp.stderr[-600:])
        return ok
    finally:
        shutil.rmtree(tmp, ignore_errors=True)
        shutil.rmtree("/verif/replays/C02", ignore_errors=True)


if __name__ == "__main__":
    names = sys.argv[1:] or (list(MUTATIONS) + list(NON_ALARMS))
    res = [run(n) for n in names]
    print(f"{sum(res)}/{len(res)} as expected")
    sys.exit(0 if all(res) else 1)

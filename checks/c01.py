"""C01 - Reception is total: bad input is rejected cleanly and never stops the stream.

  bin/check C01 quick|thorough          bin/check C01 --replay /verif/replays/C01/<hash>.json

1. TLC model-checks spec/RxPipeline.tla (MC_RxPipeline*.cfg): all byte streams over {x,z,CR,LF,B} up to
   a bound x all partitions into reads (incl. empty reads, cut between CR and LF); all log/dict shapes
   up to a bound.  For the fixed design (Escaping = FALSE) the clauses must hold; for the code as it is
   (Escaping measured from the code) TLC's counter-examples are replayed on the real objects.
   TransportLife.tla (connection phase and life cycle of the PortTransport under ONE PortProtocol: never connected,
   connected, lost, re-connected) is model-checked likewise; systematic schedules run on the real objects and every
   exception that leaves protocol.pkt_received / _read_ready in any phase is judged by TransportLifeTrace (a2).
2. Behaviours are taken out of TLC (-dump of the enumeration instance = every partition of every token
   stream; -simulate for longer ones; the set of log shapes), concretised with real/generated/mutated
   frames (harness/gen.py) and executed against the real PortTransport._read_ready (FakeSerial on a
   socketpair, dispatched by the loop's own selector), the real FileTransport (log and dict) behind a
   real ReadProtocol, the real MqttTransport._on_message, and Packet.from_*/Message directly.
3. Every recorded execution is judged by TLC (spec/RxTrace.tla); Python only records.
"""
from __future__ import annotations

import asyncio
import json
import os
import random
import shutil
import sys
import tempfile
import time
from typing import Any

from harness import fakes, gen, tlc, vloop
from harness import ext_c01 as rx
from harness.report import Check, main_wrapper

PID = "C01"
SYMBYTES = {"CR": b"\r", "LF": b"\n"}
ALLOWED = ("ramses_tx.exceptions.PacketInvalid", "builtins.ValueError")

BOUNDS = {
    "quick": dict(gwy_shapes=60, extreme_per_pair=1, neighbours=1, maxlen=6, maxtok=3, simtok=6, nsim=500, maxlines=4, maxbad=2, workers=4, tlc_parallel=4,
                  n_mut_frames=40, n_rand_mut=20, n_dbl_mut=10, schema_rand=1, schema_profiles=1,
                  file_reps=1, mqtt_shapes=300, deep_pairs=2, conc_per_beh=1, chatter_full=False),
    "thorough": dict(gwy_shapes=500, extreme_per_pair=12, neighbours=12, maxlen=8, maxtok=4, simtok=7, nsim=5000, maxlines=5, maxbad=2, workers=8, tlc_parallel=2,
                     n_mut_frames=900, n_rand_mut=60, n_dbl_mut=40, schema_rand=6, schema_profiles=3,
                     file_reps=2, mqtt_shapes=3000, deep_pairs=12, conc_per_beh=1, chatter_full=True),
}


def allowed(mro: list[str]) -> bool:
    return any(n in ALLOWED for n in mro)


# --------------------------------------------------------------------------------------
# TLC runs


def _env(b: dict) -> dict[str, str]:
    return {"C01_MAXLEN": str(b["maxlen"]), "C01_MAXTOK": str(b["maxtok"]),
            "C01_MAXLINES": str(b["maxlines"]), "C01_MAXBAD": str(b["maxbad"]), "C01_MAXZERO": "1"}


def _cfg(tmp: str, name: str, mode: str, escaping: bool, invariants: list[str], streams: str,
         shapes: str, view: bool) -> str:
    """A derived cfg (same constants as the shipped MC_RxPipeline*.cfg, chosen invariants)."""
    path = os.path.join(tmp, name)
    with open(path, "w") as fh:
        fh.write("SPECIFICATION Spec\nCONSTANTS\n")
        fh.write(f'  Mode = "{mode}"\n  Escaping = {"TRUE" if escaping else "FALSE"}\n')
        fh.write(f"  Streams <- {streams}\n  MaxZero <- MaxZeroDef\n  FileShapes <- {shapes}\n")
        if view:
            fh.write("VIEW PortView\n")
        for inv in invariants:
            fh.write(f"INVARIANT {inv}\n")
    return path


def run_all_tlc(b: dict, tmp: str, escaping: bool, seed: int) -> tuple[dict, list, list, dict]:
    """Every TLC run of the check, a few at a time (they are independent JVMs):
      * the design model (Escaping = FALSE), port and file parts: the clauses must hold;
      * the as-is model (Escaping = TRUE, only if the code really has an escaping class): the shortest
        counter-example per clause, to be replayed on the code;
      * the enumeration instance: -dump (every partition of every token stream), -simulate (longer
        streams), and the set of log/dict shapes.
    Returns (mc numbers + counter-examples, behaviours, shapes, enumeration info)."""
    from concurrent.futures import ThreadPoolExecutor

    env = _env(b)
    w = max(2, b["workers"] // 2)
    jobs: dict[str, Any] = {}
    with ThreadPoolExecutor(max_workers=b["tlc_parallel"]) as ex:
        jobs["port"] = ex.submit(tlc.run_tlc, "MC_RxPipeline", "MC_RxPipeline.cfg", workers=b["workers"],
                                 env=env, timeout=1700)
        d_enum, d_shapes, d_sim = (os.path.join(tmp, x) for x in ("enum", "shapes", "sim"))
        os.mkdir(d_sim)
        jobs["enum"] = ex.submit(tlc.run_tlc, "MC_RxPipeline", "MC_RxPipeline_enum.cfg", workers=w, env=env,
                                 dump=d_enum, timeout=900)
        e_sim = dict(env)
        e_sim["C01_MAXTOK"] = str(b["simtok"])
        jobs["sim"] = ex.submit(tlc.run_tlc, "MC_RxPipeline", "MC_RxPipeline_enum.cfg", workers=1, env=e_sim,
                                timeout=900, simulate=f"file={d_sim}/tr,num={b['nsim']}", depth=30, seed=seed or 1)
        jobs["file"] = ex.submit(tlc.run_tlc, "MC_RxPipeline", "MC_RxPipeline_file.cfg", workers=w, env=env,
                                 dump=d_shapes, timeout=900)
        asis = []
        if escaping:
            e2 = dict(env)
            e2["C01_MAXLEN"] = str(min(b["maxlen"], 6))
            for mode, inv, streams, shapes_, view in (
                ("port", "NoLoopException", "AllStreams", "NoShapes", True),
                ("port", "PartitionIndependent", "AllStreams", "NoShapes", True),
                ("file", "ReplayEndsClean", "NoStreams", "AllShapes", False),
                ("file", "ReplayDeliversAll", "NoStreams", "AllShapes", False),
            ):
                cfg = _cfg(tmp, f"cur_{mode}_{inv}.cfg", mode, True, [inv], streams, shapes_, view)
                asis.append((mode, inv, ex.submit(tlc.run_tlc, "MC_RxPipeline", cfg, workers=w, env=e2, timeout=900)))

    mc: dict[str, Any] = {"instances": [], "cex": [], "states": 0, "transitions": 0}
    for name, what in (("port", "port/fixed"), ("file", "file/fixed")):
        r = jobs[name].result()
        if not r.ok:
            raise tlc.MachineryFailure(f"{what}: design model does not satisfy its clauses: "
                                       f"violated={r.violated} errors={r.errors[:2]}\n{r.out[-1500:]}")
        mc["instances"].append({"cfg": f"MC_RxPipeline{'' if name == 'port' else '_file'}.cfg", "what": what,
                                "generated": r.states, "distinct": r.distinct, "depth": r.depth,
                                "wall_s": round(r.wall_s, 1), "violated": []})
        mc["states"] += r.distinct
        mc["transitions"] += r.states
    for mode, inv, fut in asis:
        r = fut.result()
        if r.errors:
            raise tlc.MachineryFailure(f"as-is model {inv}: {r.errors[:2]}\n{r.out[-1500:]}")
        mc["instances"].append({"cfg": f"as-is/{mode}/{inv}", "what": "code as it is (Escaping=TRUE)",
                                "generated": r.states, "distinct": r.distinct,
                                "wall_s": round(r.wall_s, 1), "violated": r.violated})
        if inv not in r.violated or not r.error_trace:
            raise tlc.MachineryFailure(f"as-is model: expected a counter-example to {inv}, got {r.violated}")
        last = r.error_trace[-1][1]
        mc["cex"].append({"mode": mode, "clause": inv, "stream": list(last["stream"]),
                          "cuts": list(last["cuts"]), "fl": list(last["fl"])})

    info: dict[str, Any] = {}
    r = jobs["enum"].result()
    if not r.ok:
        raise tlc.MachineryFailure(f"enum instance failed: {r.violated} {r.errors[:2]}\n{r.out[-1500:]}")
    behs: dict[tuple, None] = {}
    for st in tlc.read_dump(d_enum):
        if st["pos"] == len(st["stream"]) and st["cuts"]:
            behs[(tuple(st["stream"]), tuple(st["cuts"]))] = None
    info["dump_behaviours"] = len(behs)
    r = jobs["sim"].result()
    if r.errors or r.violated:
        raise tlc.MachineryFailure(f"simulate failed: {r.violated} {r.errors[:2]}\n{r.out[-1500:]}")
    nsim = 0
    for beh in tlc.read_sim_traces(f"{d_sim}/tr"):
        if not beh:
            continue
        st = beh[-1][1]
        if "stream" in st and st["pos"] == len(st["stream"]) and st["cuts"]:
            k = (tuple(st["stream"]), tuple(st["cuts"]))
            if k not in behs:
                behs[k] = None
                nsim += 1
    info["simulated_behaviours"] = nsim
    shapes = sorted({tuple(st["fl"]) for st in tlc.read_dump(d_shapes)})
    info["shapes"] = len(shapes)
    for p in (d_enum + ".dump", d_shapes + ".dump"):
        os.unlink(p)
    shutil.rmtree(d_sim, ignore_errors=True)
    return mc, sorted(behs), shapes, info  # sorted: TLC dump order depends on worker timing


# --------------------------------------------------------------------------------------
# concretisation


def py_split(sym: list[str]) -> tuple[list[list[str]], list[str]]:
    """Mirror of RxPipeline!Split (used only to lay contents over lines; TLC re-derives the lines)."""
    lines, cur, i = [], [], 0
    while i < len(sym):
        if sym[i] == "CR" and i + 1 < len(sym) and sym[i + 1] == "LF":
            lines.append(cur)
            cur = []
            i += 2
        else:
            cur.append(sym[i])
            i += 1
    return lines, cur


class Pools:
    """Concrete line contents (each `RSSI frame` text), classified by what they do on the real code."""

    def __init__(self, rng: random.Random) -> None:
        from datetime import datetime as dt

        from ramses_tx.message import Message
        from ramses_tx.packet import Packet

        self.rng = rng
        frames = list(gen.corpus_frames())
        rng.shuffle(frames)
        self.valid: list[str] = []
        for f in frames:
            try:
                Message(Packet.from_port(dt(2026, 1, 1), f"045 {f}"))
            except Exception:  # noqa: BLE001 - pool building only
                continue
            self.valid.append(f)
        if len(self.valid) < 500:
            raise tlc.MachineryFailure(f"only {len(self.valid)} corpus frames decode: corpus missing?")
        self._vi = 0
        # "kin" focus: all lines of one stream (the good ones and the ones derived into bad ones) are frames of one
        # verb/code heard from several devices - what per-code state kept across packets in the receive path
        # (sync-cycle tracking, array-fragment detection, ...) needs in order to show
        self.by_kind: dict[tuple[str, str], list[str]] = {}
        for f in self.valid:
            self.by_kind.setdefault((f[41 - 4:41], f[:2]), []).append(f)
        self.by_kind = {k: v for k, v in self.by_kind.items()
                        if len({gen.shape_of(*gen.frame_fields(x)[2:5])[1] for x in v if gen.shape_of(*gen.frame_fields(x)[2:5])}) >= 2}
        self.kinds = sorted(self.by_kind)
        self.focus: tuple[str, str] | None = None
        self._ki = 0
        self.escapers: list[str] = []  # lines found by stage A whose exception escapes (one per signature)
        self.chatter = rx.chatter_lines(False)
        self.template_only = False     # counter-example replays use the modelled class only

    def next_valid(self) -> str:
        if self.focus is not None:
            pool = self.by_kind[self.focus]
            self._ki += 1
            return pool[self._ki % len(pool)]
        self._vi = (self._vi + 1) % len(self.valid)
        return self.valid[self._vi]

    def refocus(self, rng: random.Random, p: float = 0.35) -> None:
        """Called once per stream / source: with probability p the stream is about one verb/code only."""
        self.focus = rng.choice(self.kinds) if self.kinds and rng.random() < p else None

    def content(self, cls: str) -> str:
        rng = self.rng
        f = self.next_valid()
        if cls == "valid":
            return f"{rng.choice(('045', '---', '000', '099'))} {f}"
        if cls == "assert":  # an escaping line: the template class, or one that the string sweep discovered
            if self.escapers and not self.template_only and rng.random() < 0.5:
                return rng.choice(self.escapers)
            return f"045 {gen.assert_path_frame(rng)}"
        if cls == "pktonly":
            return gen.line_of_class("badPayload", rng, [f])[1]
        if cls == "chatter":    # the few lines quoted from an evofw3, or a member of the systematic family
            return rng.choice(self.chatter) if rng.random() < 0.5 else gen.line_of_class("chatter", rng, [f])[1]
        op, m = gen.mutants(f, rng, 1)[0] if rng.random() < 0.7 else gen.double_mutants(f, rng, 1)[0]
        return f"045 {m}"


def concretise(sym: list[str], cuts: list[int], pools: Pools, rng: random.Random) -> dict:
    """symbols + cuts -> byte chunks.  Every line (and the unterminated tail) gets one content text that
    is split over the line's x/z symbols.  Returns the item skeleton (sym, content, lines' bytes, chunks)."""
    lines, tail = py_split(sym)
    pools.refocus(rng)
    sym_bytes: list[bytes] = []
    contents: list[str] = []
    line_texts: list[bytes] = []
    used: set[bytes] = set()
    for li, line in enumerate(lines + [tail]):
        m = sum(1 for c in line if c in ("x", "z"))
        if any(c == "z" for c in line):
            cls = "assert"
        else:
            r = rng.random()
            cls = "valid" if r < 0.72 else "reject" if r < 0.86 else "pktonly" if r < 0.94 else "chatter"
        text = pools.content(cls).encode("ascii", "replace") if m else b""
        while m and text in used:
            text = pools.content(cls).encode("ascii", "replace")
        used.add(text)
        if m > len(text):
            text = text + b"0" * (m - len(text))
        pts = sorted(rng.sample(range(1, len(text)), m - 1)) if m > 1 else []
        pieces = [text[a:b] for a, b in zip([0] + pts, pts + [len(text)])] if m else []
        pi = 0
        raw = b""
        for c in line:
            if c in ("x", "z"):
                bs = pieces[pi]
                pi += 1
            elif c == "B":
                bs = bytes([rng.randrange(0x80, 0x100)])
            else:
                bs = SYMBYTES[c]
            sym_bytes.append(bs)
            raw += bs
        if li < len(lines):
            sym_bytes += [b"\r", b"\n"]
            contents.append("valid" if cls == "valid" else "other")
            line_texts.append(raw)
    assert len(sym_bytes) == len(sym)
    chunks, p = [], 0
    for n in cuts:
        chunks.append(b"".join(sym_bytes[p:p + n]))
        p += n
    return {"sym": list(sym), "cuts": list(cuts), "content": contents, "lines": line_texts, "chunks": chunks}


# --------------------------------------------------------------------------------------
# executions on the real objects


class PortRunner:
    def __init__(self) -> None:
        self.rig: rx.PortRig | None = None
        self.iso_rig: rx.PortRig | None = None
        self.iso_cache: dict[bytes, tuple[str, list[str]]] = {}
        self.n = 0

    async def ensure(self) -> None:
        if self.rig is None or self.n % 400 == 0:
            if self.rig is not None:
                self.rig.close()
                self.iso_rig.close()  # type: ignore[union-attr]
                await asyncio.sleep(0)
            self.rig = await rx.PortRig.create()
            self.iso_rig = await rx.PortRig.create()
        self.n += 1

    async def iso(self, line: bytes) -> tuple[str, list[str], str]:
        """What this line does when it is the only one read (J8: 'valid' = decodes in isolation).
        Returns (outcome, exception signatures, frame text of the packet it delivers or "")."""
        hit = self.iso_cache.get(line)
        if hit is not None:
            return hit
        rig = self.iso_rig
        assert rig is not None
        await rig.flush()
        rig.take()
        rig.frame_to_k = {}
        await rig.read(line + b"\r\n")
        evs, sigs = rig.take()
        kinds = {e["e"] for e in evs}
        if "exc" in kinds:
            res = "opkt" if "pkt" in kinds else "other"
        elif "msg" in kinds:
            res = "msg"
        elif "pkt" in kinds:
            res = "pkt"
        else:
            res = "rej"
        ftxt = next((e["f"] for e in evs if e["e"] == "pkt"), "")
        self.iso_cache[line] = (res, sigs, ftxt)
        return res, sigs, ftxt

    async def run(self, c: dict) -> dict:
        """Execute one concretised behaviour; returns the RxTrace item + meta."""
        await self.ensure()
        rig = self.rig
        assert rig is not None
        iso, iso_sigs, f2k, abort_sigs = [], [], {}, []
        for k, line in enumerate(c["lines"], 1):
            r, s, ftxt = await self.iso(line)
            iso.append(r)
            iso_sigs += s
            if r == "other":
                abort_sigs += s
            if ftxt:
                f2k[k] = ftxt
        await rig.flush()
        rig.take()
        rig.frame_to_k = {}
        for n, chunk in zip(c["cuts"], c["chunks"]):
            await rig.read(chunk, n)
        evs, sigs = rig.take()
        await rig.flush()
        rig.take()
        assign_lines(evs, f2k)
        ev_sigs = _strip(evs)
        item = {"kind": "port", "sym": c["sym"], "iso": iso, "content": c["content"], "ev": evs}
        meta = {"sigs": sorted(set(sigs)), "iso_sigs": sorted(set(iso_sigs)), "ev_sigs": ev_sigs,
                "abort_sigs": sorted(set(abort_sigs)),
                "replay": {"stage": "port", "sym": c["sym"], "cuts": c["cuts"], "content": c["content"],
                           "lines": [x.hex() for x in c["lines"]],
                           "chunks": [x.hex() for x in c["chunks"]]}}
        return {"item": item, "meta": meta}

    def close(self) -> None:
        for r in (self.rig, self.iso_rig):
            if r is not None:
                r.close()


def shape_lines(shape: tuple[str, ...], pools: Pools, rng: random.Random) -> list[tuple[bool, str, str]]:
    out = []
    pools.refocus(rng)
    for k, cls in enumerate(shape, 1):
        f = pools.next_valid()
        tag, rest = gen.line_of_class(cls, rng, [f])
        if cls == "assertPath":
            rest = pools.content("assert")
        if cls == "chatter":
            rest = pools.content("chatter")
        dtm = f"2026-01-01T00:00:{k:02d}.{rng.randrange(10**6):06d}"
        if cls == "badDtm":
            dtm = (tag[:19] + f".{k:02d}{rng.randrange(10**4):04d}")[:26].ljust(26, "z")
            if _datable(dtm):
                raise tlc.MachineryFailure(f"badDtm line got a datable timestamp {dtm!r}")
        out.append((tag in ("blank", "comment"), dtm, rest))
    return out


def assign_lines(evs: list[dict], text_of_line: dict[int, str]) -> None:
    """Map every recorded delivery (pkt/msg events carry the frame text) to the line it belongs to:
    the n-th delivery of a text belongs to the n-th line that delivers that text when offered alone
    (so identical lines in one stream stay distinguishable); 0 = no such line."""
    import collections

    queues = {}
    for kind in ("pkt", "msg"):
        q: dict[str, collections.deque] = {}
        for k in sorted(text_of_line):
            q.setdefault(text_of_line[k], collections.deque()).append(k)
        queues[kind] = q
    for e in evs:
        if e["e"] in queues and "f" in e:
            dq = queues[e["e"]].get(e["f"])
            e["k"] = dq.popleft() if dq else 0


def _strip(evs: list[dict]) -> dict[int, str]:
    """Remove the harness-side fields from recorded events; returns {event index (1-based): exception sig}."""
    sigs = {}
    for i, e in enumerate(evs, 1):
        e.pop("f", None)
        s = e.pop("sig", None)
        if s:
            sigs[i] = s
    return sigs


def _datable(dtm: str) -> bool:
    from datetime import datetime as _dt

    try:
        _dt.fromisoformat(dtm)
        return True
    except ValueError:
        return False


def _classify(evs: list[dict]) -> str:
    kinds = {e["e"] for e in evs}
    bad = any(e["e"] in ("exc", "end", "out") and e["mro"] and not allowed(e["mro"]) for e in evs)
    if bad:
        return "opkt" if "pkt" in kinds else "other"
    if "msg" in kinds:
        return "msg"
    if "pkt" in kinds:
        return "pkt"
    return "rej"


async def run_shape(lines: list[tuple[bool, str, str]], as_dict: bool, tmpdir: str,
                    iso_cache: dict) -> dict:
    iso, iso_sigs, abort_sigs = [], [], []
    for ln in lines:
        key = (as_dict, ln)
        if key not in iso_cache:
            evs, sg = await rx.run_source([ln], as_dict, tmpdir)
            iso_cache[key] = (_classify(evs), sg)
        iso.append(iso_cache[key][0])
        iso_sigs += iso_cache[key][1]
        if iso_cache[key][0] == "other":
            abort_sigs += iso_cache[key][1]
    evs, sigs = await rx.run_source(lines, as_dict, tmpdir)
    kind = "dict" if as_dict else "file"
    item = {"kind": kind, "sym": [], "iso": iso, "content": [], "ev": evs}
    ev_sigs = _strip(evs)
    meta = {"sigs": sorted(set(sigs)), "iso_sigs": sorted(set(iso_sigs)), "ev_sigs": ev_sigs,
            "abort_sigs": sorted(set(abort_sigs)),
            "replay": {"stage": kind, "lines": [list(x) for x in lines]}}
    return {"item": item, "meta": meta}


async def run_gwy(lines: list[tuple[bool, str, str]], tmpdir: str, iso_cache: dict) -> dict:
    """A real ramses_rf.Gateway replaying the log; iso = the log transport's (same transport underneath).
    Only messages and the outcome of start() are recorded (b and a2)."""
    iso, iso_sigs, abort_sigs = [], [], []
    for ln in lines:
        key = (False, ln)
        if key not in iso_cache:
            evs, sg = await rx.run_source([ln], False, tmpdir)
            iso_cache[key] = (_classify(evs), sg)
        r = iso_cache[key][0]
        iso.append({"pkt": "rej", "opkt": "other"}.get(r, r))  # packets are not observed at this level
        iso_sigs += iso_cache[key][1]
        if r == "other":
            abort_sigs += iso_cache[key][1]
    evs, sigs = await rx.run_gateway(lines, tmpdir)
    ev_sigs = _strip(evs)
    item = {"kind": "gwy", "sym": [], "iso": iso, "content": [], "ev": evs}
    meta = {"sigs": sorted(set(sigs)), "iso_sigs": sorted(set(iso_sigs)), "ev_sigs": ev_sigs,
            "abort_sigs": sorted(set(abort_sigs)), "replay": {"stage": "gwy", "lines": [list(x) for x in lines]}}
    return {"item": item, "meta": meta}


async def run_mqtt(rig: rx.MqttRig, iso_rig: rx.MqttRig, lines: list[tuple[bool, str, str]],
                   iso_cache: dict) -> dict:
    iso, iso_sigs, f2k, abort_sigs = [], [], {}, []
    for k, (_bare, dtm, rest) in enumerate(lines, 1):
        key = (_datable(dtm), rest)
        if key not in iso_cache:
            iso_rig.frame_to_k = {}
            await iso_rig.message(dtm, rest)
            evs, sg = iso_rig.take()
            iso_cache[key] = (_classify(evs), sg, next((e["f"] for e in evs if e["e"] == "pkt"), ""))
        r, sg, ftxt = iso_cache[key]
        iso.append(r)
        iso_sigs += sg
        if r == "other":
            abort_sigs += sg
        if ftxt:
            f2k[k] = ftxt
    rig.frame_to_k = {}
    for _bare, dtm, rest in lines:
        await rig.message(dtm, rest)
    evs, sigs = rig.take()
    assign_lines(evs, f2k)
    ev_sigs = _strip(evs)
    item = {"kind": "mqtt", "sym": [], "iso": iso, "content": [], "ev": evs}
    meta = {"sigs": sorted(set(sigs)), "iso_sigs": sorted(set(iso_sigs)), "ev_sigs": ev_sigs,
            "abort_sigs": sorted(set(abort_sigs)),
            "replay": {"stage": "mqtt", "lines": [list(x) for x in lines]}}
    return {"item": item, "meta": meta}


def line_items(lines: list[str], group: int = 40) -> list[dict]:
    """Direct constructor calls; `group` lines per RxTrace item (k = line number inside the item)."""
    out = []
    for base in range(0, len(lines), group):
        evs: list[dict] = []
        sigs: dict[int, dict] = {}
        part = lines[base: base + group]
        for k, line in enumerate(part, 1):
            e, info = rx.direct_outcomes(line)
            nret = 0
            for x in e:
                if x["mro"]:
                    x["k"] = k
                    evs.append(x)
                else:
                    nret += 1
            evs.append(rx.ev("ret", k, nret))
            if info["sigs"]:
                sigs[k] = info["sigs"]
        item = {"kind": "line", "sym": [], "iso": [], "content": [], "ev": evs}
        out.append({"item": item, "meta": {"lines": part, "sigs_by_line": sigs,
                                           "replay": {"stage": "line", "lines": part}}})
    return out


# --------------------------------------------------------------------------------------
# verdicts


def _dbg(msg: str) -> None:
    if os.environ.get("VERIF_DEBUG"):
        print(f"[c01 {time.strftime('%H:%M:%S')}] {msg}", file=sys.stderr, flush=True)


def judge(chk: Check, recs: list[dict], workers: int, stats: dict) -> None:
    """TLC judges every recorded execution; failed clauses become violations (keys below)."""
    if not recs:
        return
    _dbg(f"judging {len(recs)} items")
    res = rx.validate_batch("RxTrace", [r["item"] for r in recs], workers=workers, chunk=1500, timeout=1500)
    stats["trace_states"] = stats.get("trace_states", 0) + res["states"]
    stats["trace_items"] = stats.get("trace_items", 0) + res["n"]
    requeue: list[dict] = []
    for idx, fail in res["rejects"]:
        rec = recs[idx]
        item, meta = rec["item"], rec["meta"]
        clauses = [c for _l, c in fail[2]]
        if any(c.startswith("harness:") for c in clauses):
            raise tlc.MachineryFailure(f"RxTrace: malformed item ({clauses}): {json.dumps(item)[:600]}")
        prop = [(ln, c) for ln, c in fail[2] if not c.startswith("drift:")]
        if not prop:
            for c in clauses:
                chk.model_drift(f"{c} kind={item['kind']} sym={item['sym']} iso={item['iso']} "
                                f"replay={json.dumps(meta['replay'])[:300]}")
            continue
        stats["rejected"] = stats.get("rejected", 0) + 1
        if item["kind"] == "line":
            if len(meta["lines"]) > 1:  # re-judge line by line so that no failing line hides another
                for ln in meta["lines"]:
                    requeue += line_items([ln], 1)
                continue
            for ln, _c in prop:
                e = item["ev"][ln - 1]
                entry = {v: k for k, v in rx.ENTRY.items()}[e["n"]]
                sig = meta["sigs_by_line"].get(1, {}).get(entry, "?")
                where = "Packet.from_*" if entry.startswith("from_") else entry
                chk.violation(f"a1:{sig}:{where}",
                              f"{e['mro'][0]} escapes {entry}() for line {meta['lines'][0]!r}", meta["replay"])
                stats.setdefault("escapers", {}).setdefault(f"{sig}:{where}", meta["lines"][0])
            continue
        # what can make later lines disappear: an exception raised before the packet is handed over (iso
        # "other"); failing that, any escaping exception seen in the stream; failing that, nothing ("clean")
        cause = meta.get("abort_sigs") or sorted(set(meta["sigs"]) | set(meta["iso_sigs"]))
        for ln, c in prop:
            if c in ("a1", "a2"):
                e = item["ev"][ln - 1]
                sig = meta.get("ev_sigs", {}).get(ln, ",".join(meta["sigs"]) or "?")
                if c == "a2":
                    chk.violation(f"a2:{sig}:{item['kind']}",
                                  f"{e['mro'][0]} escapes the {item['kind']} receive path "
                                  f"({'connection_lost(err)' if e['e'] == 'end' else 'event loop / callback'})",
                                  meta["replay"])
                else:
                    chk.violation(f"a1:{sig}:Packet.from_*",
                                  f"{e['mro'][0]} escapes Packet.from_file() during a {item['kind']} replay",
                                  meta["replay"])
            else:  # b / c: one key per escaping exception class present in the stream ("clean" = none)
                for cs in cause or ["clean"]:
                    after = f"after[{cs}]" if cs != "clean" else "clean"
                    chk.violation(f"{c}:{item['kind']}:{after}",
                                  f"clause {c}: lines valid in isolation not delivered (or reordered/duplicated) "
                                  f"in a {item['kind']} stream; expected from iso={item['iso']}", meta["replay"])
    if requeue:
        judge(chk, requeue, workers, stats)


# --------------------------------------------------------------------------------------


def canaries(recs: list[dict], stats: dict) -> None:
    """The judge must not be blind: corrupted copies of *accepted* recorded executions (one field each)
    have to be rejected by TLC under the expected clause, otherwise the run is a machinery failure."""
    import copy

    def clean(r: dict, kind: str, nmsg: int) -> bool:
        evs = r["item"]["ev"]
        return (r["item"]["kind"] == kind and sum(e["e"] == "msg" for e in evs) >= nmsg
                and not any(e["e"] == "exc" or (e["mro"] and not allowed(e["mro"])) for e in evs)
                and not {"other", "opkt"} & set(r["item"]["iso"]))

    port = next((r["item"] for r in recs if clean(r, "port", 2)), None)
    file_ = next((r["item"] for r in recs if clean(r, "file", 2)), None)
    if port is None or file_ is None:
        raise tlc.MachineryFailure("canaries: no clean port/file trace with two deliveries recorded")
    items, expect = [port, file_], [None, None]

    def mutate(base: dict, fn, clause: str) -> None:
        it = copy.deepcopy(base)
        fn(it)
        items.append(it)
        expect.append(clause)

    def swap_pkts(it: dict) -> None:
        ix = [i for i, e in enumerate(it["ev"]) if e["e"] == "pkt"]
        it["ev"][ix[0]]["k"], it["ev"][ix[1]]["k"] = it["ev"][ix[1]]["k"], it["ev"][ix[0]]["k"]

    def drop_last_msg(it: dict) -> None:
        ix = [i for i, e in enumerate(it["ev"]) if e["e"] == "msg"]
        del it["ev"][ix[-1]]

    def dup_msg(it: dict) -> None:
        ix = [i for i, e in enumerate(it["ev"]) if e["e"] == "msg"]
        it["ev"].insert(ix[0], dict(it["ev"][ix[0]]))

    mutate(port, swap_pkts, "c")
    mutate(port, drop_last_msg, "b")
    mutate(port, dup_msg, "b")
    mutate(port, lambda it: it["ev"].append(rx.ev("exc", 0, 0, ["builtins.RuntimeError", "builtins.Exception"])), "a2")
    mutate(port, lambda it: it["iso"].__setitem__(it["iso"].index("msg"), "rej"), "c")
    mutate(file_, drop_last_msg, "b")
    mutate(file_, lambda it: [e.__setitem__("mro", ["builtins.KeyError", "builtins.LookupError"])
                              for e in it["ev"] if e["e"] == "end"], "a2")
    mutate(file_, lambda it: it["ev"].insert(0, rx.ev("out", 1, 1, ["builtins.TypeError", "builtins.Exception"])), "a1")
    res = rx.validate_batch("RxTrace", items, workers=2)
    got = {i: [c for _l, c in f[2]] for i, f in res["rejects"]}
    for i, want in enumerate(expect):
        if want is None and i in got:
            raise tlc.MachineryFailure(f"canary base trace {i} rejected: {got[i]}")
        if want is not None and want not in got.get(i, []):
            raise tlc.MachineryFailure(f"canary {i}: corrupted trace not rejected under {want}: {got.get(i)}")
    stats["canaries_rejected"] = len(expect) - 2


def probe_escaping() -> tuple[bool, list[str]]:
    rng = random.Random(7)
    sigs = set()
    for _ in range(12):
        evs, info = rx.direct_outcomes(f"045 {gen.assert_path_frame(rng)}")
        for e in evs:
            if e["mro"] and not allowed(e["mro"]):
                sigs.update(info["sigs"].values())
    return bool(sigs), sorted(sigs)


def stage_a_lines(b: dict, rng: random.Random) -> tuple[list[str], dict]:
    lines: dict[str, None] = {}
    counts: dict[str, int] = {}

    def add(tag: str, ln: str) -> None:
        if ln not in lines:
            lines[ln] = None
            counts[tag] = counts.get(tag, 0) + 1

    for c in gen.corpus():
        add("corpus", f"{c.rssi} {c.frame}{c.tail}")
    for raw in gen.corpus_raw_lines():
        add("corpus_raw", raw[27:])
        if raw[:1] == "#":
            add("corpus_raw", raw)
    frames = list(gen.corpus_frames())
    for f in rng.sample(frames, min(b["n_mut_frames"], len(frames))):
        for _op, m in gen.mutants_systematic(f):
            add("mutant_systematic", f"045 {m}")
        for _op, m in gen.mutants(f, rng, b["n_rand_mut"]):
            add("mutant_random", f"045 {m}")
        for _op, m in gen.double_mutants(f, rng, b["n_dbl_mut"]):
            add("mutant_double", f"045 {m}")
    for g in gen.schema_frames(rng, b["schema_rand"], every_shape=b["schema_profiles"] > 1,
                               max_profiles=b["schema_profiles"]):
        add("schema_regex", f"045 {g.frame}")
        if rng.random() < 0.15:
            for _op, m in gen.mutants(g.frame, rng, 2):
                add("schema_mutant", f"045 {m}")
    for f in gen.extreme_payload_frames(b["extreme_per_pair"], rng):
        add("corpus_extreme_digit", f"045 {f}")
    for f in gen.corpus_neighbour_frames(rng, b["neighbours"]):
        add("corpus_neighbour", f"045 {f}")
    for _ in range(60):
        add("assert_path", f"045 {gen.assert_path_frame(rng)}")
    for cls in gen.LINE_CLASSES:
        for _ in range(30):
            add("line_class", gen.line_of_class(cls, rng, frames[:200])[1])
    for ln in rx.chatter_lines(b["chatter_full"]):
        add("chatter", ln)
        add("chatter", f"000 {ln}")
    return list(lines), counts


def deep_cut_streams(b: dict, pools: Pools, rng: random.Random) -> list[tuple[list[str], list[int], dict]]:
    """Character-level streams 'F1 CRLF F2 CRLF [junk CRLF] F3 CRLF': every single cut position, all
    1-byte reads, a cut + an empty read.  Here one symbol = one byte."""
    out = []
    for _ in range(b["deep_pairs"]):
        texts = [pools.content("valid"), pools.content(rng.choice(("valid", "reject", "chatter"))),
                 pools.content("valid")]
        sym: list[str] = []
        bs: list[bytes] = []
        for t in texts:
            for ch in t.encode():
                sym.append("x")
                bs.append(bytes([ch]))
            sym += ["CR", "LF"]
            bs += [b"\r", b"\n"]
        n = len(sym)
        plans = [[n], [1] * n]
        plans += [[i, n - i] for i in range(1, n)]
        plans += [[i, 0, n - i] for i in range(1, n, 7)]
        plans += [[i, 1, n - i - 1] for i in range(1, n - 1, 5)]
        for cuts in plans:
            out.append((sym, cuts, {"texts": texts, "bytes": bs}))
    return out


def kin_streams(pools: Pools, rng: random.Random, full: bool) -> list[tuple[list[str], list[int], dict]]:
    """Systematic, not random: for every verb/code that the corpus shows from two or more devices, a stream
    [good frame of device A, a *bad* line derived from it, good frame of device B, good frame of A, another good
    frame] for each badness operator - state that the receive path keeps per code across packets (sync-cycle
    tracking, array-fragment detection) must not let the bad line harm the good ones that follow."""
    out = []
    for kind in pools.kinds:     # every kind in both tiers; the quick tier uses two operators and one read
        frames = pools.by_kind[kind]
        srcs: dict[str, str] = {}
        for f in frames:
            sh = gen.shape_of(*gen.frame_fields(f)[2:5])
            if sh:
                srcs.setdefault(sh[1], f)
        (sa, fa), (sb, fb) = list(srcs.items())[:2]
        v, sq, a0, a1, a2, c, _l, _p = gen.frame_fields(fa)
        bads = [gen.make_frame(v, a0, a1, a2, c, "FE", sq), gen.make_frame(v, a0, a1, a2, c, "FE" * 7, sq),
                gen.wrong_length(fa, (int(fa[42:45]) + 1) % 1000), gen.mutants(fa, rng, 1)[0][1]]
        pools.focus = None
        other = pools.next_valid()
        for bad in (bads if full else bads[:1] + bads[2:3]):
            texts = [f"045 {fa}", f"045 {bad}", f"045 {fb}", f"045 {fa}", f"045 {other}"]
            sym: list[str] = []
            bs: list[bytes] = []
            for t in texts:
                for ch in t.encode("ascii", "replace"):
                    sym.append("x")
                    bs.append(bytes([ch]))
                sym += ["CR", "LF"]
                bs += [b"\r", b"\n"]
            n = len(sym)
            out.append((sym, [n], {"texts": texts, "bytes": bs}))
            if full:
                out.append((sym, [n // 2, n - n // 2], {"texts": texts, "bytes": bs}))
    return out


def _pieces(text: str, split: bool = False) -> tuple[list[str], list[bytes]]:
    """One line as symbols of RxPipeline: a run of ASCII bytes = one piece "x" (two if `split`), every other byte = "B"."""
    sym: list[str] = []
    bs: list[bytes] = []
    run = b""
    for ch in text.encode():
        if ch < 0x80:
            run += bytes([ch])
            continue
        if run:
            sym.append("x")
            bs.append(run)
            run = b""
        sym.append("B")
        bs.append(bytes([ch]))
    if run:
        sym.append("x")
        bs.append(run)
    if split:
        j = max(range(len(bs)), key=lambda i: len(bs[i]))
        if len(bs[j]) > 1:
            h = len(bs[j]) // 2
            sym[j:j + 1] = ["x", "x"]
            bs[j:j + 1] = [bs[j][:h], bs[j][h:]]
    return sym, bs


def chatter_streams(pools: Pools, full: bool) -> list[tuple[list[str], list[int], dict]]:
    """Every line of rx.chatter_lines() inside a stream of good frames, at piece level: between good frames in ONE read
    (what follows it in the same read must still be delivered), first in a read, last in a read with a further read
    behind it, and cut in two by the read boundary.  Lines of up to two tokens: the first layout and one of the other
    three in rotation (thorough: all four); longer lines: one layout in rotation (thorough: the first and one other)."""
    out = []
    pools.focus = None
    good: list[str] = []            # a small rotating set of good frames (their isolated outcome is measured once)
    while len(good) < (60 if full else 12):
        t = pools.content("valid")
        if t not in good:
            good.append(t)
    for i, (c, ntok) in enumerate(rx.chatter_family(full)):
        g = [good[(3 * i + j) % len(good)] for j in range(3)]
        layouts = {
            0: ([g[0], c, g[1], g[2]], None, lambda n: [n[4]]),                 # n[j] = symbols up to the end of line j
            1: ([c, g[0], g[1]], None, lambda n: [n[3]]),
            2: ([g[0], g[1], c, g[2]], None, lambda n: [n[3], n[4] - n[3]]),
            3: ([g[0], c, g[1], g[2]], 1, lambda n: [n[1] + 1, n[4] - n[1] - 1]),   # the cut falls inside the chatter line
        }
        for lay in ((0, 1, 2, 3) if full and ntok <= 2 else (0, 1 + i % 3) if full or ntok <= 2 else ((0, 1, 3, 2)[i % 4],)):
            texts, split_at, plan = layouts[lay]
            sym: list[str] = []
            bs: list[bytes] = []
            ends = [0]
            for j, t in enumerate(texts):
                sy, by = _pieces(t, split=(j == split_at))
                sym += sy + ["CR", "LF"]
                bs += by + [b"\r", b"\n"]
                ends.append(len(sym))
            cuts = plan(ends)
            if sum(cuts) != len(sym) or min(cuts) < 1:
                raise tlc.MachineryFailure(f"chatter_streams: bad plan {cuts} for {texts}")
            out.append((sym, cuts, {"texts": texts, "bytes": bs}))
    return out


def concretise_chars(sym: list[str], cuts: list[int], extra: dict) -> dict:
    texts, bs = extra["texts"], extra["bytes"]
    chunks, p = [], 0
    for n in cuts:
        chunks.append(b"".join(bs[p:p + n]))
        p += n
    return {"sym": sym, "cuts": cuts, "content": ["other"] * len(texts),
            "lines": [t.encode() for t in texts], "chunks": chunks}


def _pkts_unconnected(items: list[dict]) -> int:
    """Measured: packets that entered protocol.pkt_received before connection_made / after connection_lost."""
    n = 0
    for it in items:
        up = False
        for e in it["ev"]:
            if e["e"] == "made":
                up = True
            elif e["e"] in ("lost", "open"):
                up = False
            elif e["e"] == "pkt" and not up:
                n += 1
    return n


def life_stage(chk: Check, tier: str, stats: dict, only: list | None = None) -> list:
    """TLC on TransportLife (signature polling, echo, connection_made once with the right id, delivery whatever the
    phase); systematic schedules on the real PortTransport; TLC folds every recorded execution."""
    from concurrent.futures import ThreadPoolExecutor

    cfgs = ("MC_TransportLife.cfg", "MC_TransportLife_ro.cfg", "MC_TransportLife_x_strict.cfg")
    with ThreadPoolExecutor(max_workers=3) as ex:
        runs = list(ex.map(lambda c: tlc.run_tlc("MC_TransportLife", c, workers=2, timeout=300), cfgs))
    for cfg, r in zip(cfgs, runs):
        if "_x_" in cfg:    # sensitivity instance: must be refuted (the a2 clause is not vacuous in the model)
            if r.errors or r.violated != ["NoEscape"]:
                chk.model_drift(f"TLC: {cfg} should refute NoEscape, got {r.violated or r.errors[:2]}")
        elif not r.ok:
            chk.model_drift(f"TLC: {cfg} violates {r.violated or r.errors[:2]}")
        stats.setdefault("life_mc", []).append({"cfg": cfg, "distinct": r.distinct, "generated": r.states, "violated": r.violated})
    scheds = only if only is not None else rx.life_schedules(tier != "quick")

    async def go() -> list[dict]:
        return [await rx.run_life(st, snd) for st, snd in scheds]

    items, _loop = vloop.run(go)
    # canaries (the judge must not be blind): a recorded execution with an injected escape of a type the property does
    # not allow has to be rejected under a2, the same with the library's own invalid-packet error has to be accepted
    import copy

    n_real = len(items)
    base = next((it for it in items if any(e["e"] == "open" for e in it["ev"])), items[0])
    for mro in (["builtins.RuntimeError", "builtins.Exception"], ["ramses_tx.exceptions.PacketInvalid", "builtins.Exception"]):
        it = copy.deepcopy(base)
        at = next(i for i, e in enumerate(it["ev"]) if e["e"] == "pkt") + 1
        it["ev"].insert(at, {"e": "exc", "k": "Canary@harness.canary", "mro": mro})
        items.append(it)
    res = tlc.validate_batch("TransportLifeTrace", items, workers=2, timeout=600)
    got = {i: [c for _l, c in f] for i, f in res["rejects"]}
    if "a2:Canary@harness.canary:port" not in got.get(n_real, []) or n_real + 1 in got and got[n_real + 1] != got.get(items.index(base), []):
        raise tlc.MachineryFailure(f"TransportLifeTrace canaries: {got.get(n_real)} / {got.get(n_real + 1)}")
    res["rejects"] = [(i, f) for i, f in res["rejects"] if i < n_real]
    items = items[:n_real]
    stats["life"] = {"schedules": len(items), "events": sum(len(i["ev"]) for i in items), "rejected": len(res["rejects"]),
                     "re_connects": sum(1 for i in items for e in i["ev"] if e["e"] == "open"),
                     "pkts_while_not_connected": _pkts_unconnected(items)}
    seen = set()
    for idx, fails in res["rejects"]:
        for line, cls in fails:
            if cls in seen:
                continue
            seen.add(cls)
            what = (f"{cls} at event {line} of the connection-phase schedule {scheds[idx][0]} "
                    f"(sending={scheds[idx][1]}): {items[idx]['ev']}")
            if cls.startswith("harness:"):
                raise tlc.MachineryFailure(f"TransportLifeTrace: {what[:600]}")
            if cls.startswith(("b:", "a2:")):
                chk.violation(cls + ":connection-phase", what[:1500], {"stage": "life", "steps": scheds[idx][0], "sending": scheds[idx][1]})
            else:
                chk.model_drift(what[:600])
    if rx.LIFE_OTHER_EXC:
        chk.note(f"{len(rx.LIFE_OTHER_EXC)} loop exceptions outside the receive path during connection-phase schedules "
                 f"(not C01), e.g. {rx.LIFE_OTHER_EXC[0]}")
    return res["rejects"]


PAUSED_GOOD = [" I --- 01:145038 --:------ 01:145038 1F09 003 FF073F", " I --- 04:189078 --:------ 01:145038 30C9 003 0007D0",
               " I --- 01:145038 --:------ 01:145038 30C9 009 0007D00107D00207D0", "RP --- 01:145038 18:111111 --:------ 0006 004 00050008",
               " I 012 --:------ --:------ 12:126457 2309 003 0107D0", " I --- 13:049798 --:------ 13:049798 3EF0 003 00C8FF"]
PAUSED_BAD = [" I --- 01:145038 --:------ 01:145038 1F09 004 FF073F", " I --- 01:145038 01:145038 --:------ 30C9 003 0007D0", "# chatter"]


def paused_stage(chk: Check, tier: str, stats: dict, rng: random.Random, only: list | None = None) -> list:
    """Frames arriving while the real Engine._pause() has parked the protocol (snapshot / restore in progress): nothing
    may escape, and what arrives after Engine._resume() is delivered again (spec/RxPaused.tla judges)."""
    G, B = PAUSED_GOOD, PAUSED_BAD
    L = lambda f, good=1: ["line", f, good]     # noqa: E731
    scheds = [
        [L(G[0]), ["pause"], L(G[1]), L(B[0], 0), L(G[2]), ["resume"], L(G[3]), L(G[4])],
        [["pause"], L(G[0]), ["resume"], L(G[1])],
        [L(G[5]), ["pause"], ["resume"], L(G[0])],
        [["pause"], L(G[3]), L(G[4]), ["resume"], L(B[1], 0), L(G[2]), ["pause"], L(G[0]), L(B[2], 0), ["resume"], L(G[1])],
    ]
    for _ in range(40 if tier != "quick" else 6):
        s, paused = [], False
        for _j in range(rng.randint(4, 14)):
            r = rng.random()
            if r < 0.25:
                s.append(["resume"] if paused else ["pause"])
                paused = not paused
            elif r < 0.4:
                s.append(L(rng.choice(B), 0))
            else:
                s.append(L(rng.choice(G)))
        if paused:
            s.append(["resume"])
        s.append(L(rng.choice(G)))
        scheds.append(s)
    if only is not None:
        scheds = only

    async def go() -> list[dict]:
        return [await rx.run_paused(s) for s in scheds]

    items, _loop = vloop.run(go)
    res = tlc.validate_batch("RxPaused", items, cfg="RxPaused.cfg", workers=2, timeout=600)
    stats["paused_engine"] = {"schedules": len(items), "events": sum(len(i["ev"]) for i in items),
                              "lines_while_paused": sum(1 for s in scheds for j, st in enumerate(s) if st[0] == "line"
                                                        and sum(1 for x in s[:j] if x[0] == "pause") > sum(1 for x in s[:j] if x[0] == "resume")),
                              "rejected": len(res["rejects"])}
    seen = set()
    for idx, fail in res["rejects"]:
        cls = fail[1]
        if cls in seen:
            continue
        seen.add(cls)
        chk.violation(cls, f"{cls} at event {fail[0]} of the paused-engine schedule {scheds[idx]}: {items[idx]['ev'][max(0, fail[0] - 3):fail[0]]}",
                      {"stage": "paused", "steps": scheds[idx]})
    return res["rejects"]


def main(tier: str, replay: str | None) -> None:
    fakes.quiet_logging()
    if replay:
        return do_replay(replay)
    chk = Check(PID, tier, "model_checking")
    b = BOUNDS[tier]
    rng = random.Random(chk.seed)
    tmp = tempfile.mkdtemp(prefix="c01_")
    stats: dict[str, Any] = {}
    samples: list[Any] = []
    try:
        escaping, esc_sigs = probe_escaping()
        chk.note(f"as-is model parameter Escaping={escaping} (measured: {esc_sigs})")
        t0 = time.time()
        mc, behs, shapes, einfo = run_all_tlc(b, tmp, escaping, chk.seed)
        stats["t_mc"] = round(time.time() - t0, 1)
        _dbg(f"t_mc {stats['t_mc']}")
        pools = Pools(rng)

        # ---- A: every string (direct constructor calls) -------------------------------------
        t0 = time.time()
        lines, counts = stage_a_lines(b, rng)
        recs = line_items(lines)
        stats["t_lines"] = round(time.time() - t0, 1)
        _dbg(f"t_lines {stats['t_lines']}")
        judge(chk, recs, b["workers"], stats)
        stats["lines"] = len(lines)
        pools.escapers = [ln for _k, ln in sorted(stats.get("escapers", {}).items())
                          if len(ln) > 50 and "\r" not in ln and "\n" not in ln]
        stats["line_sources"] = counts
        samples += lines[:2] + lines[-2:]

        # ---- B: serial streams ---------------------------------------------------------------
        t0 = time.time()

        async def port_stage() -> list[dict]:
            runner = PortRunner()
            out = []
            try:
                pools.template_only = True
                for cex in mc["cex"]:
                    if cex["mode"] == "port":
                        rec = await runner.run(concretise(cex["stream"], cex["cuts"], pools, rng))
                        rec["meta"]["cex"] = cex["clause"]
                        out.append(rec)
                pools.template_only = False
                for i, (sym, cuts) in enumerate(behs):
                    for _ in range(b["conc_per_beh"]):
                        out.append(await runner.run(concretise(list(sym), list(cuts), pools, rng)))
                for sym, cuts, extra in deep_cut_streams(b, pools, rng):
                    out.append(await runner.run(concretise_chars(sym, cuts, extra)))
                for sym, cuts, extra in kin_streams(pools, rng, tier != "quick"):
                    out.append(await runner.run(concretise_chars(sym, cuts, extra)))
                n0 = len(out)
                for sym, cuts, extra in chatter_streams(pools, b["chatter_full"]):
                    out.append(await runner.run(concretise_chars(sym, cuts, extra)))
                stats["chatter_streams"] = len(out) - n0
            finally:
                runner.close()
            return out

        precs, loop = vloop.run(port_stage)
        stats["t_port"] = round(time.time() - t0, 1)
        _dbg(f"t_port {stats['t_port']}")
        stats["port_traces"] = len(precs)
        for r in (precs[len(precs) // 3], precs[-1]):
            samples.append({"kind": "port", "sym": r["item"]["sym"][:40], "cuts": r["meta"]["replay"]["cuts"][:40],
                            "iso": r["item"]["iso"]})

        # ---- B2: the transport's connection phase (spec/TransportLife.tla) ---------------------
        t0 = time.time()
        life_stage(chk, tier, stats)
        paused_stage(chk, tier, stats, rng)
        stats["t_life"] = round(time.time() - t0, 1)

        # ---- C: packet log / packet dict replays; D: MQTT ----------------------------------
        t0 = time.time()

        async def file_stage() -> list[dict]:
            out = []
            cache: dict = {}
            pools.template_only = True
            for cex in mc["cex"]:
                if cex["mode"] == "file":
                    for as_dict in (False, True):
                        rec = await run_shape(shape_lines(tuple(cex["fl"]), pools, rng), as_dict, tmp, cache)
                        rec["meta"]["cex"] = cex["clause"]
                        out.append(rec)
            pools.template_only = False
            for shape in shapes:
                for _ in range(b["file_reps"]):
                    lines_ = shape_lines(shape, pools, rng)
                    for as_dict in (False, True):
                        out.append(await run_shape(lines_, as_dict, tmp, cache))
            gpick = [s for s in shapes if s][:: max(1, len(shapes) // b["gwy_shapes"])]
            for cex in mc["cex"]:
                if cex["mode"] == "file":
                    pools.template_only = True
                    rec = await run_gwy(shape_lines(tuple(cex["fl"]), pools, rng), tmp, cache)
                    pools.template_only = False
                    out.append(rec)
            for shape in gpick:
                out.append(await run_gwy(shape_lines(shape, pools, rng), tmp, cache))
            rig = await rx.MqttRig.create()
            iso_rig = await rx.MqttRig.create()
            mcache: dict = {}
            pick = shapes if len(shapes) <= b["mqtt_shapes"] else rng.sample(shapes, b["mqtt_shapes"])
            for shape in pick:
                if shape:
                    out.append(await run_mqtt(rig, iso_rig, shape_lines(shape, pools, rng), mcache))
            rig.close()
            iso_rig.close()
            return out

        frecs, loop2 = vloop.run(file_stage)
        stats["t_file"] = round(time.time() - t0, 1)
        _dbg(f"t_file {stats['t_file']}")
        stats["file_dict_mqtt_traces"] = len(frecs)
        for r in (frecs[len(frecs) // 3], frecs[-1]):
            samples.append({"kind": r["item"]["kind"], "lines": r["meta"]["replay"]["lines"], "iso": r["item"]["iso"]})

        # as-is model counter-examples must reproduce on the code (else the model has drifted)
        t0 = time.time()
        cex_recs = [r for r in precs + frecs if "cex" in r["meta"]]
        if cex_recs:
            res = rx.validate_batch("RxTrace", [r["item"] for r in cex_recs], workers=2)
            want = {"NoLoopException": "a2", "PartitionIndependent": "c", "ReplayEndsClean": "a2",
                    "ReplayDeliversAll": "b"}
            got = {i: {c for _l, c in f[2]} for i, f in res["rejects"]}
            rejected = {i for i, r in enumerate(cex_recs) if want[r["meta"]["cex"]] in got.get(i, set())}
            for i, r in enumerate(cex_recs):
                if i not in rejected:
                    chk.model_drift(f"as-is model counter-example to {r['meta']['cex']} did not reproduce on the code "
                                    f"under clause {want[r['meta']['cex']]} ({r['item']['kind']}; got {sorted(got.get(i, []))})")
            stats["cex_replayed"] = len(cex_recs)
            stats["cex_reproduced"] = len(rejected)
        canaries(precs + frecs, stats)
        judge(chk, precs, b["workers"], stats)
        judge(chk, frecs, b["workers"], stats)
        stats["t_judge"] = round(time.time() - t0, 1)
        if rx.STRAY:
            chk.note(f"{len(rx.STRAY)} GC-time 'never retrieved' loop messages ignored, e.g. {rx.STRAY[0]}")
        _dbg(f"t_judge {stats['t_judge']}")
    finally:
        shutil.rmtree(tmp, ignore_errors=True)

    chk.finish(
        coverage={
            "states": mc["states"] + stats.get("trace_states", 0),
            "transitions": mc["transitions"],
            "mc_instances": mc["instances"],
            "as_is_counterexamples": mc["cex"],
            "enumeration": einfo,
            "traces_validated_against_impl": stats.get("trace_items", 0),
            "strings_through_constructors": stats.get("lines", 0),
            "string_sources": stats.get("line_sources", {}),
            "port_traces": stats.get("port_traces", 0),
            "connection_phase": {"model": stats.get("life_mc", []), "real_executions": stats.get("life", {})},
            "file_dict_mqtt_traces": stats.get("file_dict_mqtt_traces", 0),
            "traces_rejected": stats.get("rejected", 0),
            "escaping_line_classes_found": stats.get("escapers", {}),
            "corrupted_trace_canaries_rejected": stats.get("canaries_rejected", 0),
            "timing_s": {k: v for k, v in stats.items() if k.startswith("t_")},
            "bounds": b,
            "samples": samples,
        },
        assumptions=[
            "strings are sampled systematically (corpus, single/double edits, regex members), not exhaustively",
            "J8: a line is 'valid' iff it is delivered when offered alone to the same kind of transport",
            "ValueError/PacketInvalid leaving MqttTransport._on_message count as the permitted rejection",
            "serial reads are dispatched by the loop's selector one at a time, loop drained between reads",
        ],
    )


# --------------------------------------------------------------------------------------


def do_replay(path: str) -> None:
    obj = json.load(open(path))
    rp = obj.get("replay", obj)
    print(f"replaying {obj.get('key', '?')}: {obj.get('what', '')}")
    tmp = tempfile.mkdtemp(prefix="c01r_")
    try:
        if rp["stage"] == "life":
            chk = Check(PID, "quick", "model_checking")
            rej = life_stage(chk, "quick", {}, only=[(rp["steps"], bool(rp["sending"]))])
            print("TLC verdict:", rej or "accepted")
            raise SystemExit(1 if any(c.startswith(("b:", "a2:")) for _i, f in rej for _l, c in f) else 0)
        if rp["stage"] == "paused":
            chk = Check(PID, "quick", "model_checking")
            rej = paused_stage(chk, "quick", {}, random.Random(0), only=[rp["steps"]])
            print("TLC verdict:", rej or "accepted")
            raise SystemExit(1 if rej else 0)
        if rp["stage"] == "line":
            recs = line_items(rp["lines"], 1)
            for r in recs:
                print(r["meta"]["lines"][0], "->", [(e["n"], e["mro"][:1]) for e in r["item"]["ev"] if e["mro"]],
                      r["meta"]["sigs_by_line"])
        elif rp["stage"] == "port":
            async def go() -> list[dict]:
                runner = PortRunner()
                c = {"sym": rp["sym"], "cuts": rp["cuts"], "content": rp["content"],
                     "lines": [bytes.fromhex(x) for x in rp["lines"]],
                     "chunks": [bytes.fromhex(x) for x in rp["chunks"]]}
                try:
                    return [await runner.run(c)]
                finally:
                    runner.close()
            recs, _ = vloop.run(go)
            for ch in rp["chunks"]:
                print("read", bytes.fromhex(ch))
        elif rp["stage"] == "gwy":
            async def go() -> list[dict]:
                return [await run_gwy([tuple(x) for x in rp["lines"]], tmp, {})]
            recs, _ = vloop.run(go)
            for x in rp["lines"]:
                print("line", x)
        elif rp["stage"] in ("file", "dict"):
            async def go() -> list[dict]:
                return [await run_shape([tuple(x) for x in rp["lines"]], rp["stage"] == "dict", tmp, {})]
            recs, _ = vloop.run(go)
            for x in rp["lines"]:
                print("line", x)
        else:
            async def go() -> list[dict]:
                rig, iso = await rx.MqttRig.create(), await rx.MqttRig.create()
                return [await run_mqtt(rig, iso, [tuple(x) for x in rp["lines"]], {})]
            recs, _ = vloop.run(go)
        for r in recs:
            print("iso:", r["item"]["iso"], "events:", [(e["e"], e["k"], e["mro"][:1]) for e in r["item"]["ev"]])
            print("signatures:", r["meta"].get("sigs"), r["meta"].get("iso_sigs"))
        res = rx.validate_batch("RxTrace", [r["item"] for r in recs], workers=1)
        print("TLC verdicts:", res["rejects"] or "accepted")
        sys.exit(1 if res["rejects"] else 0)
    finally:
        shutil.rmtree(tmp, ignore_errors=True)


if __name__ == "__main__":
    main_wrapper(PID, main)

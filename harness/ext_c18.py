"""C18 helpers: scripted controller, scenario runner (real Gateway in virtual time), TLC output parsing.

Used by checks/c18.py only.  Conventions shared with spec/SchedXferCore.tla:
  zones 1..3 <-> "01".."03";  content version c of zone z <-> the schedule mk_sched(z, c);
  NFrags(c) = 2 for c < 2, 3 otherwise.
"""
from __future__ import annotations

import asyncio
import re
from typing import Any

from harness import fakes, vloop
from harness.fakes import VDT

CTL = "01:145038"
GW = fakes.GWY_ID
OTHER = "30:222222"  # the device the controller is overheard talking to
MAXC = 7
HORIZON = 420.0  # virtual seconds after which a pending transfer counts as hanging
WINDOW = 180.0   # the freshness window of the cached change counter (ScheduleSync._schedule_version: 3 minutes)
AGE_DEFAULT = 185  # seconds an "age" event of a scenario sleeps when it names no duration


def zid(z: int) -> str:
    return f"{z:02X}"


ONEFRAG: set[int] = set()    # zones whose schedules are small enough for a single fragment (set per scenario)
SHRINK: set[int] = set()     # zones whose schedule is replaced (from version 2 on) by one that fits a single fragment


FAMILY: dict[int, tuple[int, str]] = {}  # zones with an irregular weekly schedule: z -> (seed, "late" | "early"), per scenario


def fam_sched(seed: int, where: str, c: int) -> list:
    """An irregular weekly schedule (4-6 switch-points a day at odd times, 5-6 fragments), version c = the base schedule
    after c single-set-point edits (+0.5 degrees on one switch-point), each late in the week (Saturday/Sunday: the head of
    the compressed stream - the first fragment or more - usually stays byte-identical) or early (Monday: less often).
    Which fragments of successive versions really are identical is measured (Book.sh), not assumed."""
    import random

    rnd = random.Random(f"c18-family-{seed}")
    days = []
    for d in range(7):
        slots = sorted(rnd.sample(range(144), rnd.randint(4, 6)))
        days.append({"day_of_week": d, "switchpoints": [
            {"time_of_day": f"{t // 6:02d}:{10 * (t % 6):02d}", "heat_setpoint": rnd.randrange(10, 50) / 2} for t in slots]})
    for i in range(1, c + 1):
        er = random.Random(f"c18-family-{seed}-edit-{i}")
        sps = days[er.choice((5, 6)) if where == "late" else 0]["switchpoints"]
        sps[er.randrange(len(sps))]["heat_setpoint"] += 0.5  # (sums only grow: every version is a different schedule)
    return days


def mk_sched(z: int, c: int) -> dict:
    """The schedule with content version c of zone z (validator-accepted, 2 or 3 fragments; 1 for ONEFRAG zones;
    FAMILY zones: see fam_sched)."""
    if z in FAMILY:
        return {"zone_idx": zid(z), "schedule": fam_sched(*FAMILY[z], c)}
    if z in ONEFRAG or (z in SHRINK and c >= 2):   # the same switch-point every day: compresses into one fragment
        return {"zone_idx": zid(z), "schedule": [
            {"day_of_week": d, "switchpoints": [{"time_of_day": "00:00", "heat_setpoint": 15.0 + c + z}]}
            for d in range(7)]}
    nsp = 1 if c < 2 else 2
    return {
        "zone_idx": zid(z),
        "schedule": [
            {
                "day_of_week": d,
                "switchpoints": [
                    {
                        "time_of_day": f"{(6 + 3 * i) % 24:02d}:{(5 * (d + c + z)) % 60:02d}",
                        "heat_setpoint": 15.0 + ((c + i + d + 3 * z) % 20) / 2,
                    }
                    for i in range(nsp)
                ],
            }
            for d in range(7)
        ],
    }


class Book:
    """Fragments of every (zone, version) and the reverse look-ups used to abstract real state."""

    def __init__(self, zones: list[int]) -> None:
        from ramses_rf.system.schedule import full_sched_to_fragz

        self.zones = zones
        self.frags: dict[tuple[int, int], list[str]] = {}
        self.by_text: dict[tuple[int, str], int] = {}
        self.scheds: dict[tuple[int, int], list] = {}
        # sh[z][c]: the positions at which the fragment of version c is byte-identical with that of version c - 1
        # (SchedXferCore: a slot value is the earliest version whose fragment in that position has these bytes; empty
        # everywhere but in FAMILY zones)
        self.sh: dict[int, list[list[int]]] = {z: [[] for _ in range(MAXC + 1)] for z in zones}
        for z in zones:
            for c in range(MAXC + 1):
                fr = full_sched_to_fragz(mk_sched(z, c))
                want = 1 if z in ONEFRAG or (z in SHRINK and c >= 2) else 2 if c < 2 else 3
                if z not in FAMILY and len(fr) != want:
                    raise RuntimeError(f"mk_sched({z},{c}) has {len(fr)} fragments, wanted {want}")
                self.frags[z, c] = fr
                self.scheds[z, c] = mk_sched(z, c)["schedule"]
                if z in FAMILY and c:
                    prev = self.frags[z, c - 1]
                    self.sh[z][c] = [k for k, (a, b) in enumerate(zip(fr, prev), 1) if a == b]
                    if fr[-1] == prev[-1] or self.scheds[z, c] in [self.scheds[z, i] for i in range(c)]:
                        raise RuntimeError("family versions are not distinct (the last fragment carries the checksum)")
                for k, f in enumerate(fr, 1):
                    if z in FAMILY:
                        rep = c
                        while rep > 0 and k in self.sh[z][rep]:
                            rep -= 1
                        if self.by_text.setdefault((z, f), rep) != rep:
                            raise RuntimeError("family fragment shared other than in one position of successive versions")
                        continue
                    if (z, f) in self.by_text:
                        raise RuntimeError("fragment texts are not unique per version")
                    self.by_text[z, f] = c

    def ver_of_sched(self, z: int, inner: Any) -> int:
        if inner is None:
            return -1
        for c in range(MAXC + 1):
            if inner == self.scheds[z, c]:
                return c
        return -2

    def ver_of_frag(self, z: int, text: str | None) -> int:
        if text is None:
            return -4  # a payload without fragment: a write acknowledgement
        return self.by_text.get((z, text), -3)


_BOOKS: dict[tuple, Book] = {}


def _book(zones: tuple) -> Book:
    key = (zones, tuple(sorted(ONEFRAG)), tuple(sorted(SHRINK)), tuple(sorted(FAMILY.items())))
    if key not in _BOOKS:
        _BOOKS[key] = Book(list(zones))
    return _BOOKS[key]


def classify_family(seed: int, where: str) -> tuple[int, list[list[int]]] | None:
    """Fragment counts and shared positions of the first versions of family (seed, where): (n0, n1, n2, sh) - or None when the
    family is unusable (fragments coincide in a way the slot abstraction does not describe)."""
    saved = (dict(FAMILY), set(ONEFRAG), set(SHRINK))
    FAMILY.clear(), ONEFRAG.clear(), SHRINK.clear()
    FAMILY[1] = (seed, where)
    try:
        b = _book((1, 2))
        return [len(b.frags[1, c]) for c in range(3)], b.sh[1][:3]  # type: ignore[return-value]
    except RuntimeError:
        return None
    finally:
        FAMILY.clear(), ONEFRAG.clear(), SHRINK.clear()
        FAMILY.update(saved[0]), ONEFRAG.update(saved[1]), SHRINK.update(saved[2])


class Ctl:
    """Scripted controller: change counter, one schedule version per zone, per-exchange plans."""

    def __init__(self, book: Book, run: "Run") -> None:
        self.book, self.run = book, run
        self.counter = 1
        self.cver = {z: 0 for z in book.zones}
        self.plans: dict[int, str] = {}  # id(cmd) -> lost | rlost | slow | dup
        self.seen: dict[int, int] = {}  # id(cmd) -> transmissions seen
        self._refs: list = []  # keeps every Command alive, so that an id() is never reused within a run
        self.wbuf: dict[int, dict[int, str]] = {z: {} for z in book.zones}
        self.writes: list[tuple[float, str]] = []

    def bump(self, z: int) -> None:
        self.cver[z] += 1
        self.counter += 1
        self.run.log("bump", z=z, a=self.cver[z])

    def on_write(self, t: fakes.FakeTransport, frame: str) -> None:
        f = fakes.echo_of(frame)
        self.writes.append((t.loop.time(), f))
        t.rx(f, 0.01)  # the gateway's own echo
        cmd = getattr(t.p._context, "_cmd", None)
        plan = self.plans.get(id(cmd), "ok")
        if id(cmd) not in self.seen:
            self._refs.append(cmd)
        n = self.seen[id(cmd)] = self.seen.get(id(cmd), 0) + 1
        if plan == "lost" or (plan == "slow" and n == 1):
            return
        verb, code, pay = f[:2].strip(), f[37:41], f[46:]
        reply = None
        if code == "0006" and verb == "RQ":
            reply = f"RP --- {CTL} {GW} --:------ 0006 004 0005{self.counter:04X}"
            if plan != "rlost":
                self.run.log("vread", a=self.counter)
        elif code == "0404" and verb == "RQ":
            z, k = int(pay[:2], 16), int(pay[10:12], 16)
            fr = self.book.frags[z, self.cver[z]]
            if k <= len(fr):
                p = f"{zid(z)}200008{len(fr[k - 1]) // 2:02X}{k:02X}{len(fr):02X}{fr[k - 1]}"
                reply = f"RP --- {CTL} {GW} --:------ 0404 {len(p) // 2:03d} {p}"
        elif code == "0404" and verb == "W":
            z, k, tot = int(pay[:2], 16), int(pay[10:12], 16), int(pay[12:14], 16)
            if n == 1 or plan == "slow":
                self.wbuf[z][k] = pay[14:]
                if k == tot and all(i in self.wbuf[z] for i in range(1, tot + 1)):
                    texts = [self.wbuf[z][i] for i in range(1, tot + 1)]
                    self.wbuf[z] = {}
                    vs = [c for c in range(MAXC + 1) if self.book.frags[z, c] == texts]  # a whole set of one version
                    if vs:
                        self.cver[z] = vs[0]
                        self.counter += 1
                        self.run.log("bump", z=z, a=self.cver[z])
            reply = f" I --- {CTL} {GW} --:------ 0404 007 {pay[:14]}"
        if reply is None or plan == "rlost":
            return
        t.rx(reply, 0.05)
        if plan == "dup":
            t.rx(reply, 0.08)


import contextvars

_CUR_XFER: contextvars.ContextVar = contextvars.ContextVar("verif_c18_xfer", default=None)


class Xfer:
    def __init__(self, tid: int, z: int, op: str, force: bool) -> None:
        self.tid, self.z, self.op, self.force = tid, z, op, force
        self.n = 0  # exchanges completed normally
        self.wr = -1
        self.task: asyncio.Task | None = None
        self.in_lock = False
        self.done = False


class Run:
    """Executes one scenario against a real Gateway and records the trace item for SchedXferTrace.

    scenario = {"zones": [1,2], "h": [[kind, a, b, c, d, tt, tn], ...], "extra": {"tid:n": "slow"|"dup"}}
    ["age", secs, ...]: secs (> WINDOW; 0 = AGE_DEFAULT) of virtual time pass while no transfer is active and no RP|0006
    is heard - the model's AgeCache, whatever the amount; ["wait", secs, ...]: the same with any amount (no model event:
    whether the window has been exceeded by then is measured when the next transfer is called).
    """

    def __init__(self, scenario: dict, verbose: bool = False) -> None:
        self.sc = scenario
        ONEFRAG.clear()
        ONEFRAG.update(scenario.get("onefrag", []))
        SHRINK.clear()
        SHRINK.update(scenario.get("shrink", []))
        FAMILY.clear()
        FAMILY.update({int(z): (int(v[0]), str(v[1])) for z, v in (scenario.get("fam") or {}).items()})
        self.zones: list[int] = list(scenario.get("zones", [1, 2]))
        self.verbose = verbose
        self.ev: list[dict] = []
        self.faults: dict[tuple[int, int], str] = {}
        self.extra: dict[tuple[int, int], str] = {}
        self.trig: dict[tuple[int, int], list[list]] = {}
        self.fu: list[int] = []
        self.n_main = 0
        for e in scenario["h"]:
            kind, a, b, c, d, tt, tn = e
            if kind in ("lost", "rlost", "cancel", "timeout"):
                self.faults[a, b] = kind
            elif kind == "fu":
                self.fu.append(a)
            else:
                if kind == "start":
                    self.n_main += 1
                self.trig.setdefault((tt, tn), []).append(e)
        for k, v in (scenario.get("extra") or {}).items():
            tid, n = k.split(":")
            self.extra[int(tid), int(n)] = v
        self.fired: set[tuple[int, int]] = set()
        self.xfers: dict[int, Xfer] = {}
        self.by_task: dict[asyncio.Task, Xfer] = {}
        self.tasks: list[asyncio.Task] = []
        self.loop_exc = 0
        self.skipped: list[str] = []
        self._last_xq: dict[int, str] = {}
        self.fresh = False  # the shadow's idea of whether the cached change counter is < 3 min old
        self.aging = False  # an "age"/"wait" event is letting virtual time pass (not a hang)
        self.last_vread_t: float | None = None  # loop time at which the controller last sent an RP|0006

    # -- recording ---------------------------------------------------------------------------
    def project(self) -> dict:
        tcs = self.tcs
        lock = tcs.zone_lock_idx
        zs = []
        for z in self.zones:
            s = self.zone[z]._schedule
            full = s._full_schedule
            fv = self.book.ver_of_sched(z, full.get("schedule")) if full else -1
            ps = []
            for p in s._payload_set:
                ps.append(-1 if p is None else self.book.ver_of_frag(z, p.get("fragment")))
            zs.append({"gver": int(s._global_ver or 0), "sver": int(s._sched_ver or 0), "full": fv, "pset": ps})
        return {"lock": 0 if lock is None else int(lock, 16), "zs": zs}

    def log(self, k: str, z: int = 0, a: int = 0, b: int = 0, c: int = 0, s: str = "", q: str = "") -> None:
        if k == "age":
            # the judge takes "age" as a fact about elapsed time (contract: a counter older than the window may not be
            # gone by): it is only ever logged when this clock says so
            if self.last_vread_t is not None and self.loop.time() - self.last_vread_t < WINDOW:
                self.skipped.append("age: an RP|0006 was sent less than 3 minutes ago")
                return
            self.fresh = False
        elif k == "heard6":
            self.fresh = True
        elif k == "vread":
            self.last_vread_t = self.loop.time()
        if k == "xq":
            self._last_xq[z] = s
        e = {"k": k, "z": z, "a": a, "b": b, "c": c, "s": s, "q": q, "p": self.project(),
             "t": int(round(self.loop.time() * 1000))}
        self.ev.append(e)
        if self.verbose:
            print(f"  t={self.loop.time():9.3f} {k:8s} z={z} a={a} b={b} c={c} s={s:10s} lock={e['p']['lock']} "
                  + " ".join(f"[g{q['gver']} s{q['sver']} f{q['full']} {q['pset']}]" for q in e['p']['zs']))

    # -- environment events --------------------------------------------------------------------
    async def fire(self, key: tuple[int, int]) -> None:
        if key in self.fired:
            return
        self.fired.add(key)
        for kind, a, b, c, d, tt, tn in self.trig.get(key, []):
            if kind == "start":
                busy = [x for x in self.xfers.values() if x.z == b and not x.done]
                if busy:  # one transfer per zone at a time: wait for the earlier one to end
                    self.trig.setdefault((busy[0].tid, -1), []).append([kind, a, b, c, d, busy[0].tid, -1])
                    self.fired.discard((busy[0].tid, -1))
                    continue
                self.start_xfer(a, b, "get" if c == 0 else "set", bool(d))
                await asyncio.sleep(0)  # let it run up to its first await
            elif kind == "bump":
                busy = [x for x in self.xfers.values() if x.z == a and x.op == "set" and not x.done]
                if busy:  # no second writer while the zone is being written (controller semantics unknown)
                    self.trig.setdefault((busy[0].tid, -1), []).append([kind, a, b, c, d, busy[0].tid, -1])
                    self.fired.discard((busy[0].tid, -1))
                    continue
                self.ctl.bump(a)
            elif kind == "heard":
                z, cv, k = a, b, c
                fr = self.book.frags[z, cv]
                p = f"{zid(z)}200008{len(fr[k - 1]) // 2:02X}{k:02X}{len(fr):02X}{fr[k - 1]}"
                self.t.rx(f"RP --- {CTL} {OTHER} --:------ 0404 {len(p) // 2:03d} {p}")
                await vloop.drain()  # logged as "hm" by the _handle_msg wrapper
            elif kind == "heardack":
                z, k, n = a, b, c
                ln = len(self.book.frags[z, self.ctl.cver[z]][k - 1]) // 2
                self.t.rx(f" I --- {CTL} {OTHER} --:------ 0404 007 {zid(z)}200008{ln:02X}{k:02X}{n:02X}")
                await vloop.drain()
            elif kind == "heard6":
                self.log("vread", a=self.ctl.counter)
                self.t.rx(f"RP --- {CTL} {OTHER} --:------ 0006 004 0005{self.ctl.counter:04X}")
                await vloop.drain()  # logged as "heard6" by the tcs._handle_msg wrapper
            elif kind == "age":
                if any(not x.done for x in self.xfers.values()):
                    self.skipped.append("age while a transfer is active")
                    continue
                secs = a or AGE_DEFAULT
                if secs <= WINDOW:
                    raise RuntimeError(f"age event of {secs} s: not more than the freshness window")
                await self.let_pass(secs)
                self.log("age", a=secs)
            elif kind == "wait":
                if any(not x.done for x in self.xfers.values()):
                    self.skipped.append("wait while a transfer is active")
                    continue
                await self.let_pass(a)
                self.log("wait", a=a)

    async def let_pass(self, secs: float) -> None:
        self.aging = True
        try:
            await asyncio.sleep(secs)
        finally:
            self.aging = False

    def _fallback_fire(self, key: tuple[int, int]) -> None:
        if key not in self.fired and key in self.trig:
            self.tasks.append(self.loop.create_task(self.fire(key)))

    # -- transfers -----------------------------------------------------------------------------
    def start_xfer(self, tid: int, z: int, op: str, force: bool) -> None:
        x = Xfer(tid, z, op, force)
        if op == "set":
            x.wr = self.ctl.cver[z] + 1
        self.xfers[tid] = x
        x.task = self.loop.create_task(self.run_xfer(x))
        self.tasks.append(x.task)

    async def run_xfer(self, x: Xfer) -> None:
        self.by_task[asyncio.current_task()] = x  # type: ignore[index]
        _CUR_XFER.set(x)  # inherited by every task the transfer spawns (a send moved into a task of its own)
        zone = self.zone[x.z]
        m6 = self.tcs._msg_0006
        if m6 is not None and self.fresh and (VDT.now() - m6.dtm).total_seconds() >= 180:
            self.log("age")  # more than 3 minutes since the last RP|0006: the cached counter is stale
        self.log("start", z=x.z, a=x.tid, b=int(x.force) if x.op == "get" else len(self.book.frags[x.z, x.wr]), c=x.wr, s=x.op)
        try:
            if x.op == "get":
                res = await zone.get_schedule(force_io=x.force)
            else:
                res = await zone.set_schedule(mk_sched(x.z, x.wr)["schedule"])
            x.done = True
            self.log("end", z=x.z, a=x.tid, b=self.book.ver_of_sched(x.z, res), s="ok")
        except asyncio.CancelledError:
            x.done = True
            own = any(t == x.tid and k in ("cancel", "timeout") for (t, _n), k in self.faults.items()) or getattr(x, "hung", False)
            self.log("end", z=x.z, a=x.tid, b=-1, s="hang" if getattr(x, "hung", False) else "cancel",
                     q="own" if own else "")
        except TimeoutError as err:
            x.done = True
            msg = str(err)
            s = "timeout" if msg.startswith("Failed to obtain schedule within") else (
                "locktimeout" if "Unable to obtain lock" in msg else "err")
            self.log("end", z=x.z, a=x.tid, b=-1, s=s)
        except Exception as err:  # noqa: BLE001  any error ends the transfer "with an error"
            x.done = True
            x.err = repr(err)[:200]
            self.log("end", z=x.z, a=x.tid, b=-1, s="err")
        self._fallback_fire((x.tid, -1))

    async def send_wrap(self, cmd, /, **kw):  # wraps gwy.async_send_cmd
        x = self.by_task.get(asyncio.current_task()) or _CUR_XFER.get()  # type: ignore[arg-type]
        if x is None:
            return await self.orig_send(cmd, **kw)
        await self.fire((x.tid, x.n))
        n = x.n + 1
        code, verb = str(cmd.code), str(cmd.verb).strip()
        if code == "0006":
            kind, num = "ver", 0
        elif verb == "RQ":
            kind, num = "frag", int(cmd.payload[10:12], 16)
        else:
            kind, num = "put", int(cmd.payload[10:12], 16)
        self.log("xq", z=x.z, a=num, s=kind)
        fault = self.faults.get((x.tid, n)) or self.extra.get((x.tid, n))
        if fault == "timeout":
            # the caller's overall time-out (wait_for in Schedule.get_schedule) expires during this exchange:
            # its deadline is moved to 20 ms from now (as if a smaller `timeout=` had been passed)
            name = x.task.get_name()
            hs = [h for _, lab, h in self.loop.armed_timers() if lab == f"timeout:{name}"]
            if hs:
                hs[0]._callback.__self__.reschedule(self.loop.time() + 0.02)
            else:
                self.skipped.append("no wait_for timer to expire")
        self.ctl._refs.append(cmd)
        if fault in ("lost", "rlost", "slow", "dup"):
            self.ctl.plans[id(cmd)] = fault
        if fault == "cancel":
            self.loop.call_later(0.02, x.task.cancel)
        try:
            pkt = await self.orig_send(cmd, **kw)
        except asyncio.CancelledError:
            raise
        except Exception:
            self.log("xr", z=x.z, s="fail", q=kind)
            raise
        x.n = n
        if kind == "ver":
            self.log("xr", z=x.z, a=int(pkt.payload[4:8], 16), s="ok", q=kind)
        elif kind == "frag":
            pay = pkt.payload
            self.log("xr", z=x.z, a=self.book.ver_of_frag(x.z, pay[14:]), b=int(pay[10:12], 16),
                     c=int(pay[12:14], 16), s="ok", q=kind)
        else:
            self.log("xr", z=x.z, s="ok", q=kind)
        key = (x.tid, x.n)
        self.loop.call_soon(self._fallback_fire, key)
        return pkt

    def hm_wrap(self, z: int, orig):  # wraps zone._schedule._handle_msg
        def handle(msg) -> None:
            if str(msg.code) != "0404":
                return orig(msg)
            pay = msg.payload
            ack = "fragment" not in pay
            a = -4 if ack else self.book.ver_of_frag(z, pay.get("fragment"))
            try:
                return orig(msg)
            finally:
                self.log("hm", z=z, a=a, b=int(pay.get("frag_number") or 0), c=int(pay.get("total_frags") or 0),
                         s="ack" if ack else "frag")
        return handle

    async def lock_wrap(self, idx: str) -> None:  # wraps tcs._obtain_lock
        x = self.by_task.get(asyncio.current_task()) or _CUR_XFER.get()  # type: ignore[arg-type]
        if x is None:
            return await self.orig_lock(idx)
        it0 = self.loop.iterations
        h = None
        if self.faults.get((x.tid, 0)) == "cancel":
            h = self.loop.call_later(0.1, lambda: x.in_lock and x.task.cancel())
        x.in_lock = True
        try:
            await self.orig_lock(idx)
        finally:
            x.in_lock = False
            if h is not None:
                h.cancel()
        if self.loop.iterations != it0:
            self.log("locked", z=x.z)

    # -- the run ---------------------------------------------------------------------------------
    async def main(self) -> None:
        import random

        import ramses_rf.system.heat as heat

        random.seed(0)
        self.loop = asyncio.get_running_loop()
        VDT._loop = self.loop
        heat.dt = VDT  # the 3-minute cache / lock time-outs follow the virtual clock
        self.book = _book(tuple(self.zones))
        self.ctl = Ctl(self.book, self)
        self.gwy, self.t = await fakes.make_port_gateway(
            on_write=self.ctl.on_write, schema={CTL: {"zones": {zid(z): {} for z in self.zones}}}
        )
        self.tcs = self.gwy.tcs
        self.zone = {z: self.tcs.get_htg_zone(zid(z)) for z in self.zones}
        self.orig_send = self.gwy.async_send_cmd
        self.gwy.async_send_cmd = self.send_wrap  # type: ignore[method-assign]
        self.orig_lock = self.tcs._obtain_lock
        self.tcs._obtain_lock = self.lock_wrap  # type: ignore[method-assign]
        for z in self.zones:
            s = self.zone[z]._schedule
            s._handle_msg = self.hm_wrap(z, s._handle_msg)  # type: ignore[method-assign]
        orig_tcs = self.tcs._handle_msg

        def tcs_handle(msg) -> None:
            orig_tcs(msg)
            if str(msg.code) == "0006" and str(msg.verb).strip() == "RP":
                self.log("heard6", a=int(msg.payload["change_counter"]))

        self.tcs._handle_msg = tcs_handle  # type: ignore[method-assign]
        if not hasattr(self.t.p, "_context") or not hasattr(self.t.p._context, "_cmd"):
            raise RuntimeError("protocol._context._cmd not found (needed to attribute transmissions)")

        await self.fire((0, -1))
        # main phase: until every scripted transfer has been started and has ended
        for _ in range(40):
            await self.settle()
            rest = [k for k in self.trig if k not in self.fired]
            if not rest:
                break
            await self.fire(sorted(rest)[0])  # a trigger point that was never reached: flush
        await self.settle()
        await asyncio.sleep(0.3)  # replies to abandoned exchanges are still on their way
        await vloop.drain()
        self.log("mainend")
        for z in self.fu:
            self.start_xfer(100 + z, z, "get", True)
            await self.settle()
        await vloop.drain()
        self.log("fin")
        self.loop_exc = len(self.loop.exc)  # type: ignore[attr-defined]

    async def settle(self) -> None:
        """Wait (virtual time) until all tasks created so far are done; flag hangs at the horizon."""
        while True:
            pend = [t for t in self.tasks if not t.done()]
            if not pend:
                return
            done, pend2 = await asyncio.wait(pend, timeout=HORIZON)
            if not done and pend2 and self.aging:
                continue  # a scripted stretch of idle time (hours, days), not a hang
            if not done and pend2:
                for x in self.xfers.values():
                    if not x.done:
                        x.hung = True
                for t in pend2:
                    t.cancel()
                await asyncio.wait(pend2, timeout=1)
                return

    def item(self) -> dict:
        return {"ev": [{k: v for k, v in e.items() if k != "t"} for e in self.ev],
                "sh": [self.book.sh[z] for z in sorted(self.zones)]}


def run_scenario(sc: dict, verbose: bool = False) -> Run:
    r = Run(sc, verbose)
    vloop.run(r.main)
    return r


# -- TLC output ---------------------------------------------------------------------------------
def extract_tagged(out: str, tag: str) -> list[str]:
    """All (possibly multi-line) PrintT values  << "tag", ... >>  in TLC's output, as text."""
    res = []
    pat = re.compile(r'<<\s*"' + re.escape(tag) + '"')
    pos = 0
    while True:
        m = pat.search(out, pos)
        if not m:
            return res
        i, depth, instr = m.start(), 0, False
        j = i
        while j < len(out):
            ch = out[j]
            if instr:
                if ch == "\\":
                    j += 1
                elif ch == '"':
                    instr = False
            elif ch == '"':
                instr = True
            elif out.startswith("<<", j):
                depth += 1
                j += 1
            elif out.startswith(">>", j):
                depth -= 1
                j += 1
                if depth == 0:
                    break
            j += 1
        res.append(out[i: j + 1])
        pos = j + 1


def h_to_list(h: Any) -> list[list]:
    return [[e["k"], e["a"], e["b"], e["c"], e["d"], e["tt"], e["tn"]] for e in h]

"""C12 helpers: a scripted heating controller and a discovery run of the real Gateway on the VLoop.

Abstract configuration (same shape as the `cfg` of spec/Discovery.tla; "" = none):

    {"zones": {"00": {"cls": "RAD", "sen": "34:000100", "acts": ["04:000101", ...]}, ...},
     "dhw":   {"sen": "07:000001", "hwv": "13:000002", "htv": ""},
     "app":   "10:000003"}

A loss pattern is a list of [code, ctx, round] ("the ether loses every exchange with this RQ header
whose transmission falls into polling round `round`", round r = the day around r*24 h) plus a
mode per entry: "rq" (request lost: no echo, no reply) or "rp" (reply lost: echo only).

Nothing here judges anything: `run_discovery` only records what the real code did.
"""
from __future__ import annotations

import asyncio
import random
import re
from typing import Any

from harness import fakes, vloop

CTL = "01:145038"
HGI = fakes.GWY_ID
DAY = 24 * 3600

CLS_CODE = {"RAD": "08", "UFH": "09", "VAL": "0A", "MIX": "0B", "ELE": "11"}
CLS_BY_NAME = {
    "radiator_valve": "RAD", "underfloor_heating": "UFH", "zone_valve": "VAL",
    "mixing_valve": "MIX", "electric_heat": "ELE",
}
NAME_BY_CLS = {v: k for k, v in CLS_BY_NAME.items()}

_RQ = re.compile(r"^RQ --- (\S+) (\S+) --:------ (\w{4}) (\d{3}) (\w+)$")


def hex_id(dev_id: str) -> str:
    return f"{(int(dev_id[:2]) << 18) + int(dev_id[-6:]):06X}"


def empty_cfg() -> dict:
    return {"zones": {}, "dhw": {"sen": "", "hwv": "", "htv": ""}, "app": ""}


def norm_cfg(cfg: dict) -> dict:
    out = empty_cfg()
    for idx, z in sorted(cfg.get("zones", {}).items()):
        out["zones"][idx] = {"cls": z.get("cls", ""), "sen": z.get("sen", "") or "",
                             "acts": sorted(z.get("acts", []))}
    out["dhw"].update({k: (v or "") for k, v in cfg.get("dhw", {}).items()})
    out["app"] = cfg.get("app", "") or ""
    return out


# --------------------------------------------------------------------------------------
# the scripted controller: RQ (code, payload) -> RP payload (or None = stays silent)


def _mask(idxs: list[str]) -> str:
    m = 0
    for i in idxs:
        m |= 1 << int(i, 16)
    return f"{m & 0xFF:02X}{(m >> 8) & 0xFF:02X}"  # lsb-first flags: zones 0-7, then 8-15


def _devs(idx: str, role: str, devs: list[str]) -> str:
    if not devs:
        return f"{idx}{role}7FFFFFFF"
    return "".join(f"{idx}{role}00{hex_id(d)}" for d in devs)


class Controller:
    """Answers like an evohome controller with configuration `cfg` (see module docstring).

    ctl_sensor_reply: how 000C/ii04 is answered for a zone whose sensor is the controller:
       "id"  the controller names itself (what the library's Zone accepts as a sensor device)
    """

    def __init__(self, cfg: dict, ctl_id: str = CTL) -> None:
        self.cfg = norm_cfg(cfg)
        self.ctl_id = ctl_id

    def reply(self, code: str, payload: str) -> str | None:
        z = self.cfg["zones"]
        if code == "0005":
            typ = payload[2:4]
            if typ == "04":
                return "0004" + _mask([i for i, v in z.items() if v["sen"]])
            if typ == "00":
                return "0000" + _mask(list(z))
            by = {v: k for k, v in CLS_CODE.items()}
            if typ in by:
                return f"00{typ}" + _mask([i for i, v in z.items() if v["cls"] == by[typ]])
            if typ == "0D":
                return "000D" + _mask(["00"] if any(self.cfg["dhw"].values()) else [])
            return f"00{typ}0000"
        if code == "000C":
            idx, role = payload[:2], payload[2:4]
            if role == "0F":
                return _devs("00", role, [self.cfg["app"]] if self.cfg["app"] else [])
            if role == "0D":
                d = self.cfg["dhw"]["sen"]
                return _devs("00", role, [d] if d else [])
            if role == "0E":
                d = self.cfg["dhw"]["hwv" if idx == "00" else "htv"]
                return _devs(idx, role, [d] if d else [])
            zone = z.get(idx)
            if role == "04":
                return _devs(idx, role, [zone["sen"]] if zone and zone["sen"] else [])
            if role == "00":
                return _devs(idx, role, zone["acts"] if zone else [])
            if role in CLS_CODE.values():
                ok = zone is not None and CLS_CODE.get(zone["cls"]) == role
                return _devs(idx, role, zone["acts"] if ok else [])
            return _devs(idx, role, [])
        return self.other(code, payload)

    def other(self, code: str, payload: str) -> str | None:
        idx = payload[:2]
        if code == "0006":
            return "00050007"
        if code == "0418":
            return "000000B0000000000000000000007FFFFF7000000000"
        if code == "1100":
            return "FC180400007FFF01"
        if code == "2E04":
            return "00FFFFFFFFFFFF00"
        if code == "313F":
            return "00FC081CCF0D0307E6"
        if code == "0100":
            return "00656EFFFF"
        if code == "10A0":
            return "0013880003E8"
        if code == "1F41":
            return "000000FFFFFF"
        if code == "1260":
            return "00116A"
        if idx in self.cfg["zones"]:
            if code == "0004":
                return f"{idx}005A6F6E65{'00' * 15}"
            if code == "000A":
                return f"{idx}1001F40DAC"
            if code == "2349":
                return f"{idx}07D000FFFFFF"
            if code == "30C9":
                return f"{idx}07BB"
            if code == "12B0":
                return f"{idx}0000"
        return None


# --------------------------------------------------------------------------------------
# projection of the real gateway's schema onto the abstract shape


def project(gwy: Any, ctl_id: str = CTL) -> dict:
    out = empty_cfg()
    sch = gwy.schema.get(ctl_id)
    if not sch:
        return out
    for idx, z in (sch.get("zones") or {}).items():
        cls = z.get("class")
        out["zones"][idx] = {
            "cls": "" if cls is None else CLS_BY_NAME.get(cls, f"?{cls}"),
            "sen": z.get("sensor") or "",
            "acts": sorted(z.get("actuators") or []),
        }
    dhw = sch.get("stored_hotwater") or {}
    out["dhw"] = {"sen": dhw.get("sensor") or "", "hwv": dhw.get("hotwater_valve") or "",
                  "htv": dhw.get("heating_valve") or ""}
    out["app"] = (sch.get("system") or {}).get("appliance_control") or ""
    return out


def _entities(gwy: Any) -> list:
    out = list(gwy.devices)
    for tcs in gwy.systems:
        out.append(tcs)
        out.extend(tcs.zones)
        if tcs.dhw:
            out.append(tcs.dhw)
    return out


def _dead_pollers(gwy: Any) -> list[str]:
    out = []
    for e in _entities(gwy):
        t = e._discovery_poller
        if t is None or not t.done():
            continue
        try:
            err = t.exception()
        except BaseException as x:  # noqa: BLE001  (cancelled)
            err = x
        out.append(f"{getattr(e, 'id', '?')}:{type(err).__name__ if err else 'returned'}")
    return out


def _poll_interval(gwy: Any) -> int:
    """The polling interval of the 0005/000C entries, read from the running gateway (J13)."""
    vals = []
    for e in _entities(gwy):
        for task in (e._discovery_cmds or {}).values():
            if str(task["command"].code) in ("0005", "000C"):
                vals.append(int(task["interval"].total_seconds()))
    return max(vals) if vals else DAY


def default_samples(n_days: int) -> list[tuple[int, float]]:
    """Sample points as (round, offset seconds): minutes 1..10 of every round, and 4 points between."""
    ts: list[tuple[int, float]] = []
    for d in range(n_days + 1):
        ts += [(d, 60.0 * m) for m in range(1, 11)]
        if d < n_days:
            ts += [(d, 3600.0 * h) for h in (1, 6, 12)] + [(d + 1, -360.0)]
    return ts


# --------------------------------------------------------------------------------------


def run_discovery(
    cfg: dict,
    losses: list[list] | None = None,
    *,
    n_days: int = 1,
    samples: list[tuple[int, float]] | None = None,
    qos: bool | None = None,
    start: str = "named",  # "named": schema {CTL: {}} ; "heard": no schema, CTL announces itself after start-up;
    # "early": no schema, CTL's sync packet is heard while the gateway is still starting (before connection_made)
    seed: int = 0,
    stop_when_complete: bool = True,
    eavesdrop: bool = False,
    max_zones: int | None = None,
    scan: bool = False,  # another gateway (18:222222) walks the controller's zone table (RQ|000C|zz00 / zz04 for 00-0B,
    # RQ|0005 masks) 150 s after start-up - what ramses_cli's full scan or an RFG100 does; its exchanges are overheard
) -> dict:
    """Run the real Gateway (discovery on) against Controller(cfg); return the recorded trace."""
    import ramses_rf.entity_base as eb

    cfg = norm_cfg(cfg)
    ctl = Controller(cfg)
    lossmap: dict[tuple[str, str, int], list] = {}  # -> [mode, remaining transmissions to lose]
    latemap: dict[tuple[str, str, int], float] = {}  # mode "late": reply delayed by ent[4] seconds
    for ent in losses or []:
        code, ctx, rnd = ent[0], ent[1], int(ent[2])
        if len(ent) > 3 and ent[3] == "late":
            latemap[(code, ctx, rnd)] = float(ent[4])
            continue
        lossmap[(code, ctx, rnd)] = [ent[3] if len(ent) > 3 else "rp", int(ent[4]) if len(ent) > 4 else 10**6]
    samples = list(samples or default_samples(n_days))
    ivl = [DAY]  # polling interval of the 0005/000C entries; re-read from the gateway once it runs
    rec: dict[str, Any] = {"cfg": cfg, "losses": [list(x) for x in (losses or [])], "samples": [],
                           "loss_times": [], "rqs": {}, "loop_exc": [], "qos": qos, "start": start,
                           "seed": seed}

    box: dict[str, Any] = {}

    def event_sample(tries: int = 0) -> None:
        """Sample the schema shortly after a 0005/000C reply was handled (only changes are kept)."""
        gwy, loop = box.get("gwy"), box.get("loop")
        if gwy is None:
            return
        if len(loop._ready) > 0 and tries < 20:  # not quiescent at this instant: look again in 1 ms
            loop.call_later(0.001, event_sample, tries + 1)
            return
        snap = project(gwy)
        if not rec["samples"] or rec["samples"][-1]["k"] != snap:
            rec["samples"].append({"t": int(loop.time()), "k": snap})

    def on_write(t: fakes.FakeTransport, frame: str) -> None:
        f = fakes.echo_of(frame, HGI)
        m = _RQ.match(f)
        now = t.loop.time()
        if not m or m.group(2) != CTL:
            t.rx(f, 0.01)
            return
        code, payload = m.group(3), m.group(5)
        if code in ("0005", "000C"):
            key = f"{code}/{payload}"
            rec["rqs"].setdefault(key, []).append(round(now, 4))
            rnd = int((now + ivl[0] / 2) // ivl[0])
            ent = lossmap.get((code, payload, rnd))
            if ent is not None and ent[1] > 0:
                ent[1] -= 1
                rec["loss_times"].append(round(now, 4))
                if ent[0] == "rp":
                    t.rx(f, 0.01)
                return
        t.rx(f, 0.01)
        rp = ctl.reply(code, payload)
        if rp is not None:
            dly = 0.05  # "late" entries shift the reply (never before the echo at 10 ms)
            if code in ("0005", "000C"):
                dly += float(latemap.get((code, payload, int((now + ivl[0] / 2) // ivl[0])), 0.0))
                dly = max(dly, 0.012)
            t.rx(f"RP --- {CTL} {HGI} --:------ {code} {len(rp) // 2:03d} {rp}", dly)
            if code in ("0005", "000C"):
                t.loop.call_later(dly + 0.02, event_sample)

    async def main() -> None:
        loop = asyncio.get_running_loop()
        fakes.VDT._loop = loop
        eb.dt = fakes.VDT
        random.seed(seed)
        config: dict[str, Any] = {"disable_discovery": False, "disable_qos": qos,
                                  "enable_eavesdrop": eavesdrop}
        if max_zones is not None:
            config["max_zones"] = max_zones
        schema = {CTL: {}} if start == "named" else {}
        early = [f" I --- {CTL} --:------ {CTL} 1F09 003 FF0708"] if start == "early" else None
        gwy, t = await fakes.make_port_gateway(on_write=on_write, config=config, schema=schema, early_rx=early)
        box.update(gwy=gwy, loop=loop)
        if start == "heard":
            t.rx(f" I --- {CTL} --:------ {CTL} 1F09 003 FF0708", 1.0)
        if scan:
            other, at = "18:222222", 150.0
            asks = [("0005", "0000"), ("0005", "0004")] + [("000C", f"{z:02X}{r}") for z in range(12) for r in ("00", "04")] \
                + [("0005", "0008"), ("0005", "000D")]
            for code, payload in asks:
                rp = ctl.reply(code, payload)
                t.rx(f"RQ --- {other} {CTL} --:------ {code} {len(payload) // 2:03d} {payload}", at)
                if rp is not None:
                    t.rx(f"RP --- {CTL} {other} --:------ {code} {len(rp) // 2:03d} {rp}", at + 0.05)
                at += 0.3
            loop.call_later(at + 1.0, event_sample)
            rec["scan"] = len(asks)
        try:
            await asyncio.sleep(2.0 - loop.time())
            await vloop.drain()
            ivl[0] = _poll_interval(gwy)
            for rnd, off in samples:
                ts = rnd * ivl[0] + off
                if ts < loop.time():
                    continue
                await asyncio.sleep(ts - loop.time())
                await vloop.drain()
                snap = project(gwy)
                rec["samples"].append({"t": int(round(loop.time())), "k": snap})
                if stop_when_complete and snap == cfg:
                    pend = [k for k, v in lossmap.items()
                            if k[2] > int((loop.time() + ivl[0] / 2) // ivl[0])]
                    if not pend and len(rec["samples"]) >= 2:
                        break
            box.clear()
        finally:
            rec["dead_pollers"] = sorted(_dead_pollers(gwy))
            rec["interval"] = _poll_interval(gwy)
            rec["n_written"] = len(t.written)
            rec["t_end"] = round(loop.time(), 1)
            await gwy.stop()

    _, lp = vloop.run(main)
    rec["loop_exc"] = [
        f"{type(c.get('exception')).__name__}: {str(c.get('exception'))[:160]}" for c in lp.exc
    ][:10]
    return rec

"""C13 helpers: mutated packet histories from the shipped logs, and the observation harness that
reads every public view, snapshots/restores, and probes a real Gateway.  Used by checks/c13.py."""
from __future__ import annotations

import asyncio
import datetime as _dt
import glob
import os
import random
import re
from typing import Any

from harness import fakes, vloop

_TS = re.compile(r"^(\d{4}-\d\d-\d\d[T ]\d\d:\d\d:\d\d\.\d{6}) (\S{3}) (.*)$")
VIEWS = ("schema", "params", "status", "traits")
PROBE_DEV = "04:000001"


def tests_dir() -> str:
    repo = os.path.dirname(fakes.REPO_SRC.rstrip("/"))
    t = os.path.join(repo, "tests")
    return t if os.path.isdir(t) else "/repo/tests"


def load_logs() -> dict[str, list[tuple[str, str]]]:
    """{relative path: [(timestamp, frame)]} for every log under tests/ (comments dropped)."""
    out = {}
    for f in sorted(glob.glob(os.path.join(tests_dir(), "**", "*.log"), recursive=True)):
        rows = []
        for ln in open(f, errors="replace"):
            s = ln.strip()
            if not s or s[:1] == "#":
                continue
            m = _TS.match(s)
            if not m:
                continue
            frame = m.group(3).split("#")[0].split("<")[0].split("*")[0].rstrip()
            if len(frame) > 40:
                rows.append((m.group(1).replace(" ", "T"), frame))
        if rows:
            out[os.path.relpath(f, tests_dir())] = rows
    return out


# --------------------------------------------------------------------------------------
# field mutation inside a frame (extreme values: zero countdowns, FF/7F sentinels, max indexes)

_BYTES = ("00", "FF", "7F", "EF", "FE", "01", "0B", "0F", "C8", "80")
_WORDS = ("0000", "FFFF", "7FFF", "7EFF", "8000", "0001", "7FFE")
_IDX = ("0B", "0C", "0F", "FF", "F9", "FA", "FC", "00")


def accepted(frame: str) -> bool:
    from ramses_tx.message import Message
    from ramses_tx.packet import Packet
    try:
        Message(Packet(_dt.datetime(2026, 1, 1), f"000 {frame}"))
        return True
    except Exception:  # noqa: BLE001
        return False


def mutate_frame(rnd: random.Random, frame: str) -> str:
    head, pl = frame[:46], frame[46:].strip()
    if len(frame) < 47 or len(pl) < 2 or len(pl) % 2:
        return frame
    n = len(pl) // 2
    kind = rnd.randrange(5)
    if kind == 0:  # one byte
        i = rnd.randrange(n)
        pl = pl[: 2 * i] + rnd.choice(_BYTES) + pl[2 * i + 2:]
    elif kind == 1 and n >= 2:  # one 16-bit word
        i = rnd.randrange(n - 1)
        pl = pl[: 2 * i] + rnd.choice(_WORDS) + pl[2 * i + 4:]
    elif kind == 2:  # the index byte
        pl = rnd.choice(_IDX) + pl[2:]
    elif kind == 3 and n >= 3:  # the trailing word (countdowns, temperatures, demands)
        pl = pl[:-4] + rnd.choice(_WORDS)
    else:  # everything after the index byte
        pl = pl[:2] + rnd.choice(("00", "FF", "7F")) * (n - 1)
    return head + pl


def derive(rnd: random.Random, logs: dict[str, list[tuple[str, str]]], name: str, max_len: int) -> tuple[list[tuple[str, str]], list[str]]:
    """A history built from log `name` by a random stack of the operations of C13's quantifier."""
    rows = list(logs[name])
    if len(rows) > max_len:
        i = rnd.randrange(0, len(rows) - max_len + 1)
        rows = rows[i: i + max_len]
    ops: list[str] = []
    for op in rnd.sample(("delete", "duplicate", "reorder", "splice", "mutate"), rnd.randrange(0, 4)) + ["mutate"]:
        if op in ops or not rows:
            continue
        ops.append(op)
        if op == "delete":
            p = rnd.choice((0.1, 0.3))
            rows = [r for r in rows if rnd.random() >= p] or rows[:1]
        elif op == "duplicate":
            for _ in range(max(1, len(rows) // 10)):
                i = rnd.randrange(len(rows))
                rows.insert(rnd.randrange(i, len(rows) + 1), rows[i])
        elif op == "reorder":
            for _ in range(max(1, len(rows) // 15)):
                i = rnd.randrange(len(rows))
                j = min(len(rows), i + rnd.randrange(2, 12))
                w = rows[i:j]
                rnd.shuffle(w)
                rows[i:j] = w
        elif op == "splice":
            other = logs[rnd.choice(sorted(logs))]
            a = rnd.randrange(0, len(other))
            b = min(len(other), a + rnd.randrange(1, max_len // 2 + 2))
            i = rnd.randrange(0, len(rows) + 1)
            rows[i:i] = other[a:b]
        elif op == "mutate":
            for _ in range(max(1, len(rows) // 12)):
                i = rnd.randrange(len(rows))
                for _try in range(6):
                    fr = mutate_frame(rnd, rows[i][1])
                    if fr != rows[i][1] and (accepted(fr) or rnd.random() < 0.15):
                        rows[i] = (rows[i][0], fr)
                        break
    return rows, ops


def role_swapped(rnd: random.Random, rows: list[tuple[str, str]], per_kind: int, kinds_step: int = 1) -> list[tuple]:
    """"Packets valid for other systems or device classes": after the history has established its system, every
    known I / RP verb|code once more - with payloads drawn from the library's own regex for it - but sent by the
    devices of *this* history (its controller first), self-addressed and addressed to the gateway.  Each is
    observed at once (views only), before a later packet of the same code replaces it."""
    from harness import gen

    srcs: list[str] = []
    for r in rows:
        a = r[1][7:16]
        if a[:2] not in ("18", "63", "--") and a not in srcs:
            srcs.append(a)
    srcs.sort(key=lambda a: (a[:2] != "01", a))
    srcs = srcs[:3]
    if not srcs:
        return list(rows)
    ts = rows[-1][0]
    out: list[tuple] = list(rows)
    pay = gen.schema_payloads(rnd, 2)
    kinds = sorted(k for k in pay if k[1] in (" I", "RP"))[::kinds_step]
    for (code, verb) in kinds:
        members = pay[(code, verb)]
        rnd.shuffle(members)
        for m in members[:per_kind]:
            dev = srcs[0] if rnd.random() < 0.6 else rnd.choice(srcs)
            if verb == " I":
                fr = gen.make_frame(verb, dev, "--:------", dev, code, m)
            else:
                fr = gen.make_frame(verb, dev, "18:000730", "--:------", code, m)
            if accepted(fr):
                out.append((ts, fr, "obs"))
    return out


FOREIGN_IDS = ("29:151550", "32:111111", "37:222222", "39:159057", "30:111222", "10:123456", "13:111111", "02:000921",
               "01:999999", "04:999999", "34:999999", "20:333444", "22:555666", "03:777888", "07:999000")


def foreign_kit(rnd: random.Random, rows: list[tuple[str, str]], per_kind: int) -> list[tuple]:
    """"Packets that are valid for other systems (another controller, HVAC kit, a neighbour's devices)": after the
    history has established its system, every known I / RP verb|code - payloads drawn from the library's own regex
    for it, extremes included - sent by devices that are *not* of this history, in the three address shapes.  Views
    are read now and then; the whole observation (snapshot, restore, probes: is the known system still tracked?)
    follows at the end and after the silences."""
    from harness import gen

    ts = rows[-1][0]
    out: list[tuple] = list(rows)
    pay = gen.schema_payloads(rnd, max(2, per_kind))
    kinds = sorted(k for k in pay if k[1] in (" I", "RP"))
    rnd.shuffle(kinds)
    n = 0
    for (code, verb) in kinds:
        members = pay[(code, verb)]
        rnd.shuffle(members)
        for m in members[:per_kind]:
            dev, oth = rnd.sample(FOREIGN_IDS, 2)
            shape = rnd.randrange(3)
            if verb == "RP":
                fr = gen.make_frame(verb, dev, rnd.choice(("18:000730", oth)), "--:------", code, m)
            elif shape == 0:
                fr = gen.make_frame(verb, dev, "--:------", dev, code, m)
            elif shape == 1:
                fr = gen.make_frame(verb, "--:------", "--:------", dev, code, m)
            else:
                fr = gen.make_frame(verb, dev, oth, "--:------", code, m)
            if accepted(fr):
                n += 1
                out.append((ts, fr, "obs") if n % 40 == 0 else (ts, fr))
    return out


# --------------------------------------------------------------------------------------
# the observation harness


def proj(gwy: Any, tr: Any) -> list:
    """<<es, hdl, snd, rd, pw, disc>> of Engine.tla; tr = None: no transport yet (nothing is reading)."""
    es = "none" if gwy._engine_state is None else ("partial" if gwy._engine_state[0] is None and gwy._protocol._msg_handler is not None else "saved")
    return [es, int(gwy._protocol._msg_handler is not None), int(bool(gwy._disable_sending)),
            int(bool(tr is not None and tr.reading)),
            int(bool(gwy._protocol._pause_writing)), int(bool(gwy.config.disable_discovery))]


def _entities(gwy: Any) -> list[tuple[str, Any]]:
    out: list[tuple[str, Any]] = [("Gateway", gwy)]
    for d in list(gwy.devices):
        out.append((type(d).__name__, d))
    for s in list(gwy.systems):
        out.append((type(s).__name__, s))
        for z in list(s.zones):
            out.append((type(z).__name__, z))
        if getattr(s, "dhw", None):
            out.append((type(s.dhw).__name__, s.dhw))
    return out


class Recorder:
    def __init__(self) -> None:
        self.ev: list[dict] = []
        self.detail: list[str] = []
        self.bound = 1      # Engine.tla's tr: 0 while the gateway has not been started yet

    def add(self, k: str, name: str, res: str, before: list | None = None, after: list | None = None, detail: str = "") -> None:
        z = ["none", 1, 0, 1, 0, 0]
        self.ev.append({"k": k, "name": name, "res": res, "before": before or z, "after": after or z, "tr": self.bound})
        self.detail.append(detail)


async def observe(gwy: Any, tr: Any, rec: Recorder, state: dict, verbose: bool = False, nodisc: int = 1,
                  light: bool = False, cache: dict[str, str] | None = None) -> bool:
    """One observation point.  Returns False if the engine is no longer running (stop the history).
    light: the public views only (after a single role-swapped packet, before the next one replaces it).
    tr = None: the gateway has not been started yet (point zero of the history) - views and operations only, the
    probes need a transport; cache: the snapshot of an earlier session, restored where the gateway's own one is empty."""
    from ramses_tx import Command, Priority

    await vloop.drain()
    # 1. every public view
    for cls, obj in _entities(gwy):
        names = VIEWS + (("known_list",) if obj is gwy else ())
        for name in names:
            if obj is gwy and name == "traits":
                continue
            if not isinstance(getattr(type(obj), name, None), property):
                continue
            try:
                getattr(obj, name)
                res = "ok"
            except Exception as err:  # noqa: BLE001
                res = type(err).__name__
                if verbose:
                    print(f"    view {cls}.{name} of {getattr(obj, 'id', '')} raised {res}: {str(err)[:120]}")
            rec.add("view", f"{cls}.{name}", res, detail=str(getattr(obj, "id", "")))
    await vloop.drain()
    if light:
        return True
    # 2. snapshot + restore, with and without expired packets
    ok = True
    if not nodisc:
        # the configured disable_discovery is False while the operations run (and only then: no
        # poller is ever started, the fake world would not answer it) -- this makes the flag that
        # the pause/resume bracket saves and restores observable
        gwy.config.disable_discovery = False
    for ie in (False, True):
        before = proj(gwy, tr)
        pk = None
        try:
            _, pk = gwy.get_state(include_expired=ie)
            res = "ok"
        except Exception as err:  # noqa: BLE001
            res = type(err).__name__
            if verbose:
                print(f"    get_state(include_expired={ie}) raised {res}: {str(err)[:120]}")
        await vloop.drain()
        after = proj(gwy, tr)
        rec.add("op", "get_state", res, before, after, detail=f"include_expired={ie}")
        if after != before:
            ok = False
            break
        if pk is not None:
            if not pk and cache:
                pk = dict(cache)
            before = proj(gwy, tr)
            try:
                await gwy._restore_cached_packets(pk)
                res = "ok"
            except Exception as err:  # noqa: BLE001
                res = type(err).__name__
                if verbose:
                    print(f"    restore raised {res}: {str(err)[:120]}")
            await vloop.drain()
            after = proj(gwy, tr)
            rec.add("op", "restore", res, before, after, detail=f"{len(pk)} packets")
            if after != before:
                ok = False
                break
    if not ok:
        return False  # the engine is paused: whatever a probe would show is a consequence
    # 2b. nested misuse: a snapshot and a restore requested while a restore is in flight (it awaits the
    #     replay inside its pause/resume bracket).  Whatever the nested call answers, it must leave the
    #     engine exactly as it found it (paused by the outer restore), and the outer restore must still
    #     end with the gateway running as before (Engine.tla: Start while Top.op = "restore" /\ pc = "body").
    if pk is not None and state.get("n", 0) % 2 == 0:
        outer_before = proj(gwy, tr)
        task = asyncio.get_running_loop().create_task(gwy._restore_cached_packets(pk))
        for _ in range(50):
            if gwy._engine_state is not None or task.done():
                break
            await asyncio.sleep(0)
        if gwy._engine_state is not None and not task.done():
            for name in ("get_state", "restore"):
                before = proj(gwy, tr)
                try:
                    if name == "get_state":
                        gwy.get_state()
                    else:
                        await asyncio.wait_for(gwy._restore_cached_packets(pk), timeout=300)
                    res = "ok"
                except Exception as err:  # noqa: BLE001
                    res = type(err).__name__
                after = proj(gwy, tr)
                rec.add("nested", name, res, before, after, detail="while a restore is in flight")
        try:
            await asyncio.wait_for(task, timeout=600)
            res = "ok"
        except Exception as err:  # noqa: BLE001
            res = type(err).__name__
            if verbose:
                print(f"    restore (with nested calls) raised {res}: {str(err)[:120]}")
        await vloop.drain()
        after = proj(gwy, tr)
        rec.add("op", "restore", res, outer_before, after, detail="outer restore of a nested pair")
        if after != outer_before:
            return False
    # 2c. "whether or not the operation itself succeeded": the harness makes the body of each operation raise
    #     (Engine.tla: the body may raise at any point) - a store that cannot be traversed for the snapshot, a
    #     transport that cannot be created for the restore - and the engine must be running as before afterwards
    if state.get("n", 0) % 3 == 0:
        class _Boom:
            id = "99:999999"

            @property
            def _msg_db(self):  # noqa: ANN202
                raise RuntimeError("injected by the harness")

        before = proj(gwy, tr)
        gwy.devices.append(_Boom())
        try:
            gwy.get_state()
            res = "ok"
        except Exception as err:  # noqa: BLE001
            res = type(err).__name__
        finally:
            gwy.devices[:] = [d for d in gwy.devices if not isinstance(d, _Boom)]
        await vloop.drain()
        after = proj(gwy, tr)
        rec.add("opx", "get_state", res, before, after, detail="injected: a store raises while it is traversed")
        if after != before:
            return False
        if pk is not None:
            import ramses_rf.gateway as _g

            orig_tf = _g.transport_factory

            async def _tf(*a: Any, **kw: Any) -> Any:
                raise RuntimeError("injected by the harness")

            before = proj(gwy, tr)
            _g.transport_factory = _tf
            try:
                await gwy._restore_cached_packets(pk)
                res = "ok"
            except Exception as err:  # noqa: BLE001
                res = type(err).__name__
            finally:
                _g.transport_factory = orig_tf
            await vloop.drain()
            after = proj(gwy, tr)
            rec.add("opx", "restore", res, before, after, detail="injected: the replay transport cannot be created")
            if after != before:
                return False
            # ... a snapshot one of whose entries is not a packet line at all (a hand-edited / truncated cache file) ...
            bad = dict(pk)
            keys = sorted(bad)
            bad[keys[len(keys) // 2] if keys else "2026-01-01T00:00:00.000000"] = None  # type: ignore[assignment]
            before = proj(gwy, tr)
            try:
                await asyncio.wait_for(gwy._restore_cached_packets(bad), timeout=600)
                res = "ok"
            except Exception as err:  # noqa: BLE001
                res = type(err).__name__
            await vloop.drain()
            await asyncio.sleep(5)      # whatever the failed restore still has pending has run out
            await vloop.drain()
            after = proj(gwy, tr)
            rec.add("opx", "restore", res, before, after, detail="injected: one entry of the snapshot is not a packet line")
            if after != before:
                return False
            # ... and a restore that is cancelled while its replay is in flight (a caller's start-up time-out)
            before = proj(gwy, tr)
            task = asyncio.get_running_loop().create_task(gwy._restore_cached_packets(pk))
            for _ in range(50):
                if gwy._engine_state is not None or task.done():
                    break
                await asyncio.sleep(0)
            was_in_flight = gwy._engine_state is not None and not task.done()
            task.cancel()
            try:
                await asyncio.wait_for(asyncio.shield(task), timeout=600)
                res = "ok"
            except asyncio.CancelledError:
                res = "CancelledError"
            except Exception as err:  # noqa: BLE001
                res = type(err).__name__
            await vloop.drain()
            await asyncio.sleep(5)
            await vloop.drain()
            after = proj(gwy, tr)
            rec.add("opx", "restore", res, before, after,
                    detail=f"injected: cancelled {'in flight' if was_in_flight else 'before it got going'}")
            if after != before:
                return False
    if not nodisc:
        gwy.config.disable_discovery = True
    if tr is None:
        return ok   # not yet started: nothing to receive from or to send through (the probes follow start())
    # 3. probes: still receiving, still tracking what it knows, still able to send
    state["n"] = state.get("n", 0) + 1
    val = 1000 + state["n"]
    tr.rx(f" I --- {PROBE_DEV} --:------ {PROBE_DEV} 30C9 003 00{val:04X}")
    await vloop.drain()
    dev = gwy.device_by_id.get(PROBE_DEV)
    try:
        got = dev is not None and dev._msgs_.get("30C9") is not None and dev._msgs_["30C9"]._pkt.payload == f"00{val:04X}"
    except Exception:  # noqa: BLE001
        got = False
    rec.add("probe", "packet", "ok" if got else "lost")
    kn = state.get("known")
    if kn is not None:
        src_id, code, frame = kn
        d = gwy.device_by_id.get(src_id)
        old = d._msgs_.get(code) if d is not None else None
        tr.rx(frame)
        await vloop.drain()
        d = gwy.device_by_id.get(src_id)
        new = d._msgs_.get(code) if d is not None else None
        tracked = new is not None and new is not old and new.dtm == fakes.VDT.now()
        rec.add("probe", "known", "ok" if tracked else "lost", detail=frame)
    try:
        await asyncio.wait_for(gwy.async_send_cmd(Command._puzzle(), wait_for_reply=False, max_retries=0, priority=Priority.HIGHEST), timeout=300)
        res = "ok"
    except Exception as err:  # noqa: BLE001
        res = type(err).__name__
        if verbose:
            print(f"    probe send raised {res}: {str(err)[:120]}")
    rec.add("probe", "send", res)
    await vloop.drain()
    if verbose:
        print(f"    observed: engine {proj(gwy, tr)} probes {[ (e['name'], e['res']) for e in rec.ev[-3:]]}")
    return ok


def cache_of(rows: list[tuple], n: int = 24) -> dict[str, str]:
    """The snapshot an earlier session would have left of the first packets of the history ({dtm: packet line}, the
    form get_state() returns), dated just before now; what the transport would have rejected is not in it."""
    from ramses_tx.packet import Packet

    out: dict[str, str] = {}
    now = fakes.VDT.now()
    for i, row in enumerate(rows[:n]):
        try:
            pkt = Packet(now - _dt.timedelta(seconds=n - i), f"045 {row[1]}")
        except Exception:  # noqa: BLE001
            continue
        out[repr(pkt)[:26]] = repr(pkt)[27:]
    return out


async def unstarted_gateway(on_write: Any, config: dict) -> tuple[Any, Any]:
    """fakes.make_port_gateway in two halves: (gwy, start) - the real Gateway("/dev/fake"), not yet started, and the
    coroutine function that starts it on a FakeTransport and returns that transport."""
    import ramses_tx.gateway as txgw
    from ramses_rf import Gateway

    loop = asyncio.get_running_loop()
    fakes.VDT._loop = loop
    cfg = {"disable_discovery": True, "disable_qos": False, "enforce_known_list": False}
    cfg.update(config)
    gwy = Gateway("/dev/fake", config=cfg, known_list={fakes.GWY_ID: {"class": "HGI"}})

    async def start() -> Any:
        holder: dict = {}

        async def tf(protocol: Any, **kw: Any) -> Any:
            holder["t"] = t = fakes.FakeTransport(protocol, loop, gwy_id=fakes.GWY_ID, on_write=on_write)
            loop.call_soon(lambda: protocol.connection_made(t, ramses=True))
            return t

        old = txgw.transport_factory
        txgw.transport_factory = tf
        try:
            await gwy.start()
        finally:
            txgw.transport_factory = old
        for _ in range(5):
            await asyncio.sleep(0)
        return holder["t"]

    return gwy, start


async def run_history(rows: list[tuple[str, str]], eav: int, k: int, verbose: bool = False, nodisc: int = 1,
                      pre: int = 0) -> dict:
    """Feed the history to a real Gateway (sending enabled, echoes supplied); observe every k packets.
    pre: the history begins at point zero - views, snapshots and restores (of an earlier session's snapshot) on the
    gateway that has not been started yet (Engine.tla: tr = FALSE), then start() (Bind), then the packets."""
    loop = asyncio.get_running_loop()

    def on_write(t: Any, frame: str) -> None:
        t.rx(fakes.echo_of(frame, t.gwy_id), 0.01)

    config = {"enable_eavesdrop": bool(eav), "disable_discovery": True}
    rec = Recorder()
    state: dict = {}
    exc0 = len(loop.exc)
    n_fed = n_rej = n_loop_exc = 0
    base_ts = None
    stopped = False
    if pre:
        gwy, start = await unstarted_gateway(on_write, config)
        rec.bound = 0
        if verbose:
            print("  at point zero (not yet started)")
        stopped = not await observe(gwy, None, rec, state, verbose, nodisc, cache=cache_of(rows))
        tr = None
        if not stopped:
            before = proj(gwy, None)
            tr = await start()
            await vloop.drain()
            rec.bound = 1
            after = proj(gwy, tr)
            rec.add("start", "start()", "ok", before, after, detail="after the operations at point zero")
            if verbose:
                print(f"  started: engine {after}")
    else:
        gwy, tr = await fakes.make_port_gateway(on_write=on_write, config=config)
    try:
        for i, row in enumerate(rows if not stopped else ()):
            ts, frame = row[0], row[1]
            try:
                t = _dt.datetime.fromisoformat(ts)
            except ValueError:
                t = None
            if t is not None:
                if base_ts is None:
                    base_ts = t
                want = (t - base_ts).total_seconds() + 10.0
                loop._vt = max(loop._vt + 0.001, want) if want > loop._vt else loop._vt + 0.001
            else:
                loop._vt += 0.001
            try:
                tr.rx(frame)
                n_fed += 1
            except Exception:  # noqa: BLE001  -- the transport layer rejects the frame (PacketInvalid)
                n_rej += 1
                continue
            await vloop.drain(6)
            # remember a packet of a device the gateway tracks (for the C13c probe)
            src = frame[7:16]
            code = frame[37:41]
            d = gwy.device_by_id.get(src)
            if d is not None and frame[:2] in (" I", "RP"):
                m = d._msgs_.get(code)
                if m is not None and m.dtm == fakes.VDT.now():
                    state["known"] = (src, code, frame)
            if len(row) > 2 and row[2] == "obs":    # a role-swapped packet: look at once, views only
                if verbose:
                    print(f"  after role-swapped packet {i + 1}: {frame}")
                await observe(gwy, tr, rec, state, verbose, nodisc, light=True)
            if (i + 1) % k == 0:
                if verbose:
                    print(f"  after packet {i + 1}: {frame}")
                if not await observe(gwy, tr, rec, state, verbose, nodisc):
                    stopped = True
                    break
        if not stopped:
            if verbose:
                print(f"  at the end ({len(rows)} packets)")
            ok = await observe(gwy, tr, rec, state, verbose, nodisc)
            # ... and again after the traffic has stopped for a while (45 min, 3 h more, a day more): what the gateway
            # holds has then partly / wholly expired - every view, the snapshot and the probes must still answer
            for quiet in (2700.0, 10800.0, 86400.0):
                if not ok:
                    break
                loop._vt += quiet
                await vloop.drain()
                if verbose:
                    print(f"  after {quiet / 3600:.2f} h of silence")
                ok = await observe(gwy, tr, rec, state, verbose, nodisc)
        n_loop_exc = len(loop.exc) - exc0
    finally:
        try:
            if gwy._engine_state is not None:  # let stop() work on a wedged engine
                pass
            await asyncio.wait_for(gwy.stop(), timeout=5)
        except Exception:  # noqa: BLE001
            pass
    return {"nosend": 0, "nodisc": nodisc, "_pre": pre, "ev": rec.ev, "_detail": rec.detail, "_fed": n_fed, "_rejected": n_rej,
            "_loop_exc": n_loop_exc, "_stopped": stopped}

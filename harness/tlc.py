"""Run TLC (model checking, simulation, batch trace/table validation) and parse its output.

stdlib only.  Every TLC run uses a private metadir under a mkdtemp that is removed on exit.
"""
from __future__ import annotations

import json
import os
import re
import shutil
import subprocess
import tempfile
import time
from dataclasses import dataclass, field
from pathlib import Path
from typing import Any

VERIF = Path(__file__).resolve().parent.parent
SPEC = VERIF / "spec"
JAR = "/opt/veriftools/tla/tla2tools.jar:/opt/veriftools/tla/CommunityModules-deps.jar"


# The per-call time-outs are safety nets against a hung JVM, sized on an idle 16-core machine; on a loaded one (other
# checks running next to this one) TLC is several times slower, and a time-out must not turn into a verdict-less run.
TIMEOUT_SCALE = float(os.environ.get("VERIF_TLC_TIMEOUT_SCALE", "4"))


class MachineryFailure(Exception):
    """TLC (or the harness around it) failed in a way that is not a verdict."""


# --------------------------------------------------------------------------------------
# TLA+ value parser (for PrintT output, error traces, -dump states)


class _P:
    def __init__(self, s: str) -> None:
        self.s, self.i = s, 0

    def ws(self) -> None:
        while self.i < len(self.s) and self.s[self.i] in " \t\r\n":
            self.i += 1

    def peek(self, t: str) -> bool:
        self.ws()
        return self.s.startswith(t, self.i)

    def eat(self, t: str) -> None:
        self.ws()
        if not self.s.startswith(t, self.i):
            raise ValueError(f"expected {t!r} at {self.i}: {self.s[self.i:self.i+40]!r}")
        self.i += len(t)

    def value(self) -> Any:
        self.ws()
        s, i = self.s, self.i
        if s.startswith("<<", i):
            self.i += 2
            return tuple(self.items(">>"))
        if s.startswith("{", i):
            self.i += 1
            return frozenset(self.items("}"))
        if s.startswith("[", i):
            self.i += 1
            d = {}
            if self.peek("]"):
                self.eat("]")
                return d
            while True:
                self.ws()
                m = re.compile(r"[A-Za-z_][A-Za-z0-9_]*").match(self.s, self.i)
                if not m:
                    raise ValueError(f"bad record at {self.i}")
                self.i = m.end()
                self.eat("|->")
                d[m.group()] = self.value()
                if self.peek(","):
                    self.eat(",")
                    continue
                self.eat("]")
                return d
        if s.startswith("(", i):  # function  (a :> b @@ c :> d)
            self.i += 1
            d = {}
            while True:
                k = self.value()
                self.eat(":>")
                d[k] = self.value()
                if self.peek("@@"):
                    self.eat("@@")
                    continue
                self.eat(")")
                return d
        if s.startswith('"', i):
            j = i + 1
            out = []
            while s[j] != '"':
                if s[j] == "\\":
                    j += 1
                    out.append({"n": "\n", "t": "\t"}.get(s[j], s[j]))
                else:
                    out.append(s[j])
                j += 1
            self.i = j + 1
            return "".join(out)
        m = re.compile(r"-?\d+").match(s, i)
        if m:
            self.i = m.end()
            return int(m.group())
        m = re.compile(r"[A-Za-z_][A-Za-z0-9_]*").match(s, i)
        if m:
            self.i = m.end()
            w = m.group()
            return {"TRUE": True, "FALSE": False}.get(w, w)
        raise ValueError(f"cannot parse at {i}: {s[i:i+40]!r}")

    def items(self, close: str) -> list:
        out = []
        if self.peek(close):
            self.eat(close)
            return out
        while True:
            out.append(self.value())
            if self.peek(","):
                self.eat(",")
                continue
            self.eat(close)
            return out


def parse_value(text: str) -> Any:
    p = _P(text)
    v = p.value()
    return v


def parse_state(text: str) -> dict[str, Any]:
    """Parse '/\\ a = 1\n/\\ b = <<..>>' (an error-trace or dump state) into a dict."""
    out: dict[str, Any] = {}
    parts = re.split(r"(?m)^\s*/\\ ", text)
    for part in parts:
        part = part.strip()
        if not part:
            continue
        m = re.match(r"([A-Za-z_][A-Za-z0-9_]*)\s*=\s*", part)
        if not m:
            continue
        out[m.group(1)] = parse_value(part[m.end():])
    return out


# --------------------------------------------------------------------------------------


@dataclass
class TlcResult:
    rc: int
    out: str
    wall_s: float
    states: int = 0  # generated
    distinct: int = 0
    depth: int = 0
    completed: bool = False  # "Model checking completed"
    violated: list[str] = field(default_factory=list)  # invariant / property names
    error_trace: list[tuple[str, dict]] = field(default_factory=list)  # (action, state)
    prints: list[Any] = field(default_factory=list)
    errors: list[str] = field(default_factory=list)  # TLC-level errors (not invariants)

    @property
    def ok(self) -> bool:
        return self.completed and not self.violated and not self.errors


_RE_STATES = re.compile(r"(\d+) states generated, (\d+) distinct states found")
_RE_DEPTH = re.compile(r"The depth of the complete state graph search is (\d+)")
_RE_INV = re.compile(r"Error: Invariant (\S+) is violated")
_RE_PROP = re.compile(r"Error: (?:Action|Temporal) property (\S+) is violated|Error: Temporal properties were violated")
_RE_STATE_HDR = re.compile(r"^State (\d+): <([^>]*)>\s*$")


def workers_default() -> str:
    return os.environ.get("VERIF_TLC_WORKERS", "auto")


def run_tlc(
    module: str,
    cfg: str | None = None,
    *,
    spec_dir: Path | str = SPEC,
    workers: str | int | None = None,
    env: dict[str, str] | None = None,
    timeout: float = 900,
    simulate: str | None = None,  # e.g. "num=100" or "file=/x/tr,num=100"
    depth: int | None = None,
    seed: int | None = None,
    deadlock: bool = True,  # True => do NOT check deadlock (-deadlock flag)
    cont: bool = False,  # -continue
    dump: str | None = None,  # path for -dump (plain)
    coverage: bool = False,
    dfs_queue: bool = False,
    extra: list[str] | None = None,
    java_opts: list[str] | None = None,
    parse_prints: bool = True,
) -> TlcResult:
    spec_dir = Path(spec_dir)
    tmp = tempfile.mkdtemp(prefix="vtlc_")
    try:
        # -Xss: trace specs fold recursive operators over traces of 10^4 events (hours of virtual air time)
        cmd = ["java", "-XX:+UseParallelGC", "-Xmx" + os.environ.get("VERIF_TLC_XMX", "5g"),
               "-Xss" + os.environ.get("VERIF_TLC_XSS", "256m")]
        if dfs_queue:
            cmd.append("-Dtlc2.tool.queue.IStateQueue=StateDeque")
        cmd += java_opts or []
        cmd += ["-cp", JAR, "tlc2.TLC", "-metadir", tmp, "-noGenerateSpecTE"]
        cmd += ["-workers", str(workers if workers is not None else workers_default())]
        if deadlock:
            cmd.append("-deadlock")
        if cont:
            cmd.append("-continue")
        if simulate is not None:
            cmd += ["-simulate", simulate] if simulate else ["-simulate"]
        if depth is not None:
            cmd += ["-depth", str(depth)]
        if seed is not None:
            cmd += ["-seed", str(seed)]
        if dump:
            cmd += ["-dump", dump]
        if coverage:
            cmd += ["-coverage", "1"]
        cmd += extra or []
        cmd += ["-config", cfg or f"{module}.cfg", f"{module}.tla"]
        e = dict(os.environ)
        e.pop("JAVA_TOOL_OPTIONS", None)
        e.update(env or {})
        t0 = time.time()
        try:
            cp = subprocess.run(
                cmd, cwd=spec_dir, env=e, capture_output=True, text=True, timeout=timeout * TIMEOUT_SCALE
            )
        except subprocess.TimeoutExpired as err:
            raise MachineryFailure(f"TLC timed out after {timeout * TIMEOUT_SCALE}s: {module}/{cfg}") from err
        res = TlcResult(cp.returncode, cp.stdout + cp.stderr, time.time() - t0)
        _parse(res, parse_prints)
        return res
    finally:
        shutil.rmtree(tmp, ignore_errors=True)


def _parse(res: TlcResult, parse_prints: bool) -> None:
    out = res.out
    for m in _RE_STATES.finditer(out):
        res.states, res.distinct = int(m.group(1)), int(m.group(2))
    m = _RE_DEPTH.search(out)
    if m:
        res.depth = int(m.group(1))
    res.completed = "Model checking completed" in out or "Finished in" in out and "Error:" not in out
    for m in _RE_INV.finditer(out):
        if m.group(1) not in res.violated:
            res.violated.append(m.group(1))
    for m in _RE_PROP.finditer(out):
        name = m.group(1) or "TemporalProperty"
        if name not in res.violated:
            res.violated.append(name)
    if "Error: Deadlock reached" in out:
        res.violated.append("Deadlock")
    # other errors
    for m in re.finditer(r"(?m)^Error: (.*)$", out):
        msg = m.group(1)
        if msg.startswith(("Invariant ", "Action property", "Temporal propert", "Deadlock reached", "The behavior up to")):
            continue
        if msg.startswith("The following behavior constitutes"):
            continue
        res.errors.append(msg)
    if "Exception in thread" in out or "java.lang." in out and "Error" in out and not res.violated:
        res.errors.append("java exception")
    # error trace (first one)
    lines = out.splitlines()
    i = 0
    cur = None
    buf: list[str] = []
    trace: list[tuple[str, dict]] = []

    def flush() -> None:
        nonlocal cur, buf
        if cur is not None:
            try:
                trace.append((cur, parse_state("\n".join(buf))))
            except Exception:  # noqa: BLE001
                trace.append((cur, {"_raw": "\n".join(buf)}))
        cur, buf = None, []

    for ln in lines:
        m = _RE_STATE_HDR.match(ln)
        if m:
            flush()
            cur = m.group(2)
            continue
        if cur is not None:
            if ln.startswith("/\\") or ln.startswith("  ") or ln.startswith("\t") or (buf and ln and not ln[0].isalpha() and not ln.startswith("State")):
                buf.append(ln)
            elif ln.strip() == "":
                flush()
            else:
                flush()
    flush()
    res.error_trace = trace
    if parse_prints:
        acc = ""
        for ln in lines:
            s = ln.strip()
            if not acc and not s.startswith("<<"):
                continue
            acc = (acc + " " + s) if acc else s
            if acc.count("<<") > acc.count(">>") and len(acc) < 200000:
                continue  # a long PrintT value wrapped over several lines
            try:
                res.prints.append(parse_value(acc))
            except Exception:  # noqa: BLE001
                pass
            acc = ""


def sany(module: str, spec_dir: Path | str = SPEC) -> tuple[bool, str]:
    cp = subprocess.run(
        ["java", "-cp", JAR, "tla2sany.SANY", f"{module}.tla"],
        cwd=spec_dir, capture_output=True, text=True, timeout=120,
    )
    out = cp.stdout + cp.stderr
    ok = cp.returncode == 0 and "Semantic errors" not in out and "Parse Error" not in out and "Fatal" not in out and "Could not" not in out
    return ok, out


# --------------------------------------------------------------------------------------
# Batch validation: many traces / table chunks judged by one TLC run


def validate_batch(
    module: str,
    items: list[Any],
    *,
    cfg: str | None = None,
    spec_dir: Path | str = SPEC,
    workers: str | int | None = None,
    timeout: float = 900,
    chunk: int = 4000,
    extra_env: dict[str, str] | None = None,
    dfs_queue: bool = False,
    require_verdict_for_all: bool = True,
) -> dict[str, Any]:
    """Validate `items` (each a trace or a table row/chunk, JSON-serialisable) with a trace spec.

    Convention for the trace spec (see spec/README.md):
      * reads   Traces == JsonDeserialize(IOEnv.TRACE_FILE)   -- a JSON array
      * one initial state per item (tid \\in 1..Len(Traces))
      * prints exactly one line  <<"VERDICT", tid, fail>>  per item when it has been folded,
        where fail = <<>> (accepted) or <<line, "clause">> (rejected; may carry extra fields)
    Returns {"n": total, "rejects": [(index, fail)], "states": s, "transitions": t, "wall_s": w}.
    A TLC error, or a missing verdict, raises MachineryFailure (never a verdict).
    """
    rejects: list[tuple[int, Any]] = []
    states = trans = 0
    wall = 0.0
    tmp = tempfile.mkdtemp(prefix="vtrc_")
    try:
        for base in range(0, len(items), chunk):
            part = items[base: base + chunk]
            f = os.path.join(tmp, f"batch_{base}.json")
            with open(f, "w") as fh:
                json.dump(part, fh, separators=(",", ":"))
            env = {"TRACE_FILE": f}
            env.update(extra_env or {})
            r = run_tlc(module, cfg, spec_dir=spec_dir, workers=workers, env=env,
                        timeout=timeout, dfs_queue=dfs_queue)
            wall += r.wall_s
            if not r.ok:
                raise MachineryFailure(
                    f"TLC failed on batch {module} base={base}: violated={r.violated} "
                    f"errors={r.errors[:3]}\n{r.out[-3000:]}"
                )
            seen = set()
            for p in r.prints:
                if isinstance(p, tuple) and len(p) >= 3 and p[0] == "VERDICT":
                    tid = p[1]
                    seen.add(tid)
                    if p[2] != ():
                        rejects.append((base + tid - 1, p[2]))
            if require_verdict_for_all and len(seen) != len(part):
                raise MachineryFailure(
                    f"{module}: {len(part) - len(seen)} of {len(part)} items got no verdict "
                    f"(base={base})\n{r.out[-2000:]}"
                )
            states += r.distinct
            trans += r.states
            os.unlink(f)
        return {"n": len(items), "rejects": sorted(rejects, key=lambda x: x[0]), "states": states,
                "transitions": trans, "wall_s": wall}
    finally:
        shutil.rmtree(tmp, ignore_errors=True)


# --------------------------------------------------------------------------------------
# -simulate file=...  parser: one TLA+ file per behaviour


def read_sim_traces(prefix: str) -> list[list[tuple[str, dict]]]:
    """Parse the files written by `-simulate file=<prefix>,num=N` into [(action, state), ...]."""
    out = []
    d = os.path.dirname(prefix)
    base = os.path.basename(prefix)
    for fn in sorted(os.listdir(d)):
        if not fn.startswith(base):
            continue
        txt = open(os.path.join(d, fn)).read()
        beh: list[tuple[str, dict]] = []
        # format:  \* <Action line ...>\nSTATE_n == \n/\ a = ..\n\n
        for m in re.finditer(r"(?ms)^\\\* (.*?)\n^STATE_\d+ ==\s*\n(.*?)(?=^\s*$|\Z)", txt):
            hdr = m.group(1)
            am = re.match(r"<?(\w+)", hdr.lstrip("<"))
            act = am.group(1) if am else hdr
            try:
                beh.append((act, parse_state(m.group(2))))
            except Exception:  # noqa: BLE001
                beh.append((act, {"_raw": m.group(2)}))
        out.append(beh)
    return out


def read_dump(path: str) -> list[dict]:
    """Parse a `-dump` file (plain format: 'State n:\n/\\ ...')."""
    txt = open(path if path.endswith(".dump") else path + ".dump").read()
    out = []
    for m in re.finditer(r"(?ms)^State \d+:\s*\n(.*?)(?=^State \d+:|\Z)", txt):
        out.append(parse_state(m.group(1)))
    return out

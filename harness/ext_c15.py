"""C15 helpers: drive a real Gateway with topology claims (packets) and project its object graph.

Nothing here judges anything; `observe()` records, TLC (spec/TopologyTrace.tla) evaluates.
"""
from __future__ import annotations

import asyncio
import copy
import json
import logging
import re
from typing import Any

from harness import fakes, vloop
from harness.ext_c12 import CLS_BY_NAME, hex_id

HGI = fakes.GWY_ID
SLUG_CODE = {"RAD": "08", "UFH": "09", "VAL": "0A", "MIX": "0B", "ELE": "11"}


# --------------------------------------------------------------------------------------
# claims -> frames


def mask(idxs: list[str]) -> str:
    m = 0
    for i in idxs:
        m |= 1 << int(i, 16)
    return f"{m & 0xFF:02X}{(m >> 8) & 0xFF:02X}"


def devs_payload(idx: str, role: str, devs: list[str]) -> str:
    if not devs:
        return f"{idx}{role}7FFFFFFF"
    return "".join(f"{idx}{role}00{hex_id(d)}" for d in devs)


def frame_of(claim: dict) -> str:
    """A claim (what traffic can say about the topology) as a frame the gateway receives."""
    k, c = claim["k"], claim.get("ctl", "")
    if k == "mask":  # 0005: zones of a class (role = class code) / zones with a sensor (role 04)
        p = f"00{claim['role']}{mask(claim['zones'])}"
        return f"RP --- {c} {HGI} --:------ 0005 {len(p) // 2:03d} {p}"
    if k == "devs":  # 000C: devices of a zone / DHW / appliance role
        p = devs_payload(claim["idx"], claim["role"], claim["devs"])
        return f"RP --- {c} {HGI} --:------ 000C {len(p) // 2:03d} {p}"
    if k == "eav_thm":  # a thermostat writes a setpoint to the controller for a zone
        return f" W --- {claim['dev']} {c} --:------ 2309 003 {claim['idx']}07D0"
    if k == "eav_trv":  # a TRV asks the controller for the name of its zone
        return f"RQ --- {claim['dev']} {c} --:------ 0004 002 {claim['idx']}00"
    if k == "raw":
        return claim["frame"]
    raise ValueError(claim)  # ("fake" is not traffic: run_history calls gwy.fake_device)


# --------------------------------------------------------------------------------------
# projection


def _pid(p: Any) -> str:
    if p is None:
        return ""
    from ramses_rf.device import UfhController
    from ramses_rf.system.zones import DhwZone, Zone
    if isinstance(p, DhwZone):
        return f"{p.ctl.id}_HW"
    if isinstance(p, Zone):
        return f"{p.ctl.id}_{p.idx}"
    if isinstance(p, UfhController):
        return p.id
    return f"{p.ctl.id}_FF"  # a System


def graph(gwy: Any) -> dict:
    """The object graph, read in both directions (child -> parent pointers, parent -> member lists)."""
    devices = {}
    for d in gwy.devices:
        if d.id == HGI:
            continue
        ctl = getattr(d, "ctl", None)
        devices[d.id] = {"ctl": ctl.id if ctl is not None else "", "parent": _pid(getattr(d, "_parent", None)),
                         "cid": getattr(d, "_child_id", None) or ""}
    systems = {}
    for tcs in gwy.systems:
        zones = {}
        for z in tcs.zones:
            zones[z.idx] = {
                "cls": z._SLUG or "",
                "sen": z._sensor.id if z._sensor else "",
                "acts": sorted(a.id for a in z.actuators),
                "childs": sorted({c.id for c in z.childs}),
                "in_map": tcs.zone_by_idx.get(z.idx) is z,
            }
        dhw = tcs.dhw
        systems[tcs.ctl.id] = {
            "zones": zones,
            "n_zone_objs": len(tcs.zones),
            "dhw": {"sen": dhw._dhw_sensor.id if dhw and dhw._dhw_sensor else "",
                    "hwv": dhw._dhw_valve.id if dhw and dhw._dhw_valve else "",
                    "htv": dhw._htg_valve.id if dhw and dhw._htg_valve else "",
                    "childs": sorted({c.id for c in dhw.childs}) if dhw else [],
                    "exists": bool(dhw)},
            "app": tcs._app_cntrl.id if tcs._app_cntrl else "",
            "others": sorted({c.id for c in tcs.childs if getattr(c, "_child_id", None) == "FF"}),
            "childs": sorted({c.id for c in tcs.childs}),
            "max_zones": tcs._max_zones,
        }
    return {"devices": devices, "systems": systems}


def schema_view(schema: dict) -> dict:
    """What C15b compares across a reload: controllers, zones (class, sensor, actuators), DHW, appliance."""
    out = {}
    for k, v in schema.items():
        if not isinstance(v, dict) or not re.match(r"^(01|23):\d{6}$", k) or "remotes" in v:
            continue
        zones = {i: {"cls": "" if z.get("class") is None else CLS_BY_NAME.get(z["class"], str(z["class"])),
                     "sen": z.get("sensor") or "", "acts": sorted(z.get("actuators") or [])}
                 for i, z in (v.get("zones") or {}).items()}
        dhw = v.get("stored_hotwater") or {}
        out[k] = {"zones": zones,
                  "dhw": {"sen": dhw.get("sensor") or "", "hwv": dhw.get("hotwater_valve") or "",
                          "htv": dhw.get("heating_valve") or ""},
                  "app": (v.get("system") or {}).get("appliance_control") or ""}
    return out


NOISE = ("Best practice is to enforce", "this is strongly discouraged")


class LogTap(logging.Handler):
    def __init__(self) -> None:
        super().__init__(level=logging.WARNING)
        self.recs: list[str] = []

    def emit(self, record: logging.LogRecord) -> None:
        try:
            self.recs.append(f"{record.levelname}:{record.getMessage()[:200]}")
        except Exception:  # noqa: BLE001
            self.recs.append(f"{record.levelname}:?")


async def new_gateway(*, eavesdrop: bool = False, max_zones: int | None = None,
                      schema: dict | None = None, known_list: dict | None = None) -> tuple[Any, Any]:
    config: dict[str, Any] = {"disable_discovery": True, "enable_eavesdrop": eavesdrop}
    if max_zones is not None:
        config["max_zones"] = max_zones
    # (the gateway writes into the known_list it is given - every gateway gets its own copy)
    return await fakes.make_port_gateway(config=config, schema=copy.deepcopy(schema or {}),
                                         known_list=copy.deepcopy(known_list or {}))


# validating / re-loading the same configuration again gives the same answer (virtual loop, no discovery): both are
# memoised per process, so a history whose schema does not change for a stretch costs one validation and one reload
_VALID: dict[str, str] = {}
_RELOAD: dict[str, dict] = {}


def validate(schema: dict) -> str:
    key = json.dumps(schema, sort_keys=True, default=str)
    if key not in _VALID:
        if len(_VALID) > 20000:
            _VALID.clear()
        _VALID[key] = _validate(schema)
    return _VALID[key]


def _validate(schema: dict) -> str:
    """'' if the library's own validator accepts the schema - both shrunk (as the library saves it) and as it is
    reported - else the error text."""
    from ramses_rf.helpers import shrink
    from ramses_rf.schemas import SCH_GLOBAL_SCHEMAS
    try:
        SCH_GLOBAL_SCHEMAS(shrink(schema))
    except Exception as err:  # noqa: BLE001
        return f"{type(err).__name__}: {str(err)[:200]}"
    try:    # ... and as it is reported (with its empty containers and None placeholders)
        SCH_GLOBAL_SCHEMAS(schema)
    except Exception as err:  # noqa: BLE001
        return f"as-reported:{type(err).__name__}: {str(err)[:200]}"
    return ""


async def reload_view(schema: dict, *, eavesdrop: bool, max_zones: int | None, known_list: dict | None = None) -> dict:
    """schema_view of a fresh gateway configured with `schema` (or {'error': ...})."""
    key = json.dumps([schema, eavesdrop, max_zones, known_list], sort_keys=True, default=str)
    if key not in _RELOAD:
        if len(_RELOAD) > 20000:
            _RELOAD.clear()
        _RELOAD[key] = await _reload_view(schema, eavesdrop=eavesdrop, max_zones=max_zones, known_list=known_list)
    return copy.deepcopy(_RELOAD[key])


async def _reload_view(schema: dict, *, eavesdrop: bool, max_zones: int | None, known_list: dict | None) -> dict:
    from ramses_rf.helpers import shrink
    try:
        g2, _ = await new_gateway(eavesdrop=eavesdrop, max_zones=max_zones, schema=shrink(schema), known_list=known_list)
    except Exception as err:  # noqa: BLE001
        return {"error": f"{type(err).__name__}: {str(err)[:200]}"}
    try:
        await vloop.drain()
        return schema_view(g2.schema)
    finally:
        await g2.stop()


def faked_ids(gwy: Any) -> list[str]:
    return sorted(d.id for d in gwy.devices if d.id != HGI and getattr(d, "is_faked", False))


def config_known_list(gwy: Any, known_list: dict | None) -> dict:
    """The known_list to feed back with the reported schema: the one the gateway was given, and `faked: true` for the
    devices the application has asked it to fake since (class as the gateway itself reports it)."""
    kl = copy.deepcopy(known_list or {})
    for d in faked_ids(gwy):
        if d not in kl:
            kl[d] = {"class": (gwy.known_list.get(d) or {}).get("class")}
            if kl[d]["class"] is None:
                del kl[d]["class"]
        kl[d]["faked"] = True
    return kl


def run_history(claims: list[dict], *, eavesdrop: bool = False, max_zones: int | None = None,
                schema: dict | None = None, reload_each: bool = True, observe_every: int = 1,
                known_list: dict | None = None) -> dict:
    """Feed the claims one by one to a real Gateway; after each step record what the contract needs.
    A claim {"k": "fake", "dev": id} is not traffic: the application calls gwy.fake_device(id).
    known_list: the configured known_list (may say `faked: true`)."""
    rec: dict[str, Any] = {"eavesdrop": eavesdrop, "max_zones": max_zones, "claims": claims, "steps": [],
                           "schema0": schema, "known_list": known_list}
    api_exc: list[str] = []
    logging.disable(logging.NOTSET)
    tap = LogTap()
    root = logging.getLogger()
    old_level = root.level
    root.addHandler(tap)
    root.setLevel(logging.WARNING)

    async def observe(gwy: Any, loop: Any, n_exc0: int, what: Any) -> dict:
        await vloop.drain()
        excs = [f"{type(c.get('exception')).__name__}: {str(c.get('exception'))[:160]}" for c in loop.exc[n_exc0:]]
        logs = [l for l in tap.recs if not any(n in l for n in NOISE)]
        sch = gwy.schema
        err = validate(sch)
        view = schema_view(sch)
        reloaded = {}
        if reload_each and not err:
            kl = config_known_list(gwy, known_list)
            reloaded = await reload_view(sch, eavesdrop=eavesdrop, max_zones=max_zones, known_list=kl)
            if kl and "error" not in reloaded:
                # ... and the schema alone (saved without the known_list's class hints) must do as well
                alone = await reload_view(sch, eavesdrop=eavesdrop, max_zones=max_zones, known_list=None)
                if "error" in alone:
                    alone["error"] += " [schema fed back without the known_list]"
                if alone != reloaded:
                    reloaded = alone
        tap.recs = []
        step = {"claim": what, "graph": graph(gwy), "view": view, "valid_err": err, "reload": reloaded,
                "loop_exc": excs, "logs": logs[:6], "faked": faked_ids(gwy), "api_exc": api_exc[:4]}
        api_exc.clear()
        return step

    async def main() -> None:
        loop = asyncio.get_running_loop()
        try:
            gwy, t = await new_gateway(eavesdrop=eavesdrop, max_zones=max_zones, schema=schema, known_list=known_list)
        except Exception as err:  # noqa: BLE001
            rec["load_error"] = f"{type(err).__name__}: {str(err)[:200]}"
            return
        try:
            rec["steps"].append(await observe(gwy, loop, 0, {"k": "init"}))
            n0 = len(loop.exc)
            tap.recs = []
            for i, cl in enumerate(claims, 1):
                if cl["k"] == "fake":  # the application's call; what it raises goes to its caller (recorded, not judged)
                    try:
                        gwy.fake_device(cl["dev"])
                    except Exception as err:  # noqa: BLE001
                        api_exc.append(f"{type(err).__name__}: {str(err)[:120]}")
                else:
                    t.rx(frame_of(cl), 0.01)
                await asyncio.sleep(0.05)
                if i % observe_every == 0 or i == len(claims):  # (`reported` covers the whole stretch)
                    rec["steps"].append(await observe(gwy, loop, n0, cl))
                    n0 = len(loop.exc)
                    tap.recs = []
        finally:
            await gwy.stop()

    try:
        vloop.run(main)
    finally:
        root.removeHandler(tap)
        root.setLevel(old_level)
        logging.disable(logging.CRITICAL)
    return rec


# --------------------------------------------------------------------------------------
# JSON for spec/TopologyTrace.tla


def view_list(view: dict) -> list:
    return [{"ctl": c, "zones": [{"z": z, "cls": r["cls"], "sen": r["sen"], "acts": list(r["acts"])}
                                 for z, r in sorted(v["zones"].items())],
             "dhw": dict(v["dhw"]), "app": v["app"]} for c, v in sorted(view.items())]


def step_item(s: dict) -> dict:
    g = s["graph"]
    rel = s["reload"] if isinstance(s["reload"], dict) else {}
    rerr = rel.get("error", "") if "error" in rel else ""
    return {
        "reported": bool(s["loop_exc"] or s["logs"]),
        "valid": s["valid_err"],
        "view": view_list(s["view"]),
        "reloadErr": rerr,
        "reload": view_list(s["view"] if (s["valid_err"] or rerr) else rel),
        "devices": [{"id": d, "ctl": v["ctl"], "parent": v["parent"]} for d, v in sorted(g["devices"].items())],
        "systems": [{"ctl": c, "maxZones": v["max_zones"], "zoneObjs": v["n_zone_objs"],
                     "zones": [{"z": z, "num": int(z, 16), "sen": r["sen"], "acts": list(r["acts"]),
                                "childs": list(r["childs"]), "inMap": bool(r["in_map"])}
                               for z, r in sorted(v["zones"].items())],
                     "dhw": {k: v["dhw"][k] for k in ("sen", "hwv", "htv")}, "app": v["app"],
                     "others": list(v["others"])}
                    for c, v in sorted(g["systems"].items())],
    }


def to_item(rec: dict) -> dict:
    return {"maxZones": rec["max_zones"] if rec["max_zones"] is not None else 12,
            "steps": [step_item(s) for s in rec["steps"]]}


# --------------------------------------------------------------------------------------
# model state (spec/Topology.tla) vs the real graph - drift only, never a verdict

CODE_SLUG = {v: k for k, v in SLUG_CODE.items()}


def model_vs_real(m: dict, s: dict, devs: list[str]) -> list[str]:
    """Differences between a Topology state `m` and the observed step `s` (empty = conforms)."""
    out = []
    g = s["graph"]
    for c in m["zones"]:
        sy = g["systems"].get(c, {"zones": {}, "dhw": {"sen": "", "hwv": "", "htv": "", "exists": False}, "app": ""})
        if set(m["zones"][c]) != set(sy["zones"]):
            out.append(f"zones[{c}]: model {sorted(m['zones'][c])} real {sorted(sy['zones'])}")
            continue
        for z in m["zones"][c]:
            rz = sy["zones"][z]
            if CODE_SLUG.get(m["cls"][c][z], "") != rz["cls"]:
                out.append(f"cls[{c}][{z}]: model {m['cls'][c][z]!r} real {rz['cls']!r}")
            if m["sen"][c][z] != rz["sen"]:
                out.append(f"sen[{c}][{z}]: model {m['sen'][c][z]!r} real {rz['sen']!r}")
            if sorted(m["acts"][c][z]) != rz["acts"]:
                out.append(f"acts[{c}][{z}]: model {sorted(m['acts'][c][z])} real {rz['acts']}")
        for k in ("sen", "hwv", "htv"):
            if m["dhw"][c][k] != sy["dhw"][k]:
                out.append(f"dhw[{c}].{k}: model {m['dhw'][c][k]!r} real {sy['dhw'][k]!r}")
        if m["app"][c] != sy["app"]:
            out.append(f"app[{c}]: model {m['app'][c]!r} real {sy['app']!r}")
    for d in devs:
        rd = g["devices"].get(d, {"parent": "", "ctl": ""})
        if m["par"][d] != rd["parent"]:
            out.append(f"par[{d}]: model {m['par'][d]!r} real {rd['parent']!r}")
    if bool(m["rep"]) != bool(s["loop_exc"] or s["logs"]):
        out.append(f"rep: model {m['rep']} real {bool(s['loop_exc'] or s['logs'])} {s['loop_exc'][:1]}")
    return out


def claim_from_model(c: dict) -> dict:
    """A Topology claim record as a harness claim."""
    k, devs = c["k"], list(c["devs"])
    if k == "mask":
        return {"k": "mask", "ctl": c["ctl"], "role": c["role"], "zones": devs}
    if k == "devs":
        return {"k": "devs", "ctl": c["ctl"], "idx": c["idx"], "role": c["role"], "devs": devs}
    if k == "dhw":
        idx, role = ("00", "0D") if c["role"] == "0D" else ("00", "0E") if c["role"] == "0E0" else ("01", "0E")
        return {"k": "devs", "ctl": c["ctl"], "idx": idx, "role": role, "devs": devs}
    if k == "app":
        return {"k": "devs", "ctl": c["ctl"], "idx": "00", "role": "0F", "devs": devs}
    if k == "eav":
        return {"k": "eav_thm", "ctl": c["ctl"], "idx": c["idx"], "dev": devs[0]}
    if k == "fake":
        return {"k": "fake", "dev": devs[0]}
    raise ValueError(c)


def schema_from_model(m: dict) -> dict:
    """The configuration a Topology state describes (only what a schema can express)."""
    from harness.ext_c12 import NAME_BY_CLS
    out: dict[str, Any] = {}
    for c in sorted(m["zones"]):
        tcs: dict[str, Any] = {}
        zones = {}
        for z in sorted(m["zones"][c]):
            zr: dict[str, Any] = {}
            if m["cls"][c][z]:
                zr["class"] = NAME_BY_CLS[CODE_SLUG[m["cls"][c][z]]]
            if m["sen"][c][z]:
                zr["sensor"] = m["sen"][c][z]
            if m["acts"][c][z]:
                zr["actuators"] = sorted(m["acts"][c][z])
            if zr:
                zones[z] = zr
        if zones:
            tcs["zones"] = zones
        dhw = {k2: m["dhw"][c][k1] for k1, k2 in (("sen", "sensor"), ("hwv", "hotwater_valve"), ("htv", "heating_valve"))
               if m["dhw"][c][k1]}
        if dhw:
            tcs["stored_hotwater"] = dhw
        if m["app"][c]:
            tcs["system"] = {"appliance_control": m["app"][c]}
        if tcs:
            out[c] = tcs
    if out:
        out["main_tcs"] = sorted(out)[0]
    return out


_FRAME = re.compile(r"(?:^|\s)( I|RQ|RP| W) --- (\S{9}) (\S{9}) (\S{9}) ([0-9A-F]{4}) (\d{3}) ([0-9A-F]+)")


def frames_of_log(path: str) -> list[str]:
    """The frames of a shipped packet log (comment lines skipped)."""
    out = []
    with open(path, errors="replace") as fh:
        for ln in fh:
            if ln.lstrip().startswith("#"):
                continue
            m = _FRAME.search(ln.split("#")[0])
            if m and len(m.group(7)) == 2 * int(m.group(6)):
                out.append(f"{m.group(1)} --- {m.group(2)} {m.group(3)} {m.group(4)} {m.group(5)} {m.group(6)} {m.group(7)}")
    return out

"""Helpers for checks/c06.py (and the regex generator is reused by checks/c03.py).

concretise     abstract Correlate frame -> real frame text (payload templates per code/verb)
run_scenarios  one-command PortProtocol on a VLoop + FakeTransport: what does send_cmd() return?
regen          members of the (simple) payload regexes of ramses_tx.ramses.CODES_SCHEMA
log_pairs      RQ/RP and W/I exchanges found in the packet logs under /repo/tests
"""
from __future__ import annotations

import asyncio
import glob
import os
import random
import re
from typing import Any, Iterable

from harness import fakes, vloop
from harness.fakes import FakeTransport, VDT

HGI = "18:000730"
NON = "--:------"
NULL_LOG = "000000B0000000000000000000007FFFFF7000000000"


# ---------------------------------------------------------------------------------------------
# abstract frame -> frame text


def hex_id(dev_id: str) -> str:
    """24-bit hex of a device id (independent of the library: tt * 2^18 + nnnnnn)."""
    return f"{(int(dev_id[:2]) << 18) + int(dev_id[3:]):06X}"


def _odd(h: str) -> bool:
    return bool(h) and bin(int(h, 16)).count("1") % 2 == 1


def _tmpl(code: str, cls: str, idx: str, sub: str, src: str) -> str | None:
    """Payload for (code, class) with the context (idx, sub) planted; cls: q = RQ, w = W, r = RP/I."""
    i = idx or "00"
    z = "00" if i == "HW" else i
    t: dict[tuple[str, str], str] = {
        ("0004", "q"): f"{i}00", ("0004", "w"): f"{i}00" + "4B69746368656E" + "00" * 13, ("0004", "r"): f"{i}00" + "4B69746368656E" + "00" * 13,
        ("0005", "q"): f"{i}{sub}", ("0005", "r"): f"{i}{sub}0300",
        ("000C", "q"): f"{i}{sub}", ("000C", "r"): f"{i}{sub}0006368E",
        ("0006", "q"): "00", ("0006", "r"): "00050012",
        ("0008", "q"): i, ("0008", "r"): f"{i}C8",
        ("0009", "r"): f"{i}00FF",
        ("000A", "q"): i, ("000A", "w"): f"{i}1001F40DAC", ("000A", "r"): f"{i}1001F40DAC",
        ("0016", "q"): i, ("0016", "r"): f"{i}1F",
        ("0100", "q"): "00", ("0100", "r"): "00656EFFFF",
        ("0404", "q"): (f"00230008" if i == "HW" else f"{i}200008") + f"00{sub}00",
        ("0404", "w"): (f"00230008" if i == "HW" else f"{i}200008") + f"02{sub}03AABB",
        ("0404", "r"): (f"00230008" if i == "HW" else f"{i}200008") + f"02{sub}03AABB",
        ("0418", "q"): f"0000{sub}", ("0418", "r"): f"0040{sub}B0040004000000CB955F71FFFFFF70001283B3",
        ("1030", "q"): i, ("1030", "w"): f"{i}C80137C9010FCA0196CB010FCC0101", ("1030", "r"): f"{i}C80137C9010FCA0196CB010FCC0101",
        ("10A0", "q"): i, ("10A0", "w"): f"{i}13880003E8", ("10A0", "r"): f"{i}13880003E8",
        ("10E0", "q"): "00", ("10E0", "r"): "00",
        ("1100", "q"): i, ("1100", "w"): f"{i}0C1404007FFF01", ("1100", "r"): f"{i}0C1404007FFF01",
        ("1260", "q"): i, ("1260", "r"): f"{i}1388",
        ("12B0", "q"): i, ("12B0", "r"): f"{i}0000",
        ("1F09", "q"): "00", ("1F09", "r"): "000514",
        ("1F41", "q"): i, ("1F41", "w"): f"{i}0000FFFFFF", ("1F41", "r"): f"{i}0000FFFFFF",
        ("2309", "q"): i, ("2309", "w"): f"{i}07D0", ("2309", "r"): f"{i}07D0",
        ("2349", "q"): i, ("2349", "w"): f"{i}07D000FFFFFF", ("2349", "r"): f"{i}07D000FFFFFF",
        ("2E04", "q"): "FF", ("2E04", "w"): "00FFFFFFFFFFFF00", ("2E04", "r"): "00FFFFFFFFFFFF00",
        ("30C9", "q"): i, ("30C9", "r"): f"{i}0834",
        ("313F", "q"): "00", ("313F", "w"): "0060003A0C1B0107E5", ("313F", "r"): "00FC003A0C1B0107E5",
        ("3220", "q"): f"00{'80' if _odd(sub) else '00'}{sub}0000", ("3220", "r"): f"00{'40' if _odd(sub) else 'C0'}{sub}0000",
        ("3EF0", "r"): "0064FF", ("3EF1", "r"): "007FFF000A64FF",
        ("22F1", "r"): "0001", ("22F7", "w"): "0064", ("22F7", "r"): "0064C8",
        ("7FFF", "r"): "001001A0EB8039",
        ("1FC9", "r"): f"0030C9{hex_id(src) if src[2:3] == ':' and src != NON else '000000'}",
        ("1FC9", "w"): f"002309{hex_id(src) if src[2:3] == ':' and src != NON else '000000'}",
    }
    return t.get((code, cls))


def payload_for(f: dict) -> str:
    cls = {"RQ": "q", " W": "w"}.get(f["verb"], "r")
    idx, sub = f["idx"], f["sub"]
    bad0 = ""
    if f["fam"] == "none":
        bad0 = idx if idx not in ("", "00") else ""      # near miss: an index where the code has none (first byte not 00)
        idx = "00"
    if bad0:
        return bad0 + payload_for(dict(f, idx=""))[2:]
    if f["code"] == "0404" and f["verb"] == " I":  # the answer to a W|0404 carries no data
        return ("00230008" if idx == "HW" else f"{idx}200008") + f"00{sub}03"
    for c in (cls, "r", "w", "q"):
        p = _tmpl(f["code"], c, idx, sub, f["src"])
        if p is not None:
            return p
    if f["fam"] == "none":  # no template: the smallest member of one of the library's own regexes for the code
        for v in (f["verb"], "RP", " I", " W", "RQ"):
            p = _schema_min(f["code"], v)
            if p is not None:
                return p
    raise KeyError(f"no payload template for {f}")


_SCHEMA_MIN: dict[tuple[str, str], str | None] = {}
SCHEMA_MIN_PAYLOADS: set[tuple[str, str]] = set()   # (code, payload) that came from a regex, not from a template


def _schema_min(code: str, verb: str) -> str | None:
    if (code, verb) not in _SCHEMA_MIN:
        from ramses_tx.ramses import CODES_SCHEMA

        pat = CODES_SCHEMA.get(code, {}).get(verb)
        p = None
        if pat:
            try:
                p = regen(pat, random.Random(0), "min")
                if len(p) % 2 or not p:
                    p = None
            except NotImplementedError:
                p = None
        _SCHEMA_MIN[(code, verb)] = p
        if p is not None:
            SCHEMA_MIN_PAYLOADS.add((code, p))
    return _SCHEMA_MIN[(code, verb)]


def frame_text(f: dict, payload: str | None = None) -> str:
    p = payload if payload is not None else payload_for(f)
    if f["src"] == f["dst"]:
        a = (f["src"], NON, f["src"])
    else:
        a = (f["src"], f["dst"], NON)
    return f"{f['verb']} --- {a[0]} {a[1]} {a[2]} {f['code']} {len(p) // 2:03d} {p}"


def split_hdr(h: str | None) -> list[str]:
    if h is None:
        return ["", "", "", ""]
    parts = h.split("|")
    if len(parts) == 2:      # the "code|verb" stub Frame._hdr leaves behind when pkt_header() raised: no header
        return ["", "", "", ""]
    if not 3 <= len(parts) <= 4:
        raise ValueError(f"unexpected header shape: {h!r}")
    return parts + [""] * (4 - len(parts))


# context family per code, transcribed from the property's anchors (frame.py _ctx/_pkt_idx); only the
# contexts the statement lists (zone/domain idx, 0005/000C type, fragment, log idx, OpenTherm id)
FAMS = {
    "0004": "simple", "0008": "simple", "0009": "simple", "000A": "simple", "0016": "simple", "1030": "simple",
    "10A0": "simple", "1260": "simple", "12B0": "simple", "1F41": "simple", "2309": "simple", "2349": "simple",
    "30C9": "simple", "0005": "c4", "000C": "c4", "0404": "frag", "0418": "log", "3220": "msg", "1FC9": "bind",
}


def ctx_of(code: str, payload: str) -> str | None:
    """Generator-side context of a payload (None = this code's context is not one the statement lists)."""
    fam = FAMS.get(code)
    if fam == "simple":
        return payload[:2]
    if fam == "c4":
        return payload[:4]
    if fam == "frag":
        return payload[:4] + payload[10:12]
    if fam in ("log", "msg"):
        return payload[4:6]
    return None


EMPTY_F = {"verb": "", "code": "", "src": "", "dst": "", "fam": "", "idx": "", "sub": ""}


# ---------------------------------------------------------------------------------------------
# the real FSM: what does send_cmd() return?


class Scenario:
    """cmd_frame: text of the command; gw: id the gateway reports; wait: wait_for_reply;
    frames: packets (frame text) that arrive, in order, after the first transmission."""

    __slots__ = ("cmd_frame", "gw", "wait", "frames", "ret", "err", "txh", "rxh", "hdrs", "loop_exc", "srcs", "dsts", "flt")

    def __init__(self, cmd_frame: str, gw: str, wait: bool, frames: list[str], flt: str = "") -> None:
        self.cmd_frame, self.gw, self.wait, self.frames = cmd_frame, gw, wait, frames
        # "known": the protocol enforces a known list that names the devices of the exchange but not the gateway
        # (the active gateway is exempt): correlation must not depend on the receive-side device filter
        self.flt = flt
        self.ret = -1
        self.err = ""
        self.txh: str | None = None
        self.rxh: str | None = None
        self.hdrs: list[str] = []
        self.srcs: list[str] = []
        self.dsts: list[str] = []
        self.loop_exc = 0


async def _run_one(sc: Scenario) -> None:
    from ramses_tx import exceptions as exc
    from ramses_tx.command import Command
    from ramses_tx.protocol import PortProtocol
    from ramses_tx.typing import QosParams

    loop = asyncio.get_running_loop()
    if sc.flt in ("known", "known+nogw"):
        c0 = Command(sc.cmd_frame)
        ids = {i for i in (c0.src.id, c0.dst.id) if i[:2] not in ("18", "63", "--")}
        proto = PortProtocol(lambda msg: None, disable_qos=False, enforce_include_list=True,
                             include_list={i: {} for i in sorted(ids)}, exclude_list={})
    else:
        proto = PortProtocol(lambda msg: None, disable_qos=False)
    pkts: list[Any] = []
    n_tx = [0]

    def on_write(t: FakeTransport, frame: str) -> None:
        if " 7FFF " in frame and " 7FFF " not in sc.cmd_frame:  # the impersonation notice: echo it
            t.rx(fakes.echo_of(frame, sc.gw), 0.001)
            return
        n_tx[0] += 1
        if n_tx[0] > 1:
            return
        for k, pk in enumerate(pkts):
            loop.call_later(0.01 * (k + 1), proto.pkt_received, pk)
        if sc.flt == "snap":
            # the application takes a snapshot while the exchange is under way: Engine._pause() ... _resume() bracket a
            # synchronous piece of work (Gateway.get_state()), i.e. the protocol is told pause_writing() and, in the same
            # callback, resume_writing().  Once before the first packet arrives, once between the first and the second.
            def _snap() -> None:
                proto.pause_writing()
                proto.resume_writing()
            loop.call_later(0.005, _snap)
            loop.call_later(0.015, _snap)

    t = FakeTransport(proto, loop, gwy_id=sc.gw, on_write=on_write)
    if sc.flt == "known+nogw":   # an HGI80-like gateway: the transport never learns (reports) its id
        from ramses_tx.const import SZ_ACTIVE_HGI
        t._info.pop(SZ_ACTIVE_HGI, None)
    try:  # a frame the packet layer itself refuses is a generator miss, not an observation
        for fr in sc.frames:
            pkts.append(t.make_pkt(fr))
    except Exception as err:  # noqa: BLE001
        sc.ret, sc.err = -1, f"unbuildable packet {fr!r}: {type(err).__name__}"
        return
    proto.connection_made(t, ramses=True)
    await vloop.drain(4)
    cmd = Command(sc.cmd_frame)
    sc.txh, sc.rxh = cmd.tx_header, cmd.rx_header  # raw, before the FSM substitutes the placeholder
    n_exc = len(loop.exc)  # type: ignore[attr-defined]
    try:
        r = await proto.send_cmd(cmd, qos=QosParams(max_retries=0, timeout=10, wait_for_reply=sc.wait))
        hit = [i for i, q in enumerate(pkts) if q is r]
        if not hit:
            raise RuntimeError(f"send_cmd returned a packet that was never injected: {r}")
        sc.ret = hit[0] + 1
    except exc.ProtocolError as err:
        sc.ret, sc.err = 0, type(err).__name__
    await asyncio.sleep(0.2)
    await vloop.drain(6)
    if n_tx[0] == 0 and sc.ret != 0:
        raise RuntimeError(f"command was never written but send_cmd returned: {sc.cmd_frame}")
    # (n_tx == 0 with a protocol error: the mandatory impersonation notice itself failed - an observation)
    sc.hdrs = [p._hdr for p in pkts]
    sc.srcs = [p.src.id for p in pkts]
    sc.dsts = [p.dst.id for p in pkts]
    sc.loop_exc = len(loop.exc) - n_exc  # type: ignore[attr-defined]
    t.close()
    await vloop.drain(3)


def run_scenarios(scs: list[Scenario]) -> int:
    """Execute every scenario against a fresh real PortProtocol (virtual time). Returns #loop exceptions."""
    fakes.quiet_logging()

    async def main() -> int:
        VDT._loop = asyncio.get_running_loop()
        for sc in scs:
            await _run_one(sc)
        return len(asyncio.get_running_loop().exc)  # type: ignore[attr-defined]

    n, _ = vloop.run(main)
    return n


# ---------------------------------------------------------------------------------------------
# members of the payload regexes (the library's own regexes are the generators)


def regen(pattern: str, rng: random.Random, mode: str = "rand", max_rep: int = 3) -> str:
    """A string matched by `pattern` (subset of re syntax used by CODES_SCHEMA).
    mode: "min" (fewest repeats, first alternatives, lowest class member), "max", "rand"."""
    import re._parser as sp  # type: ignore[import-not-found]

    def pick(lo: int, hi: int) -> int:
        hi = min(hi, max(lo, max_rep)) if hi >= sp.MAXREPEAT else hi
        hi = min(hi, lo + 40)
        return lo if mode == "min" else hi if mode == "max" else rng.randint(lo, hi)

    def klass(items: list) -> str:
        chars: list[str] = []
        neg = False
        for op, av in items:
            if op is sp.NEGATE:
                neg = True
            elif op is sp.LITERAL:
                chars.append(chr(av))
            elif op is sp.RANGE:
                chars.extend(chr(c) for c in range(av[0], av[1] + 1))
            else:
                raise NotImplementedError(f"class item {op}")
        if neg:
            chars = [c for c in "0123456789ABCDEF" if c not in chars]
        return chars[0] if mode == "min" else chars[-1] if mode == "max" else rng.choice(chars)

    def gen(seq: Iterable) -> str:
        out = []
        for op, av in seq:
            if op is sp.LITERAL:
                out.append(chr(av))
            elif op is sp.IN:
                out.append(klass(av))
            elif op is sp.ANY:
                out.append("0" if mode == "min" else "F" if mode == "max" else rng.choice("0123456789ABCDEF"))
            elif op is sp.SUBPATTERN:
                out.append(gen(av[3]))
            elif op is sp.BRANCH:
                alts = av[1]
                alt = alts[0] if mode == "min" else alts[-1] if mode == "max" else rng.choice(alts)
                out.append(gen(alt))
            elif op in (sp.MAX_REPEAT, sp.MIN_REPEAT):
                lo, hi, sub = av
                out.append("".join(gen(sub) for _ in range(pick(lo, hi))))
            elif op is sp.AT:
                pass
            else:
                raise NotImplementedError(f"regex op {op}")
        return "".join(out)

    return gen(sp.parse(pattern))


# ---------------------------------------------------------------------------------------------
# exchanges in the shipped logs

_LINE = re.compile(r"^(\d{4}-\d\d-\d\d[T ][\d:.]+) (...) (( I|RP|RQ| W) (---|\d{3}) (\S+) (\S+) (\S+) ([0-9A-F]{4}) (\d{3}) ([0-9A-F]+))\s*([#<*].*)?$")


def log_pairs(root: str = "/repo/tests", window_s: float = 1.5) -> tuple[list[tuple[str, str]], list[str]]:
    """([(request frame, reply frame)], [every distinct addressed RP/I frame]).

    Only unambiguous exchanges: an RQ ( W) from any device, answered within `window_s` by an RP ( I)
    of the same code from the addressed device back to the requester, with no *different* request of
    that code between the same two devices pending at the same time."""
    from datetime import datetime as _dt

    pairs: dict[tuple[str, str], None] = {}
    answers: dict[str, None] = {}
    for fn in sorted(glob.glob(os.path.join(root, "**", "*.log"), recursive=True)):
        pending: dict[tuple[str, str, str, str], tuple[Any, str, bool]] = {}
        for ln in open(fn, errors="replace"):
            m = _LINE.match(ln.rstrip("\n"))
            if not m:
                continue
            try:
                ts = _dt.fromisoformat(m.group(1).replace(" ", "T"))
            except ValueError:
                continue
            verb, a0, a1, code = m.group(4), m.group(6), m.group(7), m.group(9)
            if verb in ("RP", " I") and a1 not in (NON, a0, "63:262142") and a0 != NON:
                answers[m.group(3)] = None
                key = (code, a1, a0, "RQ" if verb == "RP" else " W")
                if key in pending:
                    t0, req, dirty = pending.pop(key)
                    if not dirty and 0 <= (ts - t0).total_seconds() <= window_s:
                        pairs[(req, m.group(3))] = None
            elif verb in ("RQ", " W") and a0 != NON and a1 not in (NON, a0, "63:262142"):
                key = (code, a0, a1, verb)
                old = pending.get(key)
                dirty = bool(old and old[1] != m.group(3) and 0 <= (ts - old[0]).total_seconds() <= window_s)
                pending[key] = (ts, m.group(3), dirty)
    return list(pairs), list(answers)


# ---------------------------------------------------------------------------------------------
# batch validation with one TLC worker per JVM (PrintT lines of concurrent workers can interleave
# mid-line), several JVMs side by side


def validate_parallel(module: str, items: list, *, chunk: int = 3000, procs: int = 4, timeout: float = 1200) -> dict:
    from concurrent.futures import ThreadPoolExecutor

    from harness import tlc

    parts = [(base, items[base: base + chunk]) for base in range(0, len(items), chunk)]

    def one(arg: tuple[int, list]) -> tuple[int, dict]:
        base, part = arg
        return base, tlc.validate_batch(module, part, workers=1, chunk=len(part) + 1, timeout=timeout)

    out = {"n": len(items), "rejects": [], "states": 0, "transitions": 0, "wall_s": 0.0}
    with ThreadPoolExecutor(max_workers=max(1, procs)) as ex:
        for base, res in ex.map(one, parts):
            out["rejects"] += [(base + i, f) for i, f in res["rejects"]]
            out["states"] += res["states"]
            out["transitions"] += res["transitions"]
            out["wall_s"] += res["wall_s"]
    out["rejects"].sort(key=lambda r: r[0])
    return out

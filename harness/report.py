"""Verdict plumbing shared by all checks: violations, known findings, drift, evidence, exit codes.

Exit codes: 0 = held on everything explored (known findings allowed), 1 = VIOLATION, 2 = machinery.
"""
from __future__ import annotations

import hashlib
import json
import os
import sys
import time
import traceback
from pathlib import Path
from typing import Any, Callable

VERIF = Path(__file__).resolve().parent.parent
# VERIF_OUT_DIR is a developer aid (tools/seedtest.py runs checks against scratch copies of the repo in
# parallel without touching the committed evidence); registered commands never set it.
_OUT = Path(os.environ["VERIF_OUT_DIR"]) if os.environ.get("VERIF_OUT_DIR") else VERIF
EVIDENCE = _OUT / "evidence"
REPLAYS = _OUT / "replays"
KNOWN = VERIF / "known_findings.json"


def seed_from_env() -> int:
    try:
        return int(os.environ.get("VERIF_SEED", "0"))
    except ValueError:
        return 0


def load_known(pid: str) -> dict[str, dict]:
    """Known findings: /verif/known_findings.json plus /verif/known_findings.d/*.json (read-only)."""
    out: dict[str, dict] = {}
    files = [KNOWN] if KNOWN.exists() else []
    d = VERIF / "known_findings.d"
    if d.is_dir():
        files += sorted(d.glob("*.json"))
    for fp in files:
        data = json.loads(fp.read_text())
        if not isinstance(data, dict):
            continue
        for f in data.get("findings", []):
            if f.get("property") == pid:
                out[f["key"]] = f
    return out


class Check:
    def __init__(self, pid: str, tier: str, level: str) -> None:
        self.pid, self.tier, self.level = pid, tier, level
        self.seed = seed_from_env()
        self.t0 = time.time()
        self.known = load_known(pid)
        self.known_hit: dict[str, int] = {}
        self.violations: dict[str, dict] = {}  # key -> first example
        self.viol_count = 0
        self.drift: list[str] = []
        self.notes: list[str] = []

    # ---------------------------------------------------------------------------------
    def violation(self, key: str, what: str, replay: Any) -> None:
        """Record a property-clause failure observed on the real code.

        key    canonical signature (clause + failure class); matched against known_findings.json
        what   one line for humans
        replay JSON-serialisable object that `--replay` can re-execute
        """
        if key in self.known:
            self.known_hit[key] = self.known_hit.get(key, 0) + 1
            return
        self.viol_count += 1
        if key not in self.violations:
            self.violations[key] = {"key": key, "what": what, "replay": replay}

    def model_drift(self, msg: str) -> None:
        if len(self.drift) < 50:
            self.drift.append(msg)

    def note(self, msg: str) -> None:
        self.notes.append(msg)

    # ---------------------------------------------------------------------------------
    def finish(self, coverage: dict[str, Any], assumptions: list[str] | None = None) -> "None":
        for key, n in sorted(self.known_hit.items()):
            f = self.known[key]
            print(f"KNOWN-FINDING: property={self.pid} {f.get('what', key)} [key={key}; seen {n}x]")
        for d in self.drift[:20]:
            print(f"MODEL-DRIFT property={self.pid} {d}")
        paths = []
        if self.violations:
            (REPLAYS / self.pid).mkdir(parents=True, exist_ok=True)
        for key, v in sorted(self.violations.items()):
            h = hashlib.sha1(key.encode()).hexdigest()[:12]
            path = REPLAYS / self.pid / f"{h}.json"
            path.write_text(json.dumps({"property": self.pid, **v}, indent=1, default=str))
            paths.append(path)
            print(f"VIOLATION property={self.pid} replay={path}")
            print(f"  clause/key: {key}\n  what: {v['what']}")
        cov = dict(coverage)
        cov.setdefault("known_findings_seen", sorted(self.known_hit))
        cov.setdefault("model_drift", self.drift[:20])
        cov.setdefault("design_result_bound_to_code", not self.drift)
        if self.notes:
            cov.setdefault("notes", self.notes[:50])
        ev = {
            "property_id": self.pid,
            "tier": self.tier,
            "seed": self.seed,
            "level": self.level,
            "coverage": cov,
            "assumptions": assumptions or [],
            "wall_s": round(time.time() - self.t0, 2),
            "violations": len(self.violations),
        }
        EVIDENCE.mkdir(exist_ok=True)
        (EVIDENCE / f"{self.pid}.json").write_text(json.dumps(ev, indent=1, default=str) + "\n")
        print(
            f"{self.pid} {self.tier}: {'FAIL' if self.violations else 'ok'} "
            f"violations={len(self.violations)} known={len(self.known_hit)} drift={len(self.drift)} "
            f"wall={ev['wall_s']}s"
        )
        sys.stdout.flush()
        sys.exit(1 if self.violations else 0)


def main_wrapper(pid: str, fn: Callable[[str, str | None], None]) -> None:
    """Standard CLI:  python -m checks.cNN [--tier quick|thorough] [--replay FILE]"""
    import argparse

    ap = argparse.ArgumentParser()
    ap.add_argument("--tier", default=os.environ.get("VERIF_TIER", "quick"), choices=["quick", "thorough"])
    ap.add_argument("--replay", default=None)
    a = ap.parse_args()
    try:
        fn(a.tier, a.replay)
    except SystemExit:
        raise
    except BaseException as err:  # noqa: BLE001
        traceback.print_exc()
        print(f"MACHINERY-FAILURE property={pid} {type(err).__name__}: {str(err)[:500]}")
        sys.stdout.flush()
        sys.exit(2)

"""C17 harness helpers: a catalogue of real schedules / 0404 packets and a driver for real Schedule
objects (own file per agent brief).  Nothing here judges; it builds inputs and records outputs."""
from __future__ import annotations

import copy
import json
import os
from datetime import datetime as dt
from typing import Any

import ramses_rf.system.schedule as S
from ramses_tx import Command, Message, Packet
from ramses_tx.const import RP, Code

CTL = "01:145038"
HGI = "18:013393"
_NOW = dt(2022, 2, 21, 23, 24, 0)
TESTS = os.path.join(os.path.dirname(os.path.dirname(os.path.dirname(os.path.abspath(S.__file__)))), "..", "tests", "tests", "schedules")
if not os.path.isdir(TESTS):
    TESTS = "/repo/tests/tests/schedules"  # a scratch copy of src/ only: the test data stays in /repo


def rp_frame(idx: str, k: int, n: int, frag: str) -> str:
    hdr = "00230008" if idx == "HW" else f"{idx}200008"
    payload = f"{hdr}{len(frag) // 2:02X}{k:02X}{n:02X}{frag}"
    return Command.from_attrs(RP, HGI, Code._0404, payload, from_id=CTL)._frame


def nosched_frame(idx: str) -> str:
    hdr = "00230008" if idx == "HW" else f"{idx}200008"
    return Command.from_attrs(RP, HGI, Code._0404, f"{hdr}0001FF", from_id=CTL)._frame


def mk_pkt(frame: str) -> Packet:
    return Packet.from_port(_NOW, "... " + frame)


def mk_msg(frame: str) -> Message:
    return Message(mk_pkt(frame))


def dhw_sched(points: list[list[tuple[str, bool]]]) -> dict:
    return {"zone_idx": "00", "schedule": [
        {"day_of_week": d, "switchpoints": [{"time_of_day": t, "enabled": e} for t, e in points[d % len(points)]]}
        for d in range(7)]}


def zon_sched(idx: str, points: list[list[tuple[str, float]]]) -> dict:
    return {"zone_idx": idx, "schedule": [
        {"day_of_week": d, "switchpoints": [{"time_of_day": t, "heat_setpoint": v} for t, v in points[d % len(points)]]}
        for d in range(7)]}


def catalogue() -> dict[str, dict]:
    """version id -> {zone, schedule (inner list the view must show), frames [RP per fragment]}.

    A = the logged reply packets of tests/schedules/sched_001 (a real controller's compression);
    the others are encoded with the library's own full_sched_to_fragz and sent as RP packets."""
    cat: dict[str, dict] = {}
    s001 = json.load(open(f"{TESTS}/sched_001/schedule.json"))
    lines = [ln for ln in open(f"{TESTS}/sched_001/packet.log") if " RP " in ln and " 0404 " in ln]
    cat["A"] = {"zone": "01", "schedule": s001["schedule"], "frames": [ln[31:].rstrip("\n").split("#")[0].rstrip() for ln in lines]}
    b = copy.deepcopy(s001)
    b["schedule"][0]["switchpoints"][0]["heat_setpoint"] = 20.0
    c = zon_sched("01", [[("06:00", 20.0)], [("07:00", 19.5)]])
    d1 = dhw_sched([[("06:00", True)]])
    d2 = dhw_sched([[("05:30", True)]])
    e = dhw_sched([[("06:00", True), ("08:30", False)], [("07:00", True), ("09:00", False), ("17:00", True)]])
    for name, zone, full in (("B", "01", b), ("C", "01", c), ("D1", "HW", d1), ("D2", "HW", d2), ("E", "HW", e)):
        frs = S.full_sched_to_fragz(full)
        cat[name] = {"zone": zone, "schedule": full["schedule"],
                     "frames": [rp_frame(zone, k, len(frs), f) for k, f in enumerate(frs, 1)]}
    dhw = json.load(open(f"{TESTS}/sched_dhw/schedule.json"))
    lines = [ln for ln in open(f"{TESTS}/sched_dhw/packet.log") if " RP " in ln and " 0404 " in ln]
    cat["F"] = {"zone": "HW", "schedule": dhw["schedule"], "frames": [ln[31:].rstrip("\n").split("#")[0].rstrip() for ln in lines]}
    return cat


def exc_name(err: BaseException) -> str:
    t = type(err)
    return t.__name__ if t.__module__ == "builtins" else f"{t.__module__}.{t.__name__}"


class _Tcs:
    zone_lock_idx = None


class HarnessError(Exception):
    """Trouble inside the fake controller (never the library's doing)."""


class _FetchNoEnd(Exception):
    """The fetch loop keeps asking (the fake controller stops answering after MAX_RQ requests)."""


class _NoSuchFragment(Exception):
    """The library asked for a fragment beyond the controller's set: no answer, the send fails."""


class _Controller:
    """A faithful controller for Schedule.get_schedule(): holds one catalogue version per zone, answers RQ|0006 with
    its change counter and RQ|0404 with the catalogue's own RP packet of the fragment asked for.  Every command it
    is sent goes through the library's decoder first.  Stands in for `gwy` (async_send_cmd) and, with the library's
    own ScheduleSync._obtain_lock/_release_lock, for the `tcs` of the stub zones."""

    MAX_RQ = 40

    def __init__(self, cat: dict[str, dict]) -> None:
        import threading

        self.cat = cat
        self.holds: dict[str, str] = {}
        self.counter = 1
        self.asked: list[int] = []  # fragment numbers asked for and answered (this fetch)
        self.n_rq = 0
        self.zone_lock = threading.Lock()
        self.zone_lock_idx: str | None = None

    # -- tcs
    async def _schedule_version(self, *, force_io: bool = False) -> tuple[int, bool]:
        pkt = await self.async_send_cmd(Command.get_schedule_version(CTL))
        return Message(pkt).payload["change_counter"], True

    async def _obtain_lock(self, zone_idx: str) -> None:
        from ramses_rf.system.heat import ScheduleSync
        await ScheduleSync._obtain_lock(self, zone_idx)  # type: ignore[arg-type]

    def _release_lock(self) -> None:
        from ramses_rf.system.heat import ScheduleSync
        ScheduleSync._release_lock(self)  # type: ignore[arg-type]

    # -- gwy
    async def async_send_cmd(self, cmd: Command, **kwargs: Any) -> Packet:
        try:
            msg = mk_msg(cmd._frame)
            code, verb = str(msg.code), str(msg.verb).strip()
        except Exception as err:  # noqa: BLE001
            raise HarnessError(f"the library's decoder refuses the library's own request {cmd!r}: {err}") from err
        if code == "0006" and verb == "RQ":
            return mk_pkt(f"RP --- {CTL} {HGI} --:------ 0006 004 0005{self.counter:04X}")
        if code != "0404" or verb != "RQ":
            raise HarnessError(f"unexpected command during a fetch: {cmd!r}")
        self.n_rq += 1
        if self.n_rq > self.MAX_RQ:
            raise _FetchNoEnd(f"{self.n_rq} fragment requests in one fetch")
        idx, k = msg.payload["zone_idx"], msg.payload["frag_number"]
        frames = self.cat[self.holds[idx]]["frames"]
        if not 1 <= k <= len(frames):  # the model's "BadRequest" (never within the statement's scope on the unchanged code)
            raise _NoSuchFragment(f"fragment {k} of a {len(frames)}-fragment schedule asked for")
        self.asked.append(k)
        return mk_pkt(frames[k - 1])


class _Zone:
    def __init__(self, idx: str, ctl: _Controller | None = None) -> None:
        self.id = f"{CTL}_{idx}"
        self.idx = idx
        self.ctl = type("Ctl", (), {"id": CTL})()
        self.tcs = _Tcs() if ctl is None else ctl
        self._gwy = ctl


_LOOP = None


def _loop():
    """One event loop per process for the fetches (uncontended: get_schedule never sleeps)."""
    global _LOOP
    if _LOOP is None or _LOOP.is_closed():
        import asyncio
        _LOOP = asyncio.new_event_loop()
    return _LOOP


class Runner:
    """Real Schedule objects (one per zone) fed with real 0404 RP messages."""

    def __init__(self, cat: dict[str, dict], zones: list[str]) -> None:
        S.EMPTY_PAYLOAD_SET[:] = [None]  # the module-level default is global state: reset between histories
        self.cat = cat
        self.zones = zones
        self.ctl = _Controller(cat)
        self.sch = {z: S.Schedule(_Zone(z, self.ctl)) for z in zones}
        self.frag_id: dict[str, tuple[str, int]] = {}
        for v, c in cat.items():
            for k, fr in enumerate(c["frames"], 1):
                self.frag_id[fr.split()[-1][14:]] = (v, k)

    def apply(self, ev) -> dict:
        kind, z, v, k = ev[:4]
        if kind == "fetch":
            return self.fetch(z, v)
        exc = ""
        frame = nosched_frame(z) if kind == "nosched" else self.cat[v]["frames"][k - 1]
        try:
            self.sch[z]._handle_msg(mk_msg(frame))
        except Exception as err:  # noqa: BLE001
            exc = exc_name(err)
        o = self.observe()
        o.update(k=kind, z=z, v=v, n=k, exc=exc, **{"del": []})
        return o

    def fetch(self, z: str, v: str) -> dict:
        """Schedule.get_schedule(force_io=True) whilst the controller holds version v of zone z and its change counter
        has gone up; nobody else holds the schedule lock, every request is answered.  The call's own result must be
        what the public view shows afterwards (recorded as an exception of the harness kind if not)."""
        import asyncio

        ctl = self.ctl
        if self.cat[v]["zone"] != z:
            raise HarnessError(f"version {v} is not a schedule of zone {z}")
        ctl.holds[z] = v
        ctl.counter += 1
        ctl.asked, ctl.n_rq = [], 0
        exc, res = "", None
        try:
            res = _loop().run_until_complete(asyncio.wait_for(self.sch[z].get_schedule(force_io=True), 60))
        except HarnessError:
            raise
        except _FetchNoEnd:
            exc = "no-end"
        except _NoSuchFragment:
            exc = "asked-for-a-fragment-the-schedule-does-not-have"
        except Exception as err:  # noqa: BLE001
            exc = exc_name(err)
        if ctl.zone_lock_idx is not None:  # (C18c's business; the next fetch of the history must not meet a stale lock)
            ctl.zone_lock_idx = None
        o = self.observe()
        if not exc and res != self.sch[z].schedule:
            raise HarnessError(f"get_schedule() returned something else than Schedule.schedule shows: {res!r}")
        o.update(k="fetch", z=z, v=v, n=0, exc=exc, **{"del": sorted(set(ctl.asked))})
        return o

    def _slots(self, ps) -> list[list]:
        out = []
        for p in ps:
            if p is None:
                out.append(["-", 0])
            else:
                fid = self.frag_id.get(p.get("fragment"), ("?", 0))
                out.append([fid[0], fid[1]])
        return out

    def observe(self) -> dict:
        view, full, ref, own = {}, {}, {}, {}
        for z, sch in self.sch.items():
            try:
                r = sch.schedule
            except Exception as err:  # noqa: BLE001
                view[z] = "raises:" + exc_name(err)
                continue
            if r is None:
                view[z] = "none"
            else:
                hits = [v for v, c in self.cat.items() if c["schedule"] == r]
                view[z] = hits[0] if hits else "other"
            fs = sch._full_schedule
            full[z] = "unset" if not fs else ("none" if "schedule" not in fs else view[z])
            ref[z] = "shared" if sch._payload_set is S.EMPTY_PAYLOAD_SET else "own"
            own[z] = [] if ref[z] == "shared" else self._slots(sch._payload_set)
        return {"view": [[z, view[z]] for z in self.zones], "full": full, "ref": ref, "own": own,
                "shared": self._slots(S.EMPTY_PAYLOAD_SET)}


def run_history(cat, zones, events) -> list[dict]:
    r = Runner(cat, zones)
    try:
        return [r.apply(tuple(e)) for e in events]
    finally:
        S.EMPTY_PAYLOAD_SET[:] = [None]


# --------------------------------------------------------------------------------------
# codec half


def grid(val: Any) -> int:
    """A decoded switch-point value on the integer grid (centi-degrees / 0-1), or -1 if off-grid."""
    if isinstance(val, bool):
        return int(val)
    g = round(val * 100)
    return g if g / 100 == val else -1


def flat(full: dict) -> list[list[int]]:
    out = []
    for day in full["schedule"]:
        for sp in day["switchpoints"]:
            t = sp["time_of_day"]
            v = sp["heat_setpoint"] if "heat_setpoint" in sp else sp["enabled"]
            out.append([int(day["day_of_week"]), int(t[:2]) * 60 + int(t[3:]), grid(v)])
    return out


def codec_row(full_in: dict, kind: str) -> dict:
    """Validate, encode, decode, build the write commands and decode them; record everything (no judging)."""
    row: dict[str, Any] = {"kind": kind, "zone": full_in["zone_idx"], "inp": [], "out": [], "zout": "", "exc": "",
                           "lens": [], "cmds": []}
    outer = S.SCH_SCHEDULE_DHW_OUTER if kind == "dhw" else S.SCH_SCHEDULE_ZON_OUTER
    v_in = copy.deepcopy(full_in)
    if kind == "dhw":
        v_in["zone_idx"] = "HW"
    try:
        valid = outer(v_in)  # the library's own validator (coerces set-points to float)
    except Exception as err:  # noqa: BLE001
        row["exc"] = "validator:" + type(err).__name__
        return row
    if kind == "dhw":
        valid["zone_idx"] = "00"  # as Schedule.set_schedule does before encoding
    row["inp"] = flat(valid)
    row["zone"] = valid["zone_idx"]
    try:
        frags = S.full_sched_to_fragz(valid)
    except Exception as err:  # noqa: BLE001
        row["exc"] = "encode:" + exc_name(err)
        return row
    row["lens"] = [(len(f) + 1) // 2 for f in frags]
    try:
        # the decoded schedule belongs to the caller: what he does to it (Schedule itself rewrites zone_idx in place,
        # applications edit switch-points) must not show in the next decode of the same fragments - the row carries
        # the *second* decode, taken after the first result has been edited in place
        first = S.fragz_to_full_sched(frags)
        _scribble(first)
        back = S.fragz_to_full_sched(list(frags))
        row["out"] = flat(back)
        row["zout"] = back["zone_idx"]
    except Exception as err:  # noqa: BLE001
        row["exc"] = "decode:" + exc_name(err)
    zarg = "HW" if kind == "dhw" else valid["zone_idx"]
    for k, f in enumerate(frags, 1):
        c = {"ok": 0, "k": 0, "n": 0, "feq": 0, "plen": 0, "exc": ""}
        try:
            cmd = Command.set_schedule_fragment(CTL, zarg, k, len(frags), f)
            msg = Message(Packet.from_port(_NOW, "... " + cmd._frame))
            p = msg.payload
            c.update(ok=1, k=p["frag_number"], n=p["total_frags"], feq=int(p.get("fragment") == f),
                     plen=len(cmd.payload) // 2)
        except Exception as err:  # noqa: BLE001
            c["exc"] = exc_name(err)
        row["cmds"].append(c)
    return row


def _scribble(x: Any) -> None:
    """Edit a decoded schedule in place, at every level (keys kept, values changed)."""
    if isinstance(x, dict):
        for k in list(x):
            if isinstance(x[k], (dict, list)):
                _scribble(x[k])
            elif isinstance(x[k], bool):
                x[k] = not x[k]
            elif isinstance(x[k], (int, float)):
                x[k] = x[k] + 1
            elif isinstance(x[k], str):
                x[k] = "ZZ"
    elif isinstance(x, list):
        for v in x:
            _scribble(v)
        if x:
            x.pop()


def validate_parallel(module: str, items: list, *, procs: int = 4, extra_env: dict | None = None,
                      timeout: float = 1500) -> dict:
    """tlc.validate_batch with parallelism across JVMs instead of TLC workers: several workers interleave
    their PrintT lines (lost verdicts = machinery failure), so each JVM runs with -workers 1."""
    from concurrent.futures import ThreadPoolExecutor
    from harness import tlc
    if not items:
        return {"n": 0, "rejects": [], "states": 0, "transitions": 0, "wall_s": 0.0}
    n = max(1, min(procs, (len(items) + 199) // 200))
    size = (len(items) + n - 1) // n
    parts = [(b, items[b:b + size]) for b in range(0, len(items), size)]
    with ThreadPoolExecutor(len(parts)) as tp:
        futs = [(b, tp.submit(tlc.validate_batch, module, part, extra_env=extra_env, workers=1, chunk=4000,
                              timeout=timeout)) for b, part in parts]
        out = {"n": len(items), "rejects": [], "states": 0, "transitions": 0, "wall_s": 0.0}
        for b, f in futs:
            r = f.result()
            out["rejects"] += [(b + i, fail) for i, fail in r["rejects"]]
            out["states"] += r["states"]
            out["transitions"] += r["transitions"]
            out["wall_s"] = max(out["wall_s"], r["wall_s"])
    out["rejects"].sort(key=lambda x: x[0])
    return out


def validate_forest(module: str, runs: list[list[dict]], ident, root: dict, *, procs: int = 4,
                    extra_env: dict | None = None, timeout: float = 1500) -> dict:
    """Trace validation of many recorded runs that share prefixes: the runs are merged into prefix trees
    (one per JVM), so TLC folds every distinct prefix once.  `ident(step)` identifies a step (the real
    code is deterministic: equal event prefixes give equal observations); `root` is the record of the
    initial state (same fields as a step).  The trace spec prints <<"VERDICT", node, new>> per node,
    `new` = <<>> or <<depth, clause>> or <<depth, clause, "clause2,clause3">>: the clauses that trip at
    that node for the first time on its path.
    Returns {"n", "nodes", "rejects": [(run_index, [(line, clause), ...])], "wall_s"}."""
    from concurrent.futures import ThreadPoolExecutor
    from harness import tlc
    if not runs:
        return {"n": 0, "nodes": 0, "rejects": [], "wall_s": 0.0}
    order = sorted(range(len(runs)), key=lambda i: [ident(s) for s in runs[i]])  # neighbours share prefixes
    n = max(1, min(procs, (len(runs) + 49) // 50))
    size = (len(order) + n - 1) // n
    groups = [order[b:b + size] for b in range(0, len(order), size)]

    def one(group: list[int]):
        nodes = [dict(root, p=0, d=0, kids=[])]
        index: dict[tuple, int] = {(): 1}
        path_nodes: dict[int, list[int]] = {}
        for ri in group:
            key: tuple = ()
            cur = 1
            pn = []
            for depth, step in enumerate(runs[ri], 1):
                key = key + (ident(step),)
                nxt = index.get(key)
                if nxt is None:
                    nodes.append(dict(step, p=cur, d=depth, kids=[]))
                    nxt = index[key] = len(nodes)
                    nodes[cur - 1]["kids"].append(nxt)
                cur = nxt
                pn.append(cur)
            path_nodes[ri] = pn
        r = tlc.validate_batch(module, nodes, extra_env=extra_env, workers=1, chunk=10 ** 9, timeout=timeout)
        new_at: dict[int, list[str]] = {}
        for i, fail in r["rejects"]:
            new_at[i + 1] = [fail[1]] + (fail[2].split(",") if len(fail) > 2 and fail[2] else [])
        rej = []
        for ri in group:
            pairs = [(line, c) for line, node in enumerate(path_nodes[ri], 1) for c in new_at.get(node, [])]
            if pairs:
                rej.append((ri, pairs))
        return len(nodes), rej, r["wall_s"]

    out = {"n": len(runs), "nodes": 0, "rejects": [], "wall_s": 0.0}
    with ThreadPoolExecutor(len(groups)) as tp:
        for nn, rej, w in tp.map(one, groups):
            out["nodes"] += nn
            out["rejects"] += rej
            out["wall_s"] = max(out["wall_s"], w)
    out["rejects"].sort(key=lambda x: x[0])
    return out


# --------------------------------------------------------------------------------------
# the same reply packets through a whole real Gateway (FileTransport replay -> dispatcher -> Evohome ->
# Zone/DhwZone -> Schedule._handle_msg): validates the dispatch the Runner does by hand


def run_history_gateway(cat: dict[str, dict], zones: list[str], events) -> tuple[list[list[str]], list[str]]:
    """Final public views [[zone, id], ...] (same classification as Runner.observe) and loop exceptions."""
    from harness import fakes, vloop
    fakes.quiet_logging()
    S.EMPTY_PAYLOAD_SET[:] = [None]
    lines = ["2022-02-21T23:24:08.000000 ... RP --- 01:145038 18:013393 --:------ 000C 006 010800128F3C\n"]
    for i, (kind, z, v, k) in enumerate(events):
        lines.append(f"2022-02-21T23:{24 + (10 + i) // 60:02d}:{(10 + i) % 60:02d}.000000 ... {cat[v]['frames'][k - 1]}\n")

    def classify(r) -> str:
        if r is None:
            return "none"
        hits = [v for v, c in cat.items() if c["schedule"] == r]
        return hits[0] if hits else "other"

    async def main():
        gwy = await fakes.load_log_gateway(lines, config={"disable_discovery": True})
        tcs = gwy.tcs
        view = {}
        for z in zones:
            obj = tcs.dhw if z == "HW" else next((x for x in tcs.zones if x.idx == z), None)
            try:
                view[z] = "none" if obj is None else classify(obj.schedule)
            except Exception as err:  # noqa: BLE001
                view[z] = "raises:" + exc_name(err)
        await gwy.stop()
        return [[z, view[z]] for z in zones]

    try:
        res, loop = vloop.run(main)
    finally:
        S.EMPTY_PAYLOAD_SET[:] = [None]
    return res, [str(c.get("exception") or c.get("message")) for c in loop.exc]

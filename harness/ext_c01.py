"""Harness extension for C01 (reception is total): rigs that drive the *real* receive path.

FakeSerial   a pyserial stand-in whose fileno() is one end of a socketpair, so the real
             serial_asyncio.SerialTransport registers it with the loop's selector and the loop itself
             calls PortTransport._read_ready() when the harness `feed()`s a chunk (one read() per feed)
PortRig      real PortProtocol + real PortTransport on a FakeSerial (signature echo answered);
             `await rig.read(chunk)` = one serial.read() returning exactly `chunk`, then the loop is
             drained; everything the receive path does is recorded as events
run_source   real FileTransport (packet log file or packet dict) behind a real ReadProtocol
MqttRig      real MqttTransport with a stub paho client; `rig.message(ts, line)` = one /rx message
direct_outcomes   Packet.from_port/from_file/from_dict + Message(pkt) called directly on one line

Events are dicts {"e", "k", "n", "mro"} (uniform fields, JSON for spec/RxTrace.tla):
  read n      a read of n symbols was delivered            (k = byte count)
  out  k mro  Packet.from_* / Message returned (mro=[]) or raised (mro = class names); n = entry point
  pkt  k      protocol.pkt_received(pkt) was called with the packet of line k (0 = not a known line)
  msg  k      the message handler was called with the message of line k
  exc  mro    an exception reached the event loop's handler / escaped the entry call; n = site
  end  mro    connection_lost(exc) (mro = [] for None)
Nothing here judges anything.
"""
from __future__ import annotations

import asyncio
import collections
import os
import socket
import sys
import time
import traceback
from typing import Any

REPO_SRC = os.environ.get("VERIF_REPO_SRC", "/repo/src")
if REPO_SRC not in sys.path:
    sys.path.insert(0, REPO_SRC)

ENTRY = {"from_port": 0, "from_file": 1, "from_dict": 2, "Message": 3}
SITE = {"loop": 0, "read_ready": 1, "on_message": 2, "reader": 3}

_VCLOCK = {"loop": None}


def _install_clock() -> None:
    """time.perf_counter must be substituted before ramses_tx.transport is imported (the duty-cycle
    closure reads it at decoration time).  Only matters for writes; harmless for reception."""
    if "ramses_tx.transport" in sys.modules:
        return
    real = time.perf_counter

    def pc() -> float:
        lp = _VCLOCK["loop"]
        return lp.time() if lp is not None else real()

    time.perf_counter = pc  # type: ignore[assignment]


_install_clock()


def mro_names(err: BaseException | type | None) -> list[str]:
    if err is None:
        return []
    cls = err if isinstance(err, type) else type(err)
    return [f"{c.__module__}.{c.__qualname__}" for c in cls.__mro__ if c is not object]


def exc_sig(err: BaseException) -> str:
    """Type@module.function of the innermost library frame (stable: no line numbers)."""
    tb = traceback.extract_tb(err.__traceback__)
    lib = [f for f in tb if "/ramses_tx/" in f.filename or "/ramses_rf/" in f.filename]
    f = lib[-1] if lib else (tb[-1] if tb else None)
    where = f"{os.path.basename(f.filename)[:-3]}.{f.name}" if f else "?"
    return f"{type(err).__name__}@{where}"


def ev(e: str, k: int = 0, n: int = 0, mro: list[str] | None = None, f: str | None = None,
       err: BaseException | None = None) -> dict:
    d = {"e": e, "k": k, "n": n, "mro": mro or []}
    if f is not None:
        d["f"] = f  # frame text of a delivered packet (harness-side mapping to a line; stripped before TLC)
    if err is not None:
        d["sig"] = exc_sig(err)  # harness-side: which exception this event is (stripped before TLC)
    return d


PERMITTED = ("ramses_tx.exceptions.PacketInvalid", "builtins.ValueError")


def is_permitted(err: BaseException | None) -> bool:
    """The two rejection types the property allows (used only to decide which exception *signatures*
    are worth keeping as the cause class of a finding key; TLC judges the types itself)."""
    return err is not None and any(n in PERMITTED for n in mro_names(err))


STRAY: list[str] = []  # GC-time "... exception was never retrieved" contexts (not attributable; reported as notes)


def is_stray(ctx: dict) -> bool:
    if "never retrieved" in str(ctx.get("message", "")):
        STRAY.append(f"{ctx.get('message')}: {ctx.get('exception')!r}"[:200])
        return True
    return False


def note_sig(sigs: list[str], err: BaseException | None, fallback: str = "?") -> None:
    if err is None:
        sigs.append(fallback)
    elif not is_permitted(err):
        sigs.append(exc_sig(err))


# --------------------------------------------------------------------------------------
# direct calls (the "for all strings" half of clause a1)


def direct_outcomes(line: str, dtm_str: str = "2026-01-01T00:00:00.000000") -> tuple[list[dict], dict]:
    """Call the three packet constructors and Message on `line` (= "RSSI frame[ * err][ # comment]").
    Returns (events, info) where info = {"sigs": {entry: exc_sig}, "msg": bool}."""
    from datetime import datetime as dt

    from ramses_tx.message import Message
    from ramses_tx.packet import Packet

    out: list[dict] = []
    info: dict[str, Any] = {"sigs": {}, "msg": False}
    for name, fn in (
        ("from_port", lambda: Packet.from_port(dt(2026, 1, 1), line)),
        ("from_file", lambda: Packet.from_file(dtm_str, line)),
        ("from_dict", lambda: Packet.from_dict(dtm_str, line)),
    ):
        try:
            pkt = fn()
        except Exception as err:  # noqa: BLE001 - recording, not judging
            out.append(ev("out", 0, ENTRY[name], mro_names(err)))
            info["sigs"][name] = exc_sig(err)
            continue
        out.append(ev("out", 0, ENTRY[name], []))
        if name != "from_port":
            continue
        try:
            Message(pkt)
            info["msg"] = True
            out.append(ev("out", 0, ENTRY["Message"], []))
        except Exception as err:  # noqa: BLE001
            out.append(ev("out", 0, ENTRY["Message"], mro_names(err)))
            info["sigs"]["Message"] = exc_sig(err)
    return out, info


# --------------------------------------------------------------------------------------
# serial port


class FakeSerial:
    name = portstr = port = "/dev/fake"
    is_open = True
    timeout = 0
    write_timeout = 0
    in_waiting = 0
    out_waiting = 0

    def __init__(self) -> None:
        self.a, self.b = socket.socketpair()
        self.a.setblocking(False)
        self.b.setblocking(False)
        self.chunks: collections.deque[bytes] = collections.deque()
        self.written: list[bytes] = []
        self.reads = 0
        self.die_next = False  # the next read() raises SerialException (the port died)

    def fileno(self) -> int:
        return self.a.fileno()

    def feed(self, chunk: bytes) -> None:
        """Make the fd readable once; the next read() returns exactly `chunk` (b"" = empty read)."""
        self.chunks.append(chunk)
        self.b.send(b"!")

    def read(self, n: int = 1) -> bytes:
        self.reads += 1
        try:
            self.a.recv(1)
        except BlockingIOError:
            pass
        if self.die_next:
            from serial import SerialException

            self.die_next = False
            if self.chunks:
                self.chunks.popleft()
            raise SerialException("device reports readiness to read but returned no data (device disconnected?)")
        return self.chunks.popleft() if self.chunks else b""

    def write(self, data: bytes) -> int:
        self.written.append(bytes(data))
        return len(data)

    def flush(self) -> None:
        pass

    def reset_input_buffer(self) -> None:
        pass

    def close(self) -> None:
        self.is_open = False
        for s in (self.a, self.b):
            try:
                s.close()
            except OSError:
                pass


class PortRig:
    """Real PortTransport/PortProtocol; use inside a running VLoop:  rig = await PortRig.create()."""

    GWY = "18:111111"

    def __init__(self) -> None:
        self.events: list[dict] = []
        self.frame_to_k: dict[str, int] = {}
        self.sigs: list[str] = []

    @classmethod
    async def create(cls) -> "PortRig":
        import ramses_tx.transport as tr
        from ramses_tx.protocol import PortProtocol

        self = cls()
        loop = asyncio.get_running_loop()
        self.loop = loop
        _VCLOCK["loop"] = loop
        tr.is_hgi80 = lambda name: False  # type: ignore[assignment]
        self.proto = PortProtocol(self._on_msg, disable_qos=False)
        real_pkt_received = self.proto.pkt_received

        def pkt_received(pkt):  # records, then the real method
            self.events.append(ev("pkt", self.frame_to_k.get(str(pkt._frame), 0), f=str(pkt._frame)))
            return real_pkt_received(pkt)

        self.proto.pkt_received = pkt_received  # type: ignore[method-assign]
        self.ser = FakeSerial()
        self.tr = tr.PortTransport(self.ser, self.proto, disable_sending=False, loop=loop)
        self.n_loop_exc = len(loop.exc)
        # signature phase: echo the puzzle frame back as the gateway would
        for _ in range(200):
            await asyncio.sleep(0.01)
            if self.ser.written:
                break
        sig = self.ser.written[0].decode().rstrip("\r\n")
        echo = sig.replace("18:000730", self.GWY, 1)
        await self.read(f"000 {echo}\r\n".encode())
        await asyncio.sleep(0.1)
        if self.proto._transport is not self.tr:
            raise RuntimeError("PortRig: transport did not connect")
        self.events.clear()
        return self

    def _on_msg(self, msg) -> None:
        self.events.append(ev("msg", self.frame_to_k.get(str(msg._pkt._frame), 0), f=str(msg._pkt._frame)))

    async def drain(self, n: int = 4) -> None:
        for _ in range(n):
            await asyncio.sleep(0)

    def _collect_loop_exc(self) -> None:
        while self.n_loop_exc < len(self.loop.exc):
            ctx = self.loop.exc[self.n_loop_exc]
            self.n_loop_exc += 1
            if is_stray(ctx):
                continue
            err = ctx.get("exception")
            self.events.append(ev("exc", 0, SITE["loop"], mro_names(err) or ["?" + str(ctx.get("message"))[:60]], err=err))
            note_sig(self.sigs, err, "loop:" + str(ctx.get("message"))[:40])

    async def read(self, chunk: bytes, nsym: int = 0) -> None:
        """One serial.read() returning `chunk`, called by the loop's own reader dispatch."""
        before = self.ser.reads
        self.n_loop_exc = len(self.loop.exc)  # anything older belongs to another rig on the same loop
        self.events.append(ev("read", len(chunk), nsym))
        self.ser.feed(chunk)
        for _ in range(6):
            await asyncio.sleep(0)
            if self.ser.reads > before:
                break
        else:
            raise RuntimeError("PortRig: the loop did not call _read_ready()")
        await self.drain()
        self._collect_loop_exc()

    async def flush(self) -> None:
        """Terminate whatever is in the receive buffer (harness operation; events discarded)."""
        keep, keep_sigs = self.events, self.sigs
        self.events, self.sigs = [], []
        await self.read(b"\r\n")
        self.events, self.sigs = keep, keep_sigs

    def take(self) -> tuple[list[dict], list[str]]:
        evs, sg = self.events, self.sigs
        self.events, self.sigs = [], []
        return evs, sg

    def close(self) -> None:
        """PortTransport.close() never reaches SerialTransport._close (MRO), so the fd stays registered
        with the selector: remove it here before the socketpair is closed."""
        try:
            self.tr.close()
        finally:
            try:
                self.loop.remove_reader(self.ser.fileno())
            except (OSError, ValueError):
                pass
            self.ser.close()


# --------------------------------------------------------------------------------------
# the connection phase of the real PortTransport (spec/TransportLife.tla)

LIFE_FRAMES = {"other": " I --- 01:145038 --:------ 01:145038 1F09 003 FF073F",
               "foreignsig": " I --- 18:222222 63:262142 --:------ 7FFF 014 0001966A1C9A8F7631302E332E31"}


LIFE_OTHER_EXC: list[str] = []  # loop exceptions seen by run_life that did not come out of the receive path (notes only)


async def run_life(steps: list[list], sending: bool = True) -> dict:
    """One schedule on the real PortTransport(s) of ONE real PortProtocol (QoS context included, as a Gateway uses it;
    FakeSerial, virtual time).  steps: ["rx", kind] | ["sleep", secs] | ["lose", "close" | "die"] | ["reopen"].
      lose    the transport the protocol has been told about is closed by the application / its port dies (a
              SerialException out of serial.read()); skipped while connection_made has not run (the discipline of
              spec/TransportLife!Lose).  The reader is removed then (what SerialTransport._close would do).
      reopen  the same protocol object is handed to a new PortTransport on a new port (a re-connect)
    Everything that leaves protocol.pkt_received, and everything that reaches the loop's exception handler out of
    PortTransport._read_ready, is recorded as an "exc" event - in every phase.  Nothing is judged here.
    Returns the item for TransportLifeTrace.  Must run inside a VLoop."""
    import ramses_tx.transport as tr
    from ramses_tx.const import SZ_ACTIVE_HGI
    from ramses_tx.protocol import PortProtocol

    loop = asyncio.get_running_loop()
    _VCLOCK["loop"] = loop
    tr.is_hgi80 = lambda name: False  # type: ignore[assignment]
    evs: list[dict] = []

    def E(e: str, k: str = "", mro: list[str] | None = None) -> None:
        if not evs or evs[-1]["e"] != "end":      # the harness's own tear-down is not part of the execution
            evs.append({"e": e, "k": k, "mro": mro or []})

    proto = PortProtocol(lambda msg: None, disable_qos=False)
    kind_of: dict[str, str] = {v: k for k, v in LIFE_FRAMES.items()}
    real_rx, real_made, real_lost = proto.pkt_received, proto.connection_made, proto.connection_lost
    seen_errs: list[BaseException] = []   # kept alive: identity is how an escape is told from its echo in loop.exc
    st = {"made": False, "closed": False, "n_exc": len(loop.exc)}

    def gid_of(transport) -> str:  # noqa: ANN001
        gid = transport.get_extra_info(SZ_ACTIVE_HGI)
        return "none" if gid is None else "gwy" if gid == PortRig.GWY else "foreign" if gid == "18:222222" else str(gid)

    def pkt_received(pkt):  # noqa: ANN001, ANN202
        E("pkt", kind_of.get(str(pkt._frame), "?"))
        try:
            return real_rx(pkt)
        except Exception as err:  # noqa: BLE001 - recorded and re-raised unchanged (TLC judges the type)
            seen_errs.append(err)
            E("exc", exc_sig(err), mro_names(err))
            raise

    def connection_made(transport, ramses=False):  # noqa: ANN001, ANN202
        if not ramses:    # the call serial_asyncio's base class makes by itself: the protocol ignores it
            return real_made(transport, ramses=ramses)
        E("made", gid_of(transport))
        st["made"] = True
        return real_made(transport, ramses=ramses)

    def connection_lost(err):  # noqa: ANN001, ANN202
        E("lost")
        return real_lost(err)

    proto.pkt_received = pkt_received  # type: ignore[method-assign]
    proto.connection_made = connection_made  # type: ignore[method-assign]
    proto.connection_lost = connection_lost  # type: ignore[method-assign]

    def collect() -> None:
        """Loop-handler contexts since the last call: those raised out of _read_ready are receive-path escapes."""
        while st["n_exc"] < len(loop.exc):
            ctx = loop.exc[st["n_exc"]]
            st["n_exc"] += 1
            if is_stray(ctx):
                continue
            err = ctx.get("exception")
            if err is not None and any(err is x for x in seen_errs):
                continue    # already recorded where it left pkt_received
            names = [f.name for f in traceback.extract_tb(err.__traceback__)] if err is not None else []
            if "_read_ready" in names:
                E("exc", exc_sig(err), mro_names(err))
            else:
                LIFE_OTHER_EXC.append(f"{ctx.get('message')}: {err!r}"[:200])

    def open_port():  # noqa: ANN202
        ser = FakeSerial()
        real_write = ser.write

        def write(data: bytes) -> int:
            if b" 7FFF " in data:
                E("sig")
                kind_of.setdefault(data.decode().rstrip("\r\n").replace("18:000730", PortRig.GWY, 1), "sigecho")
            return real_write(data)

        ser.write = write  # type: ignore[method-assign]
        st["made"] = st["closed"] = False
        return ser, tr.PortTransport(ser, proto, disable_sending=not sending, loop=loop)

    def unplug(ser) -> None:  # noqa: ANN001
        try:
            loop.remove_reader(ser.fileno())
        except (OSError, ValueError):
            pass
        ser.close()

    async def spin(n: int) -> None:
        for _ in range(n):
            await asyncio.sleep(0)

    ser, t = open_port()
    try:
        await spin(4)
        for step in steps:
            if step[0] == "sleep":
                await asyncio.sleep(float(step[1]))
                collect()
                continue
            if step[0] == "lose":
                if not st["made"] or st["closed"]:
                    continue   # out of discipline: nothing to lose (yet)
                E("close", step[1])
                if step[1] == "die":
                    before = ser.reads
                    ser.die_next = True
                    ser.feed(b"")
                    for _ in range(8):
                        await asyncio.sleep(0)
                        if ser.reads > before:
                            break
                else:
                    t.close()
                st["closed"] = True
                await spin(6)
                unplug(ser)
                try:  # what a client does (and it retrieves the cause, if any, from the protocol's future)
                    await proto.wait_for_connection_lost(timeout=1)
                except Exception:  # noqa: BLE001 - the cause of the loss, handed back to the client
                    pass
                collect()
                continue
            if step[0] == "reopen":
                if not st["closed"]:
                    continue
                E("open")
                ser, t = open_port()
                await spin(4)
                collect()
                continue
            kind = step[1]
            if st["closed"]:
                continue   # nothing reads a port that has been unplugged
            if kind == "sigecho":
                sigs = [w for w in ser.written if b" 7FFF " in w]
                if not sigs:
                    continue   # no signature on the air yet: nothing to echo
                frame = sigs[0].decode().rstrip("\r\n").replace("18:000730", PortRig.GWY, 1)
            else:
                frame = LIFE_FRAMES[kind]
            E("rx", kind)
            before = ser.reads
            ser.feed(f"045 {frame}\r\n".encode())
            for _ in range(8):
                await asyncio.sleep(0)
                if ser.reads > before:
                    break
            await spin(4)
            collect()
        await asyncio.sleep(3.0)
        await spin(6)
        collect()
        E("end", gid_of(t))
    finally:
        try:
            t.close()
        finally:
            unplug(ser)
    return {"maxtrys": int(tr._SIGNATURE_MAX_TRYS), "sending": int(sending), "ev": evs}


async def run_paused(steps: list[list]) -> dict:
    """The receive path of a real PortTransport/PortProtocol while the real Engine._pause()/_resume() park and restore the
    protocol (what get_state() and a cache restore do around their work).  steps: ["pause"] | ["resume"] | ["line", text, good].
    Returns the item for spec/RxPaused.tla.  Must run inside a VLoop."""
    import threading
    import types

    from ramses_tx.gateway import Engine

    rig = await PortRig.create()
    evs: list[dict] = []
    eng = types.SimpleNamespace(_engine_lock=threading.Lock(), _engine_state=None, _protocol=rig.proto, _transport=rig.tr,
                                _disable_sending=False)
    k = 0
    try:
        for st in steps:
            if st[0] == "pause":
                Engine._pause(eng)
                evs.append({"e": "pause", "k": 0, "good": 0, "what": ""})
            elif st[0] == "resume":
                Engine._resume(eng)
                evs.append({"e": "resume", "k": 0, "good": 0, "what": ""})
            else:
                k += 1
                rig.events.clear()
                rig.frame_to_k = {st[1]: k}
                evs.append({"e": "line", "k": k, "good": int(st[2]), "what": ""})
                try:
                    await rig.read(f"045 {st[1]}\r\n".encode())
                except Exception as err:  # noqa: BLE001 - recorded, judged by TLC
                    evs.append({"e": "exc", "k": k, "good": 0, "what": f"{type(err).__name__}@read"})
                for e in rig.events:
                    if e["e"] == "msg":
                        evs.append({"e": "msg", "k": e["k"], "good": 0, "what": ""})
                    elif e["e"] == "exc":
                        evs.append({"e": "exc", "k": k, "good": 0, "what": f"{(e.get('mro') or ['?'])[0]}@loop"})
        evs.append({"e": "end", "k": 0, "good": 0, "what": ""})
    finally:
        rig.close()
    return {"ev": evs}


def life_schedules(full: bool) -> list[tuple[list[list], bool]]:
    """Systematic: where, relative to the signature writes (one every 50 ms, at most _SIGNATURE_MAX_TRYS), the echo
    and other packets arrive - before the first write, between writes, right at a write, during the last sleep,
    after the transport has given up, never; foreign signatures around it; read-only transports."""
    out: list[tuple[list[list], bool]] = []
    gaps = [0.0, 0.01, 0.049, 0.05, 0.051, 0.12, 1.94, 1.99, 2.01, 2.5] if full else [0.0, 0.02, 0.05, 0.12, 1.99, 2.5]
    for g in gaps:
        for pre in ([], [["rx", "other"]], [["rx", "foreignsig"]], [["rx", "other"], ["rx", "foreignsig"]]):
            for post in ([], [["rx", "other"]], [["rx", "foreignsig"], ["rx", "other"]]):
                out.append((pre + [["sleep", g], ["rx", "sigecho"]] + post, True))
                out.append((pre + [["sleep", g], ["rx", "foreignsig"], ["rx", "sigecho"], ["rx", "sigecho"]] + post, True))
        out.append(([["sleep", g], ["rx", "other"], ["rx", "other"]], True))          # the echo never comes
        out.append(([["rx", "other"], ["sleep", g], ["rx", "foreignsig"], ["rx", "other"]], False))  # read-only
    # the life cycle (TransportLife!Lose / Reopen): the protocol is connected (by the echo / after the transport gave up),
    # loses its transport (closed by the application / the port dies), and is handed a new one - on which traffic
    # arrives before, between and after the new signature writes, the echo in time, late or never
    other, fsig = ["rx", "other"], ["rx", "foreignsig"]
    firsts = [[["sleep", 0.02], ["rx", "sigecho"], other, ["sleep", 0.2]], [other, ["sleep", 2.5]]]
    gaps2 = [0.0, 0.02, 0.049, 0.051, 0.12, 1.99, 2.5] if full else [0.0, 0.02, 0.12, 2.5]
    for how in ("close", "die"):
        for first in firsts:
            again = first + [["lose", how], ["reopen"]]
            for pre in ([], [other], [fsig], [other, fsig]):
                for g in gaps2:
                    for post in ([], [other]):
                        out.append((again + pre + [["sleep", g], ["rx", "sigecho"]] + post, True))
            out.append((again + [other, ["sleep", 1.0], other], True))                      # the echo never comes
            out.append((first + [["lose", how], ["sleep", 1.0]], True))                     # lost for good
            third = again + [other, ["sleep", 0.02], ["rx", "sigecho"], other, ["sleep", 0.2], ["lose", how], ["reopen"]]
            for pre in ([], [other]) + (([fsig], [other, fsig]) if full else ()):
                out.append((third + pre + [["sleep", 0.02], ["rx", "sigecho"], other], True))  # lost and re-connected twice
        out.append(([other, ["sleep", 0.1], ["lose", how], ["reopen"], other, fsig, ["sleep", 0.1], other], False))  # read-only
    return out


# --------------------------------------------------------------------------------------
# gateway chatter ("gateway chatter never prevent[s] the lines that follow ... from being decoded and delivered")

CHATTER_LEADS = ("#", "!", "*")
CHATTER_TOKENS = ("evofw3", "0.7.1", "0.7.1-beta", "0.7", "v1", "", "\u00b5", "x" * 120)


def chatter_family(full: bool) -> list[tuple[str, int]]:
    """[(line, number of tokens)]: what a serial gateway says for itself rather than relays (evofw3: '# evofw3 0.7.1' at boot and in reply to !V,
    '!C ...' echoes of commands, '* ...' diagnostics), generated systematically instead of quoted from one firmware:
    lead x {no space, space} x every sequence of 0..2 tokens (0..3 in the thorough tier) over the token alphabet (a name, dotted
    versions - numeric, with a suffix, short -, a word, the empty token = doubled / trailing blanks, a non-ASCII
    character, a very long word), plus, for 3..5 tokens, every (position, token) pair over a rotating filler."""
    import itertools

    T = CHATTER_TOKENS
    seqs: list[tuple[str, ...]] = []
    for n in range(0, 4 if full else 3):
        seqs += list(itertools.product(T, repeat=n))
    for n in range(4 if full else 3, 6):
        for pos in range(n):
            for ti, tok in enumerate(T):
                seqs.append(tuple(tok if j == pos else T[(ti + j + n) % len(T)] for j in range(n)))
    out: dict[str, int] = {}
    for lead in CHATTER_LEADS:
        for sep in ("", " "):
            for sq in seqs:
                out.setdefault(lead + sep + " ".join(sq), len(sq))
    return list(out.items())


def chatter_lines(full: bool) -> list[str]:
    return [ln for ln, _n in chatter_family(full)]


# --------------------------------------------------------------------------------------
# packet log / packet dict


class _FromFileTap:
    """Wraps Packet.from_file (what every transport's _frame_read calls) to record its outcome."""

    def __init__(self) -> None:
        from ramses_tx.packet import Packet

        self.Packet = Packet
        self.orig = Packet.__dict__["from_file"]
        self.sink: Any = None

        tap = self

        def from_file(cls, dtm, pkt_line):  # noqa: ANN001
            try:
                pkt = tap.orig.__func__(cls, dtm, pkt_line)
            except Exception as err:  # noqa: BLE001 - re-raised unchanged
                if tap.sink is not None:
                    tap.sink(dtm, pkt_line, err)
                raise
            if tap.sink is not None:
                tap.sink(dtm, pkt_line, None)
            return pkt

        Packet.from_file = classmethod(from_file)  # type: ignore[method-assign]

    def remove(self) -> None:
        self.Packet.from_file = self.orig  # type: ignore[method-assign]


_TAP: _FromFileTap | None = None


def tap() -> _FromFileTap:
    global _TAP
    if _TAP is None:
        _TAP = _FromFileTap()
    return _TAP


async def run_source(lines: list[tuple[bool, str, str]], as_dict: bool, tmpdir: str
                     ) -> tuple[list[dict], list[str]]:
    """Replay `lines` = [(bare, dtm, rest)] through the real FileTransport + ReadProtocol.

    dtm   a 26-character timestamp column, unique per line (well-formed or not)
    log : each line is written as f"{dtm} {rest}\\n", a bare line (blank, comment) as f"{rest}\\n"
    dict: {dtm: rest} for every line
    Returns (events, exception signatures); k in the events = 1-based line number."""
    from ramses_tx.protocol import ReadProtocol
    from ramses_tx.transport import transport_factory

    loop = asyncio.get_running_loop()
    events: list[dict] = []
    sigs: list[str] = []
    key_to_k: dict[tuple[str, str], int] = {}
    dtm_to_k: dict[str, int] = {}
    n0 = len(loop.exc)

    src_lines: list[str] = []
    src_dict: dict[str, str] = {}
    for k, (bare, dtm, rest) in enumerate(lines, 1):
        src_lines.append((rest if bare else f"{dtm} {rest}") + "\n")
        src_dict[dtm] = rest
        key_to_k[(dtm, rest.strip())] = k
        dtm_to_k[dtm] = k
    if len(src_dict) != len(lines):
        raise ValueError("run_source: timestamps must be unique")

    def on_msg(msg) -> None:
        events.append(ev("msg", dtm_to_k.get(msg.dtm.isoformat(timespec="microseconds"), 0)))

    def sink(dtm, pkt_line, err) -> None:
        k = key_to_k.get((dtm, pkt_line.strip()), 0)
        events.append(ev("out", k, ENTRY["from_file"], mro_names(err), err=err))
        if err is not None:
            note_sig(sigs, err)

    proto = ReadProtocol(on_msg)
    real_pkt_received = proto.pkt_received
    real_lost = proto.connection_lost
    ended = loop.create_future()

    def pkt_received(pkt):
        events.append(ev("pkt", dtm_to_k.get(pkt.dtm.isoformat(timespec="microseconds"), 0)))
        return real_pkt_received(pkt)

    def connection_lost(err):
        events.append(ev("end", 0, SITE["reader"], mro_names(err), err=err))
        if err is not None:
            note_sig(sigs, err)
        if not ended.done():
            ended.set_result(None)
        return real_lost(err)

    proto.pkt_received = pkt_received  # type: ignore[method-assign]
    proto.connection_lost = connection_lost  # type: ignore[method-assign]

    t = tap()
    t.sink = sink
    fh = None
    try:
        if as_dict:
            await transport_factory(proto, packet_dict=src_dict)
        else:
            path = os.path.join(tmpdir, "replay.log")
            with open(path, "w") as w:
                w.writelines(src_lines)
            fh = open(path)  # noqa: SIM115 - TextIOWrapper handed to the transport
            await transport_factory(proto, packet_log=fh)
        try:
            await asyncio.wait_for(ended, timeout=30)
        except TimeoutError:
            events.append(ev("exc", 0, SITE["reader"], ["harness.NoConnectionLost"]))
        for _ in range(6):
            await asyncio.sleep(0)
        try:  # what a client (Gateway.start) does; also keeps the future's exception from surfacing
            await proto.wait_for_connection_lost(timeout=5)  # at GC time as "never retrieved"
        except Exception:  # noqa: BLE001 - already recorded by the connection_lost tap
            pass
    finally:
        t.sink = None
        if fh is not None:
            fh.close()
    for ctx in loop.exc[n0:]:
        if is_stray(ctx):
            continue
        err = ctx.get("exception")
        events.append(ev("exc", 0, SITE["loop"], mro_names(err) or ["?"], err=err))
        note_sig(sigs, err, "loop:" + str(ctx.get("message"))[:40])
    return events, sigs


# --------------------------------------------------------------------------------------
# MQTT


class _StubMqttClient:
    def __init__(self, *a: Any, **kw: Any) -> None:
        self.published: list = []

    def username_pw_set(self, *a: Any) -> None: ...
    def connect_async(self, *a: Any, **kw: Any) -> None: ...
    def loop_start(self) -> None: ...
    def loop_stop(self) -> None: ...
    def subscribe(self, *a: Any, **kw: Any) -> None: ...
    def unsubscribe(self, *a: Any, **kw: Any) -> None: ...
    def disconnect(self) -> None: ...

    def publish(self, topic, payload=None, qos=0):  # noqa: ANN001
        self.published.append((topic, payload))
        return True


class _Msg:
    def __init__(self, topic: str, payload: bytes) -> None:
        self.topic, self.payload, self.timestamp = topic, payload, 0.0


class MqttRig:
    """Real MqttTransport + PortProtocol with a stub paho client (no thread, no broker)."""

    TOPIC = "RAMSES/GATEWAY/18:111111"

    @classmethod
    async def create(cls) -> "MqttRig":
        import ramses_tx.transport as tr
        from ramses_tx.protocol import PortProtocol

        self = cls()
        self.loop = asyncio.get_running_loop()
        self.events: list[dict] = []
        self.sigs: list[str] = []
        self.frame_to_k: dict[str, int] = {}
        self.proto = PortProtocol(lambda m: self.events.append(
            ev("msg", self.frame_to_k.get(str(m._pkt._frame), 0), f=str(m._pkt._frame))), disable_qos=False)
        real = self.proto.pkt_received

        def pkt_received(pkt):
            self.events.append(ev("pkt", self.frame_to_k.get(str(pkt._frame), 0), f=str(pkt._frame)))
            return real(pkt)

        self.proto.pkt_received = pkt_received  # type: ignore[method-assign]
        old = tr.mqtt.Client
        tr.mqtt.Client = _StubMqttClient  # type: ignore[misc]
        try:
            self.tr = tr.MqttTransport("mqtt://u:p@localhost:1883", self.proto, loop=self.loop)
        finally:
            tr.mqtt.Client = old  # type: ignore[misc]
        self.tr._on_message(self.tr.client, None, _Msg(self.TOPIC, b"online"))
        for _ in range(4):
            await asyncio.sleep(0)
        if self.proto._transport is not self.tr:
            raise RuntimeError("MqttRig: transport did not connect")
        self.n_loop_exc = len(self.loop.exc)
        return self

    async def message(self, ts: str, line: str) -> None:
        import json

        self.n_loop_exc = len(self.loop.exc)  # anything older belongs to another rig on the same loop
        self.events.append(ev("read", len(line), 1))
        payload = json.dumps({"msg": line, "ts": ts}).encode()
        try:
            self.tr._on_message(self.tr.client, None, _Msg(self.TOPIC + "/rx", payload))
        except Exception as err:  # noqa: BLE001 - would be raised inside paho's network thread
            self.events.append(ev("exc", 0, SITE["on_message"], mro_names(err), err=err))
            note_sig(self.sigs, err)
        for _ in range(4):
            await asyncio.sleep(0)
        while self.n_loop_exc < len(self.loop.exc):
            ctx = self.loop.exc[self.n_loop_exc]
            self.n_loop_exc += 1
            if is_stray(ctx):
                continue
            err = ctx.get("exception")
            self.events.append(ev("exc", 0, SITE["loop"], mro_names(err) or ["?"], err=err))
            note_sig(self.sigs, err, "loop")

    def take(self) -> tuple[list[dict], list[str]]:
        evs, sg = self.events, self.sigs
        self.events, self.sigs = [], []
        return evs, sg

    def close(self) -> None:
        self.tr.close()


# --------------------------------------------------------------------------------------
# batch validation tolerant of TLC's pretty-printer (long VERDICT tuples are wrapped over lines,
# which harness.tlc.validate_batch's line-based parser does not see)


def validate_batch(module: str, items: list, *, workers: int | str = 4, chunk: int = 1500,
                   timeout: float = 1500, env: dict | None = None) -> dict:
    """Same contract as harness.tlc.validate_batch (one <<"VERDICT", tid, fail>> per item; a missing
    verdict or any TLC error is a MachineryFailure), but VERDICT values may span several lines."""
    import json
    import re
    import shutil
    import tempfile

    from harness import tlc

    rejects: list[tuple[int, Any]] = []
    states = trans = 0
    wall = 0.0
    tmp = tempfile.mkdtemp(prefix="vtrc_")
    try:
        for base in range(0, len(items), chunk):
            part = items[base: base + chunk]
            f = os.path.join(tmp, f"batch_{base}.json")
            with open(f, "w") as fh:
                json.dump(part, fh, separators=(",", ":"))
            e = {"TRACE_FILE": f}
            e.update(env or {})
            r = tlc.run_tlc(module, None, workers=workers, env=e, timeout=timeout, parse_prints=False,
                            java_opts=["-Xss16m"])
            wall += r.wall_s
            if not r.ok:
                raise tlc.MachineryFailure(f"TLC failed on batch {module} base={base}: violated={r.violated} "
                                           f"errors={r.errors[:3]}\n{r.out[-3000:]}")
            seen = set()
            for m in re.finditer(r'<<\s*"VERDICT"', r.out):
                p = tlc._P(r.out)
                p.i = m.start()
                v = p.value()
                seen.add(v[1])
                if v[2] != ():
                    rejects.append((base + v[1] - 1, v[2]))
            if len(seen) != len(part):
                raise tlc.MachineryFailure(f"{module}: {len(part) - len(seen)} of {len(part)} items got no "
                                           f"verdict (base={base})\n{r.out[-2000:]}")
            states += r.distinct
            trans += r.states
            os.unlink(f)
        return {"n": len(items), "rejects": sorted(rejects, key=lambda x: x[0]), "states": states,
                "transitions": trans, "wall_s": wall}
    finally:
        shutil.rmtree(tmp, ignore_errors=True)


# --------------------------------------------------------------------------------------
# a whole Gateway replaying a packet log (what a user of the library does)


async def run_gateway(lines: list[tuple[bool, str, str]], tmpdir: str) -> tuple[list[dict], list[str]]:
    """ramses_rf.Gateway(None, input_file=log).start() on `lines` (same triples as run_source).
    Events: msg k (handler added with add_msg_handler), end mro (what start() raised, [] if it returned).
    Exceptions of the gateway's own message processing (entities, schema) are outside C01: loop
    exceptions are not recorded here."""
    from ramses_rf import Gateway

    events: list[dict] = []
    sigs: list[str] = []
    dtm_to_k = {dtm: k for k, (_b, dtm, _r) in enumerate(lines, 1)}
    path = os.path.join(tmpdir, "gwy.log")
    with open(path, "w") as w:
        w.writelines((rest if bare else f"{dtm} {rest}") + "\n" for bare, dtm, rest in lines)
    fh = open(path)  # noqa: SIM115
    try:
        gwy = Gateway(None, input_file=fh, config={"disable_discovery": True, "enforce_known_list": False})
        gwy.add_msg_handler(
            lambda m: events.append(ev("msg", dtm_to_k.get(m.dtm.isoformat(timespec="microseconds"), 0))))
        try:
            await gwy.start()
        except Exception as err:  # noqa: BLE001 - recorded, judged by TLC
            events.append(ev("end", 0, SITE["reader"], mro_names(err), err=err))
            note_sig(sigs, err)
        else:
            events.append(ev("end", 0, SITE["reader"], []))
        for _ in range(8):
            await asyncio.sleep(0)
        try:
            await gwy.stop()
        except Exception:  # noqa: BLE001
            pass
    finally:
        fh.close()
    return events, sigs

"""Binding of spec/Dispatch.tla to ramses_rf.dispatcher.process_msg (used by checks/c10.py, stage "dispatch").

For every (gateway configuration, message) the harness
  * reads the facts `q` that process_msg consults off the live objects - with its own small evaluation of the
    filter-list rule (it does not call get_device), the library's own class tables for the verb/code membership,
  * hands the message to Gateway._msg_handler (what a protocol - the port's or the restore path's temporary one -
    does) with the loop's call_soon tapped, and records what came into being and whose _handle_msg was scheduled,
  * and leaves the comparison with Dispatch!Route(q) and the C10 clauses to TLC (spec/DispatchTrace.tla).
"""
from __future__ import annotations

import asyncio
import logging
import re
from typing import Any

from harness import fakes, vloop

GWY = fakes.GWY_ID
CTL, TRV, THM, BDR = "01:111111", "04:111111", "34:111111", "13:111111"
REM, FAN = "32:111111", "30:111111"
CTL2, HGI2 = "01:222222", "18:222222"
NEW_TRV, NEW_THM, BLK, NEW_REM = "04:222222", "34:222222", "04:999999", "32:222222"

_OFFER = "0022F1{h}6C10E0{h}001FC9{h}"


def _hx(dev_id: str) -> str:
    from ramses_tx.address import dev_id_to_hex_id
    return dev_id_to_hex_id(dev_id)


def catalogue() -> list[tuple[str, str]]:
    """(name, frame): messages chosen to meet the branches of process_msg; all are packets the library accepts."""
    c = [
        ("ctl-self-sync", f" I --- {CTL} --:------ {CTL} 1F09 003 FF0708"),
        ("ctl-self-array", f" I --- {CTL} --:------ {CTL} 2309 006 0107D0020834"),
        ("trv-to-ctl-I", f" I --- {TRV} --:------ {CTL} 3150 002 0164"),
        ("trv-to-ctl-RQ", f"RQ --- {TRV} {CTL} --:------ 0004 002 0100"),
        ("trv-tx-not-its-code", f" I --- {TRV} --:------ {TRV} 1F09 003 FF0708"),
        ("trv-rq-code-ctl-does-not-answer", f"RQ --- {TRV} {CTL} --:------ 22D9 001 00"),
        ("thm-rq-to-trv", f"RQ --- {THM} {TRV} --:------ 30C9 001 00"),
        ("ctl-rp-to-gateway", f"RP --- {CTL} {GWY} --:------ 30C9 003 0107D0"),
        ("gateway-rq-to-ctl", f"RQ --- {GWY} {CTL} --:------ 30C9 001 01"),
        ("gateway-rq-to-new", f"RQ --- {GWY} {NEW_TRV} --:------ 0016 002 00FF"),
        ("gateway-w-to-ctl", f" W --- {GWY} {CTL} --:------ 2309 003 0107D0"),
        ("other-hgi-rq-to-ctl", f"RQ --- {HGI2} {CTL} --:------ 30C9 001 01"),
        ("thm-w-to-ctl", f" W --- {THM} {CTL} --:------ 2309 003 0107D0"),
        ("thm-self", f" I --- {THM} --:------ {THM} 30C9 003 0007D0"),
        ("new-trv-to-ctl", f" I --- {NEW_TRV} --:------ {CTL} 3150 002 0164"),
        ("new-trv-self", f" I --- {NEW_TRV} --:------ {NEW_TRV} 30C9 003 0007D0"),
        ("blocked-trv-to-ctl", f" I --- {BLK} --:------ {CTL} 3150 002 0164"),
        ("blocked-trv-self", f" I --- {BLK} --:------ {BLK} 30C9 003 0007D0"),
        ("blocked-trv-to-new-ctl", f" I --- {BLK} --:------ {CTL2} 3150 002 0164"),
        ("blocked-trv-rq-to-new-thm", f"RQ --- {BLK} {NEW_THM} --:------ 30C9 001 00"),
        ("new-thm-rq-to-new-trv", f"RQ --- {NEW_THM} {NEW_TRV} --:------ 30C9 001 00"),
        ("new-trv-to-new-ctl", f" I --- {NEW_TRV} --:------ {CTL2} 3150 002 0164"),
        ("new-trv-to-blocked", f" I --- {NEW_TRV} {BLK} --:------ 30C9 003 0007D0"),
        ("ctl-rp-to-new-trv", f"RP --- {CTL} {NEW_TRV} --:------ 0004 022 01005A6F6E6520310000000000000000000000000000"),
        ("ctl-rp-to-blocked-trv", f"RP --- {CTL} {BLK} --:------ 0004 022 01005A6F6E6520310000000000000000000000000000"),
        ("ctl-i-to-fakeable-thm", f" I --- {CTL} {THM} --:------ 2309 003 0107D0"),
        ("ctl-rp-to-fakeable-thm", f"RP --- {CTL} {THM} --:------ 2309 003 0107D0"),
        ("ctl-rp-to-new-thm", f"RP --- {CTL} {NEW_THM} --:------ 2309 003 0107D0"),
        ("ctl-rq-to-bdr", f"RQ --- {CTL} {BDR} --:------ 3EF1 001 00"),
        ("thm-rq-3ef1-to-ctl", f"RQ --- {THM} {CTL} --:------ 3EF1 001 00"),
        ("new-thm-rq-3ef0-to-bdr", f"RQ --- {NEW_THM} {BDR} --:------ 3EF0 001 00"),
        ("two-controllers-heat-only-code", f" I --- {CTL2} --:------ {CTL} 1F09 003 FF0708"),
        ("two-trvs-heat-code", f" I --- {NEW_TRV} {TRV} --:------ 30C9 003 0007D0"),
        ("rem-offer-self", f" I --- {REM} --:------ {REM} 1FC9 018 " + _OFFER.format(h=_hx(REM))),
        ("rem-offer-bcast", f" I --- {REM} 63:262142 --:------ 1FC9 018 " + _OFFER.format(h=_hx(REM))),
        ("new-rem-offer-bcast", f" I --- {NEW_REM} 63:262142 --:------ 1FC9 018 " + _OFFER.format(h=_hx(NEW_REM))),
        ("rem-10e0-bcast", f" I --- {REM} 63:262142 --:------ 10E0 030 000001C85A01016CFFFFFFFFFFFF010607E0564D4E2D32334C4D48323300"),
        ("fan-accept-to-rem", f" W --- {FAN} {REM} --:------ 1FC9 006 2131DA" + _hx(FAN)),
        ("rem-trail-shaped", f" I --- --:------ --:------ {REM} 22F1 003 000204"),
        ("new-rem-trail-shaped", f" I --- --:------ --:------ {NEW_REM} 22F1 003 000204"),
        ("fan-state-self", f" I --- {FAN} --:------ {FAN} 31D9 003 000064"),
        ("rem-to-fan", f" I --- {REM} {FAN} --:------ 22F1 003 000204"),
        ("bdr-self", f" I --- {BDR} --:------ {BDR} 3EF0 003 00C8FF"),
        ("bdr-rp-to-gateway", f"RP --- {BDR} {GWY} --:------ 3EF1 007 0000780078C8FF"),
    ]
    return c


def configs(full: bool) -> list[dict]:
    out = []
    for rp in (0, 1, 2):
        for eav in (False, True):
            for enf in (False, True):
                for binding in ((False, True) if full or (rp == 0) else (False,)):
                    for unwanted in ((False, True) if full or (rp == 0 and not enf) else (False,)):
                        out.append({"rp": rp, "eav": eav, "enf": enf, "binding": binding, "unwanted": unwanted})
    return out


def _filter_ok(gwy: Any, dev_id: str) -> bool:
    """Gateway.get_device.check_filter_lists, evaluated without calling it (it has side effects)."""
    if dev_id == gwy._protocol.hgi_id:   # "have to allow for GWY not being in known_list"
        return True
    if dev_id in gwy._unwanted:
        return False
    if gwy._enforce_known_list and dev_id not in gwy._include and dev_id != getattr(gwy.hgi, "id", None):
        return False
    return dev_id not in gwy._exclude


def _slug_cls(slug: Any) -> str:
    from ramses_tx.const import DevType
    from ramses_tx.ramses import CODES_BY_DEV_SLUG
    if slug in (None, DevType.HGI, DevType.DEV, DevType.HEA, DevType.HVC):
        return "generic"
    return "known" if slug in CODES_BY_DEV_SLUG else "unknown"


async def run_config(cfg: dict, frames: list[tuple[str, str]]) -> list[dict]:
    """One fresh gateway per message (so that `exists` means "configured", not "seen earlier in this run")."""
    import ramses_rf.gateway as rfgw
    from ramses_rf.device import Fakeable
    from ramses_tx.const import DEV_TYPE_MAP, DevType
    from ramses_tx.message import Message
    from ramses_tx.ramses import CODES_BY_DEV_SLUG, CODES_OF_HEAT_DOMAIN_ONLY

    rows: list[dict] = []
    known = {GWY: {"class": "HGI"}, CTL: {"class": "CTL"}, TRV: {"class": "TRV"}, THM: {"class": "THM", "faked": True},
             BDR: {"class": "BDR"}, REM: {"class": "REM", "scheme": "nuaire", "faked": True},
             FAN: {"class": "FAN", "scheme": "nuaire"}}
    schema = {"main_tcs": CTL, CTL: {"zones": {"01": {"sensor": THM, "actuators": [TRV]}},
                                      "system": {"appliance_control": BDR}},
              "orphans_hvac": [REM, FAN]}
    for name, frame in frames:
        gwy, tr = await fakes.make_port_gateway(
            config={"disable_discovery": True, "enable_eavesdrop": cfg["eav"], "enforce_known_list": cfg["enf"],
                    "reduce_processing": cfg["rp"]},
            known_list=known, schema=schema, block_list={BLK: {}})
        try:
            if cfg["unwanted"]:     # ids the gateway has refused before (e.g. an invalid device seen earlier)
                gwy._unwanted.extend([NEW_TRV, NEW_THM])
            waiting = None
            if cfg["binding"]:      # the faked thermostat is waiting for a binding request
                thm = gwy.device_by_id[THM]
                waiting = asyncio.get_running_loop().create_task(thm._wait_for_binding_request(["30C9"], idx="00"))
                for _ in range(5):
                    await asyncio.sleep(0)
            try:
                msg = Message(tr.make_pkt(frame))
                _ = msg.payload
            except Exception:  # noqa: BLE001 - not a message the library accepts: not part of the table
                continue
            src_id, dst_id = msg.src.id, msg.dst.id
            before = set(gwy.device_by_id)
            hgi = gwy.hgi
            q: dict[str, Any] = {
                "rp": cfg["rp"], "eav": bool(cfg["eav"]),
                "pairBad": bool(src_id != dst_id and msg.src.type == msg.dst.type
                                and msg.src.type in DEV_TYPE_MAP.HEAT_DEVICES and msg.code in CODES_OF_HEAT_DOMAIN_ONLY),
                "srcEx": src_id in before, "srcOk": _filter_ok(gwy, src_id),
                # (gwy.hgi is looked up after the source has been created: what counts is the id the transport reports)
                "srcActive": bool(src_id == gwy._transport.get_extra_info("active_gwy")),
                "verb": msg.verb.strip(),
                "dst": "self" if dst_id == src_id else "null" if dst_id == "--:------" else
                       "bcast" if dst_id == "63:262142" else "other",
                "dstEx": dst_id in before, "dstOk": _filter_ok(gwy, dst_id),
                "offer": bool(msg.code == "1FC9" and isinstance(msg.payload, dict) and msg.payload.get("phase") == "offer"),
            }
            # -- the message goes in; the loop's call_soon is tapped while process_msg runs ------------------
            sched: list[Any] = []
            loop = gwy._loop
            real_call_soon = loop.call_soon

            def tap(cb, *a, **kw):  # noqa: ANN001, ANN202
                if getattr(cb, "__name__", "") == "_handle_msg":
                    sched.append(cb.__self__)
                return real_call_soon(cb, *a, **kw)

            logs: list[str] = []

            class _Tap(logging.Handler):
                def emit(self, record: logging.LogRecord) -> None:
                    m = record.getMessage()     # the exception branches log "<pkt> < <ExceptionClass>(<text>)"
                    if record.levelno >= logging.WARNING and re.search(r" < [A-Za-z]+\(", m):
                        logs.append(m[-120:])

            lg = logging.getLogger("ramses_rf.dispatcher")
            h = _Tap()
            old_level, old_disable = lg.level, logging.root.manager.disable
            logging.disable(logging.NOTSET)
            lg.addHandler(h)
            lg.setLevel(logging.WARNING)
            loop.call_soon = tap  # type: ignore[method-assign]
            raised = ""
            try:
                gwy._msg_handler(msg)
            except Exception as err:  # noqa: BLE001
                raised = type(err).__name__
            finally:
                loop.call_soon = real_call_soon  # type: ignore[method-assign]
                lg.removeHandler(h)
                lg.setLevel(old_level)
                logging.disable(old_disable)
            # -- facts that only exist once the devices do (classes do not change inside process_msg) ------
            after = gwy.device_by_id
            sdev, ddev = after.get(src_id), after.get(dst_id)
            sslug = getattr(sdev, "_SLUG", None)
            dslug = getattr(ddev, "_SLUG", None)
            verb, code = msg.verb, msg.code
            q["srcHgiCls"] = sslug == DevType.HGI
            q["srcSlug"] = _slug_cls(sslug)
            known_s = q["srcSlug"] == "known"
            q["srcCode"] = (code in CODES_BY_DEV_SLUG[sslug]) if known_s else True
            q["srcVerb"] = (verb in CODES_BY_DEV_SLUG[sslug].get(code, ())) if known_s else True
            q["dstSlug"] = _slug_cls(dslug) if q["dst"] != "self" else q["srcSlug"]
            known_d = q["dstSlug"] == "known" and q["dst"] != "self"
            q["dstHack1"] = bool(known_d and f"{dslug}/{verb}/{code}" == "CTL/RQ/3EF1")
            q["dstCode"] = (code in CODES_BY_DEV_SLUG[dslug]) if known_d else True
            q["dstHack2"] = bool(known_d and (f"{verb}/{code}" == " W/0001" or f"{dslug}/{verb}/{code}" == "BDR/RQ/3EF0"))
            want = {"RQ": "RP", "RP": "RQ", " W": " I"}.get(verb)
            q["dstVerb"] = (want in CODES_BY_DEV_SLUG[dslug].get(code, ())) if known_d and want else True
            q["dstFake"] = isinstance(ddev, Fakeable) if q["dst"] != "self" else isinstance(sdev, Fakeable)
            q["srcHasDevs"] = hasattr(sdev, "devices")
            others = [d for d in gwy.devices if d is not sdev]
            q["nBinding"] = sum(1 for d in others if d._is_binding)
            q["nFaked"] = sum(1 for d in others if d.is_faked)
            # -- what happened -----------------------------------------------------------------------------
            new = set(after) - before
            created = sorted({"src" if i == src_id else "dst" if i == dst_id else "other" for i in new})
            src_first = bool(sched) and sched[0] is sdev and sched.count(sdev) == 1 and sdev is not None
            rest = sched[1:] if src_first else list(sched)
            if not rest:
                tag, cnt = "none", 0
            elif len(rest) == 1 and rest[0] is ddev and q["dst"] != "self" and not q["offer"] and q["dst"] != "bcast":
                tag, cnt = "dst", 1
            elif q["offer"] and all(d._is_binding for d in rest) and len(set(map(id, rest))) == len(rest):
                tag, cnt = "binding", len(rest)
            elif q["dst"] == "bcast" and all(d.is_faked for d in rest) and len(set(map(id, rest))) == len(rest):
                tag, cnt = "faked", len(rest)
            else:
                tag, cnt = "unexpected", len(rest)
            if not sched and q["offer"]:
                tag, cnt = "none", 0
            obs = {"created": created, "srcFirst": src_first, "nobody": not sched, "tag": tag, "cnt": cnt,
                   "processed": not logs and not raised, "raised": raised, "log": logs[:1],
                   "sched": [getattr(d, "id", "?") for d in sched]}
            # a group of size 0 is reported by the model as <<tag, 0>>: align the observation's tag with it
            if tag == "none" and src_first:
                if q["offer"]:
                    obs["tag"], obs["cnt"] = "binding", 0
                elif q["dst"] == "bcast":
                    obs["tag"], obs["cnt"] = "faked", 0
            rows.append({"name": name, "frame": frame, "q": q, "obs": obs})
            if waiting is not None:
                waiting.cancel()
                try:
                    await waiting
                except BaseException:  # noqa: BLE001
                    pass
        finally:
            await gwy.stop()
    return rows


def execute(cfgs: list[dict]) -> list[dict]:
    items = []
    frames = catalogue()
    for cfg in cfgs:
        rows, loop = vloop.run(lambda cfg=cfg: run_config(cfg, frames))
        items.append({"cfg": cfg, "rows": rows, "loop_exc": len(loop.exc)})
    return items

"""C04 helper: tabulate the real wire codecs as rows of classes + integers (no judgement here).

Row layouts and class codes are documented in spec/WireCodecTrace.tla, which judges them.
Everything calls the library live (ramses_tx.helpers, ramses_tx.address, ramses_rf.system.schedule).
"""
from __future__ import annotations

import json
import os
import re
import shutil
import struct
import tempfile
import zlib
from concurrent.futures import ProcessPoolExecutor
from datetime import datetime as _dt
from typing import Any, Callable

from harness import tlc as _tlc
from ramses_rf.system import schedule as S
from ramses_tx import address as A
from ramses_tx import helpers as H

ROWS_PER_ITEM = 256

# ----------------------------------------------------------------------------------------------
# recording primitives (trusted, tiny)


def _word(txt: Any, ndigits: int) -> tuple[int, int]:
    """(ecls, value): 0 = upper-case hex word of the expected width, 2 = anything else."""
    if isinstance(txt, str) and len(txt) == ndigits and re.fullmatch(r"[0-9A-F]*", txt):
        return 0, int(txt, 16)
    return 2, -1


def _num(v: Any, scale: int) -> tuple[int, int]:
    """(dcls, k) for a numeric result: on the grid iff the float equals k/scale exactly."""
    if isinstance(v, bool) or not isinstance(v, (int, float)):
        return 6, 0
    if v != v or abs(v) > 1e7:
        return 4, 0
    k = round(v * scale)
    return (0, k) if k / scale == v else (4, 0)


def _cls_scalar(v: Any, scale: int, boolean: bool) -> tuple[int, int]:
    if v is None:
        return 1, 0
    if boolean:
        return (0, int(v)) if isinstance(v, bool) else (6, 0)
    if v is False:
        return 2, 0
    return _num(v, scale)


# ----------------------------------------------------------------------------------------------
# scalar families


def _sp_pack(values: list[float]) -> tuple[list[str], list[int]]:
    """Real packer on a schedule holding `values` as heat set-points -> (fragments, packed words)."""
    days = []
    for d in range(7):
        part = values[d * 256: (d + 1) * 256]
        if not part and d:
            break
        days.append({"day_of_week": d, "switchpoints": [
            {"time_of_day": f"{(i // 60) % 24:02d}:{i % 60:02d}", "heat_setpoint": v} for i, v in enumerate(part)]})
    frags = S.full_sched_to_fragz({"zone_idx": "01", "schedule": days})
    raw = zlib.decompress(bytes.fromhex("".join(frags)))
    words = [struct.unpack_from("<H", raw, i + 16)[0] for i in range(0, len(raw), 20)]
    return frags, words


def _sp_unpack(frags: list[str]) -> list[Any]:
    back = S.fragz_to_full_sched(frags)
    return [sp for day in back["schedule"] for sp in day["switchpoints"]]


def _sp_cls(sp: dict) -> tuple[int, int]:
    if "heat_setpoint" in sp:
        return _num(sp["heat_setpoint"], 100)
    return 6, 0


def _sp_enc_rows(ks: list[int]) -> list[list[int]]:
    """sp enc rows for many k at once (falls back to one-by-one if the batch is refused)."""
    out: list[list[int]] = []
    for base in range(0, len(ks), 1792):
        part = ks[base: base + 1792]
        try:
            frags, words = _sp_pack([k / 100 for k in part])
            sps = _sp_unpack(frags)
            if len(words) != len(part) or len(sps) != len(part):
                raise ValueError("length")
            for k, w, sp in zip(part, words, sps):
                out.append([k, 0, w, *_sp_cls(sp)])
        except Exception:  # noqa: BLE001
            out.extend(_sp_enc_one(k) for k in part)
    return out


def _sp_enc_one(k: int) -> list[int]:
    try:
        frags, words = _sp_pack([k / 100])
    except Exception:  # noqa: BLE001
        return [k, 1, -1, 5, 0]
    try:
        sps = _sp_unpack(frags)
        return [k, 0, words[0], *_sp_cls(sps[0])]
    except Exception:  # noqa: BLE001
        return [k, 0, words[0], 3, 0]


def _sp_dec_rows(ws: list[int]) -> list[list[int]]:
    out: list[list[int]] = []
    for base in range(0, len(ws), 1792):
        part = ws[base: base + 1792]
        raw = b"".join(struct.pack("<xxxxBxxxBxxxHxxHxx", 1, i // 256, i % 256, w) for i, w in enumerate(part))
        blob = zlib.compress(raw).hex().upper()
        sps = _sp_unpack([blob])
        assert len(sps) == len(part)
        nums = [(i, sp["heat_setpoint"]) for i, sp in enumerate(sps) if "heat_setpoint" in sp]
        re_words: dict[int, tuple[int, int]] = {}
        try:
            _, words = _sp_pack([v for _, v in nums])
            for (i, _), w2 in zip(nums, words):
                re_words[i] = (0, w2)
        except Exception:  # noqa: BLE001
            for i, v in nums:
                try:
                    re_words[i] = (0, _sp_pack([v])[1][0])
                except Exception:  # noqa: BLE001
                    re_words[i] = (1, -1)
        for i, (w, sp) in enumerate(zip(part, sps)):
            dcls, dk = _sp_cls(sp)
            ecls, ew = re_words.get(i, (5, -1)) if dcls == 0 else (5, -1)
            out.append([w, dcls, dk, ecls, ew])
    return out


SCALARS: dict[str, dict[str, Any]] = {
    "temp": dict(fam="temp", p=[100], scale=100, nd=4, boolean=False,
                 enc=lambda v: H.hex_from_temp(v), dec=lambda h: H.hex_to_temp(h),
                 enc_ks=range(-70000, 70001), dec_ws=range(65536), sent=[1, 2]),
    "pct200": dict(fam="pct", p=[200], scale=200, nd=2, boolean=False,
                   enc=lambda v: H.hex_from_percent(v, high_res=True), dec=lambda h: H.hex_to_percent(h, high_res=True),
                   enc_ks=range(-50, 301), dec_ws=range(256), sent=[1]),
    "pct100": dict(fam="pct", p=[100], scale=100, nd=2, boolean=False,
                   enc=lambda v: H.hex_from_percent(v, high_res=False), dec=lambda h: H.hex_to_percent(h, high_res=False),
                   enc_ks=range(-50, 301), dec_ws=range(256), sent=[1]),
    "dbl1": dict(fam="dbl", p=[1], scale=1, nd=4, boolean=False,
                 enc=lambda v: H.hex_from_double(v, factor=1), dec=lambda h: H.hex_to_double(h, factor=1),
                 enc_ks=range(-300, 66001), dec_ws=range(65536), sent=[1]),
    "dbl10": dict(fam="dbl", p=[10], scale=10, nd=4, boolean=False,
                  enc=lambda v: H.hex_from_double(v, factor=10), dec=lambda h: H.hex_to_double(h, factor=10),
                  enc_ks=range(-300, 66001), dec_ws=range(65536), sent=[1]),
    "dbl100": dict(fam="dbl", p=[100], scale=100, nd=4, boolean=False,
                   enc=lambda v: H.hex_from_double(v, factor=100), dec=lambda h: H.hex_to_double(h, factor=100),
                   enc_ks=range(-300, 66001), dec_ws=range(65536), sent=[1]),
    "bool": dict(fam="bool", p=[1], scale=1, nd=2, boolean=True,
                 enc=lambda v: H.hex_from_bool(v), dec=lambda h: H.hex_to_bool(h),
                 enc_ks=range(0, 2), dec_ws=range(256), sent=[1]),
    "sched_setpoint": dict(fam="sp", p=[100], scale=100, nd=4, boolean=False, enc=None, dec=None,
                           enc_ks=range(-300, 66001), dec_ws=range(65536), sent=[]),
}


def _grid_value(c: dict, k: int) -> Any:
    return bool(k) if c["boolean"] else k / c["scale"]


def row_scalar_enc(name: str, k: int) -> list[int]:
    c = SCALARS[name]
    if name == "sched_setpoint":
        return _sp_enc_one(k)
    try:
        txt = c["enc"](_grid_value(c, k))
    except Exception:  # noqa: BLE001
        return [k, 1, -1, 5, 0]
    ecls, ew = _word(txt, c["nd"])
    if ecls:
        return [k, ecls, -1, 5, 0]
    try:
        d = c["dec"](txt)
    except Exception:  # noqa: BLE001
        return [k, 0, ew, 3, 0]
    return [k, 0, ew, *_cls_scalar(d, c["scale"], c["boolean"])]


def row_scalar_dec(name: str, w: int) -> list[int]:
    c = SCALARS[name]
    if name == "sched_setpoint":
        return _sp_dec_rows([w])[0]
    txt = f"{w:0{c['nd']}X}"
    try:
        d = c["dec"](txt)
    except Exception:  # noqa: BLE001
        return [w, 3, 0, 5, -1]
    dcls, dk = _cls_scalar(d, c["scale"], c["boolean"])
    if dcls != 0:
        return [w, dcls, dk, 5, -1]
    try:
        txt2 = c["enc"](d)
    except Exception:  # noqa: BLE001
        return [w, 0, dk, 1, -1]
    ecls, ew = _word(txt2, c["nd"])
    return [w, 0, dk, ecls, ew]


def row_scalar_sent(name: str, vcls: int) -> list[int]:
    c = SCALARS[name]
    v = None if vcls == 1 else False
    try:
        txt = c["enc"](v)
    except Exception:  # noqa: BLE001
        return [vcls, 1, -1, 5]
    ecls, ew = _word(txt, c["nd"])
    if ecls:
        return [vcls, ecls, -1, 5]
    try:
        d = c["dec"](txt)
    except Exception:  # noqa: BLE001
        return [vcls, 0, ew, 3]
    if d is None:
        return [vcls, 0, ew, 1]
    if d is False and not c["boolean"]:
        return [vcls, 0, ew, 2]
    return [vcls, 0, ew, 0]


# ----------------------------------------------------------------------------------------------
# flag bytes


def row_flag_dec(w: int, lsb: int) -> list[Any]:
    try:
        first = H.hex_to_flag8(f"{w:02X}", lsb=bool(lsb))
        # the decoded list belongs to the caller: editing it in place (the normal way to derive another flag byte)
        # must not change what the next decode of the same byte returns - the row carries the *second* decode
        for i in range(len(first)):
            first[i] = 1 - first[i] if first[i] in (0, 1) else first[i]
        bits = H.hex_to_flag8(f"{w:02X}", lsb=bool(lsb))
    except Exception:  # noqa: BLE001
        return [w, lsb, [], 1, -1]
    try:
        ecls, ew = _word(H.hex_from_flag8(bits, lsb=bool(lsb)), 2)
    except Exception:  # noqa: BLE001
        ecls, ew = 1, -1
    return [w, lsb, [int(b) for b in bits], ecls, ew]


def row_flag_enc(bits: list[int], lsb: int) -> list[Any]:
    try:
        txt = H.hex_from_flag8(list(bits), lsb=bool(lsb))
    except Exception:  # noqa: BLE001
        return [bits, lsb, 1, -1, 5, []]
    ecls, ew = _word(txt, 2)
    if ecls:
        return [bits, lsb, ecls, -1, 5, []]
    try:
        b2 = H.hex_to_flag8(txt, lsb=bool(lsb))
    except Exception:  # noqa: BLE001
        return [bits, lsb, 0, ew, 3, []]
    return [bits, lsb, 0, ew, 0, [int(b) for b in b2]]


# ----------------------------------------------------------------------------------------------
# date-times, dates, packed stamps

_RE_DTM = re.compile(r"(\d{4})-(\d\d)-(\d\d)T(\d\d):(\d\d):(\d\d)")
_RE_DTS = re.compile(r"(\d\d)-(\d\d)-(\d\d)T(\d\d):(\d\d):(\d\d)")
_RE_DATE = re.compile(r"(\d{1,4})-(\d\d)-(\d\d)")   # strftime("%Y") does not pad years < 1000
Z6 = [0, 0, 0, 0, 0, 0]


def _hexbytes(txt: Any, n: int) -> tuple[int, list[int]]:
    if isinstance(txt, str) and len(txt) == 2 * n and re.fullmatch(r"[0-9A-F]*", txt):
        return 0, list(bytes.fromhex(txt))
    return 2, []


def _fields(txt: Any, rx: re.Pattern) -> tuple[int, list[int]]:
    if txt is None:
        return 1, []
    m = rx.fullmatch(txt) if isinstance(txt, str) else None
    return (0, [int(g) for g in m.groups()]) if m else (6, [])


def dtm_text(f: list[int]) -> str:
    return f"{f[0]:04d}-{f[1]:02d}-{f[2]:02d}T{f[3]:02d}:{f[4]:02d}:{f[5]:02d}"


def _dtm_arg(f: list[int]) -> Any:
    """The encoders take ISO text or datetime objects: alternate (deterministically) between the forms."""
    k = (f[2] + f[3] + f[4] + f[5]) % 3
    if k == 0:
        return dtm_text(f)
    if k == 1:
        return _dt(*f)
    return dtm_text(f).replace("T", " ")


def row_dtm_enc(f: list[int], dst: int, incl: int, none_dst: bool = False) -> list[Any]:
    try:
        # none_dst: the flag given as None (what the decoder reports for a clear DST bit, and what a caller who
        # passes a decoded payload back hands over) - it must encode as "not DST", like False
        txt = H.hex_from_dtm(_dtm_arg(f), is_dst=None if none_dst else bool(dst), incl_seconds=bool(incl))
    except Exception:  # noqa: BLE001
        return [f, dst, incl, 1, [], 5, Z6]
    ecls, b = _hexbytes(txt, 7 if incl else 6)
    if ecls:
        return [f, dst, incl, ecls, [], 5, Z6]
    try:
        d = H.hex_to_dtm(txt)
    except Exception:  # noqa: BLE001
        return [f, dst, incl, 0, b, 3, Z6]
    dcls, f2 = _fields(d, _RE_DTM)
    return [f, dst, incl, 0, b, dcls, f2 if dcls == 0 else Z6]


def row_dtm_dec(b: list[int]) -> list[Any]:
    txt = bytes(b).hex().upper()
    try:
        d = H.hex_to_dtm(txt)
    except Exception:  # noqa: BLE001
        return [b, 3, Z6, 5, []]
    dcls, f = _fields(d, _RE_DTM)
    if dcls != 0:
        return [b, dcls, Z6, 5, []]
    incl = len(b) == 7
    try:
        # the flag as the library's own decoder reports it (parser_313f: True for a set DST bit, None for a clear one)
        txt2 = H.hex_from_dtm(d, is_dst=(True if (incl and b[0] & 0x80) else None), incl_seconds=incl)
    except Exception:  # noqa: BLE001
        return [b, 0, f, 1, []]
    ecls, b2 = _hexbytes(txt2, len(b))
    return [b, 0, f, ecls, b2]


def row_dtm_sent(incl: int) -> list[Any]:
    try:
        txt = H.hex_from_dtm(None, incl_seconds=bool(incl))
    except Exception:  # noqa: BLE001
        return [incl, 1, [], 5]
    ecls, b = _hexbytes(txt, 7 if incl else 6)
    if ecls:
        return [incl, ecls, [], 5]
    try:
        d = H.hex_to_dtm(txt)
    except Exception:  # noqa: BLE001
        return [incl, 0, b, 3]
    return [incl, 0, b, 1 if d is None else 0]


def row_date_dec(b: list[int]) -> list[Any]:
    try:
        d = H.hex_to_date(bytes(b).hex().upper())
    except Exception:  # noqa: BLE001
        return [b, 3, [0, 0, 0]]
    dcls, f = _fields(d, _RE_DATE)
    return [b, dcls, f if dcls == 0 else [0, 0, 0]]


def dts_text(f: list[int]) -> str:
    return f"{f[0]:02d}-{f[1]:02d}-{f[2]:02d}T{f[3]:02d}:{f[4]:02d}:{f[5]:02d}"


def _limbs(txt: Any) -> tuple[int, list[int]]:
    if isinstance(txt, str) and len(txt) == 12 and re.fullmatch(r"[0-9A-F]*", txt):
        return 0, [int(txt[:6], 16), int(txt[6:], 16)]
    return 2, [0, 0]


def _dts_arg(f: list[int]) -> Any:
    k = (f[2] + f[3] + f[4] + f[5]) % 3
    if k == 0:
        return dts_text(f)                       # the decoder's own output format, YY-MM-DDTHH:MM:SS
    if k == 1:
        return _dt(2000 + f[0], *f[1:])
    return dtm_text([2000 + f[0], *f[1:]])       # full ISO text


def row_dts_enc(f: list[int]) -> list[Any]:
    try:
        txt = H.hex_from_dts(_dts_arg(f))
    except Exception:  # noqa: BLE001
        return [f, 1, [0, 0], 5, Z6]
    ecls, w = _limbs(txt)
    if ecls:
        return [f, ecls, [0, 0], 5, Z6]
    try:
        d = H.hex_to_dts(txt)
    except Exception:  # noqa: BLE001
        return [f, 0, w, 3, Z6]
    dcls, f2 = _fields(d, _RE_DTS)
    return [f, 0, w, dcls, f2 if dcls == 0 else Z6]


def row_dts_dec(w: list[int]) -> list[Any]:
    txt = f"{w[0]:06X}{w[1]:06X}"
    try:
        d = H.hex_to_dts(txt)
    except Exception:  # noqa: BLE001
        return [w, 3, Z6, 5, [0, 0]]
    dcls, f = _fields(d, _RE_DTS)
    if dcls != 0:
        return [w, dcls, Z6, 5, [0, 0]]
    try:
        txt2 = H.hex_from_dts(d)
    except Exception:  # noqa: BLE001
        return [w, 0, f, 1, [0, 0]]
    ecls, w2 = _limbs(txt2)
    return [w, 0, f, ecls, w2]


def row_dts_sent() -> list[Any]:
    try:
        txt = H.hex_from_dts(None)
    except Exception:  # noqa: BLE001
        return [1, [0, 0], 5]
    ecls, w = _limbs(txt)
    if ecls:
        return [ecls, [0, 0], 5]
    try:
        d = H.hex_to_dts(txt)
    except Exception:  # noqa: BLE001
        return [0, w, 3]
    return [0, w, 1 if d is None else 0]


# ----------------------------------------------------------------------------------------------
# text


def row_str_enc(s: list[int]) -> list[Any]:
    try:
        txt = H.hex_from_str("".join(chr(c) for c in s))
    except Exception:  # noqa: BLE001
        return [s, 1, [], 5, []]
    if not (isinstance(txt, str) and len(txt) % 2 == 0 and re.fullmatch(r"[0-9A-F]*", txt)):
        return [s, 2, [], 5, []]
    b = list(bytes.fromhex(txt))
    try:
        d = H.hex_to_str(txt)
    except Exception:  # noqa: BLE001
        return [s, 0, b, 3, []]
    return [s, 0, b, 0 if isinstance(d, str) else 6, [ord(ch) for ch in d] if isinstance(d, str) else []]


def row_str_dec(b: list[int]) -> list[Any]:
    txt = bytes(b).hex().upper()
    try:
        d = H.hex_to_str(txt)
    except Exception:  # noqa: BLE001
        return [b, 3, [], 5, []]
    if not isinstance(d, str):
        return [b, 6, [], 5, []]
    try:
        txt2 = H.hex_from_str(d)
    except Exception:  # noqa: BLE001
        return [b, 0, [ord(ch) for ch in d], 1, []]
    ok = isinstance(txt2, str) and len(txt2) % 2 == 0 and re.fullmatch(r"[0-9A-F]*", txt2)
    return [b, 0, [ord(ch) for ch in d], 0 if ok else 2, list(bytes.fromhex(txt2)) if ok else []]


# ----------------------------------------------------------------------------------------------
# device ids: run-length tables (each worker sweeps a slice; runs are merged afterwards)

ID_FUNCS: dict[str, tuple[Callable[[str], str], Callable[[str], str]]] = {
    "id_helpers": (lambda hx: A.hex_id_to_dev_id(hx), lambda i: A.dev_id_to_hex_id(i)),
    "id_Address": (lambda hx: A.Address.convert_from_hex(hx), lambda i: A.Address.convert_to_hex(i)),
}
_HEX6 = re.compile(r"[0-9A-F]{6}")


def _id_point(fam: str, h: int) -> tuple[tuple, tuple]:
    """-> (key of the id_h row, key of the id_t row) for h = tt*2^18 + n."""
    dec, enc = ID_FUNCS[fam]
    hx = "%06X" % h
    canon = "%02d:%06d" % (h >> 18, h & 0x3FFFF)
    # hex -> id -> hex
    back = None
    try:
        i = dec(hx)
    except Exception:  # noqa: BLE001
        i = None
    if isinstance(i, str) and len(i) == 9 and i[2] == ":" and i[:2].isdigit() and i[3:].isdigit():
        tt, n = int(i[:2]), int(i[3:])
        icls, dform = (0 if tt <= 63 and n < 262144 else 1), h - (tt * 262144 + n)
    else:
        tt = n = -1
        icls, dform = 2, 0
    if icls != 2:
        try:
            back = enc(i)
            bcls, dback = (0, int(back, 16) - h) if isinstance(back, str) and _HEX6.fullmatch(back) else (2, 0)
        except Exception:  # noqa: BLE001
            bcls, dback = 1, 0
    else:
        bcls, dback = 5, 0
    kh = (icls, dform, bcls, dback)
    # id -> hex -> id  (pure functions: reuse the observations above when they are the same calls)
    if i == canon and back == hx:
        kt = (0, 0, 0, 1)
    else:
        try:
            hx2 = enc(canon)
            if isinstance(hx2, str) and _HEX6.fullmatch(hx2):
                ecls, dhex = 0, int(hx2, 16) - h
                try:
                    kt = (0, dhex, 0, int(dec(hx2) == canon))
                except Exception:  # noqa: BLE001
                    kt = (0, dhex, 1, 0)
            else:
                kt = (2, 0, 5, 0)
        except Exception:  # noqa: BLE001
            kt = (1, 0, 5, 0)
    return kh, kt


def _id_sweep(args: tuple[str, int, int, int]) -> tuple[list, list]:
    fam, a, b, step = args
    dec, enc = ID_FUNCS[fam]
    ok_h, ok_t = (0, 0, 0, 0), (0, 0, 0, 1)
    runs_h: list[list[int]] = []
    runs_t: list[list[int]] = []
    ch = ct = None
    for h in range(a, b, step):
        # fast path = exactly what _id_point records when both compositions are the identity
        hx = "%06X" % h
        try:
            i = dec(hx)
            fast = i == "%02d:%06d" % (h >> 18, h & 0x3FFFF) and enc(i) == hx
        except Exception:  # noqa: BLE001
            fast = False
        kh, kt = (ok_h, ok_t) if fast else _id_point(fam, h)
        if kh == ch and step == 1:
            runs_h[-1][1] = h
        else:
            runs_h.append([h, h, *kh])
            ch = kh
        if kt == ct and step == 1:
            runs_t[-1][1] = h
        else:
            runs_t.append([h, h, *kt])
            ct = kt
        if len(runs_h) > 5000 or len(runs_t) > 5000:   # a badly broken codec: enough evidence
            break
    return runs_h, runs_t


def _merge(parts: list[list[list[int]]]) -> list[list[int]]:
    out: list[list[int]] = []
    for runs in parts:
        for r in runs:
            if out and out[-1][2:] == r[2:] and out[-1][1] + 1 == r[0]:
                out[-1][1] = r[1]
            else:
                out.append(list(r))
    return out


def id_jobs(fam: str, full: bool, procs: int) -> tuple[list, int]:
    """Sweep jobs over the 24-bit space (full) or a stratified subset (every tt; n near both ends plus a
    stride) -> (jobs for _id_sweep, number of points)."""
    if full:
        nslices = max(procs * 8, 1)
        size = (1 << 24) // nslices
        return [(fam, s * size, (s + 1) * size if s < nslices - 1 else 1 << 24, 1) for s in range(nslices)], 1 << 24
    jobs = []
    points = 0
    for tt in range(64):
        base = tt << 18
        for a, b, st in ((0, 2048, 1), (2048, (1 << 18) - 2048, 257), ((1 << 18) - 2048, 1 << 18, 1)):
            jobs.append((fam, base + a, base + b, st))
            points += len(range(a, b, st))
    return jobs, points


def id_finish(fam: str, res: list) -> tuple[list, list]:
    rh = _merge([r[0] for r in res])
    rt = _merge([r[1] for r in res])
    # tt0, n0 of the first id of each id_h run (for the model comparison)
    dec = ID_FUNCS[fam][0]
    for r in rh:
        try:
            i = dec("%06X" % r[0])
            r += [int(i[:2]), int(i[3:])] if r[2] != 2 else [-1, -1]
        except Exception:  # noqa: BLE001
            r += [-1, -1]
    return rh, rt


def row_id(fam: str, direction: str, h: int) -> list[int]:
    kh, kt = _id_point(fam, h)
    if direction == "t":
        return [h, h, *kt]
    r = [h, h, *kh]
    try:
        i = ID_FUNCS[fam][0]("%06X" % h)
        r += [int(i[:2]), int(i[3:])] if kh[0] != 2 else [-1, -1]
    except Exception:  # noqa: BLE001
        r += [-1, -1]
    return r


# ----------------------------------------------------------------------------------------------
# covering sets for the calendar codecs

_MDAYS = [31, 28, 31, 30, 31, 30, 31, 31, 30, 31, 30, 31]


def _leap(y: int) -> bool:
    return (y % 4 == 0 and y % 100 != 0) or y % 400 == 0


def _days_in(y: int, m: int) -> int:
    return 29 if m == 2 and _leap(y) else _MDAYS[m - 1]


def _all_days(y0: int, y1: int):
    for y in range(y0, y1 + 1):
        for m in range(1, 13):
            for d in range(1, _days_in(y, m) + 1):
                yield y, m, d


def dtm_enc_inputs(tier: str) -> list[tuple[list[int], int, int]]:
    out: list[tuple[list[int], int, int]] = []
    # every minute of leap days, the day before/after, DST-change days, month / year ends, one plain day
    days = [(2024, 2, 29), (2000, 2, 29), (2023, 2, 28), (2024, 3, 1), (2100, 2, 28), (2024, 3, 31),
            (2024, 10, 27), (1999, 12, 31), (2024, 12, 31), (2025, 1, 1), (2021, 6, 15), (2021, 4, 30)]
    for (y, m, d) in days:
        for h in range(24):
            for mi in range(60):
                out.append(([y, m, d, h, mi, 0], 0, 0))
    # every day of 2000-2099 at one time, seconds form, both DST flags alternating; minute form too
    for n, (y, m, d) in enumerate(_all_days(2000, 2099)):
        out.append(([y, m, d, 12 + n % 12, n % 60, (n * 7) % 60], n % 2, 1))
        if tier == "thorough" or n % 4 == 0:
            out.append(([y, m, d, n % 24, (n * 11) % 60, 0], (n // 2) % 2, 0))
    # every second of some hours (quick) / of a whole leap day (thorough), seconds form, both DST flags
    hours = range(24) if tier == "thorough" else (0, 23)
    for h in hours:
        for mi in range(60):
            for s in range(60):
                out.append(([2024, 2, 29, h, mi, s], (mi + s) % 2, 1))
    # seconds given to the minute form (off the grid: not judged, but recorded), range ends of datetime
    out += [([2024, 2, 29, 23, 59, 59], 1, 0), ([1, 1, 1, 0, 0, 0], 0, 1), ([9999, 12, 31, 23, 59, 59], 1, 1),
            ([1, 1, 1, 0, 0, 0], 0, 0), ([9999, 12, 31, 23, 59, 0], 0, 0)]
    if tier == "thorough":   # all minutes of five years (minute form)
        for (y, m, d) in _all_days(2020, 2024):
            for h in range(24):
                for mi in range(60):
                    out.append(([y, m, d, h, mi, 0], 0, 0))
    return out


def dtm_dec_inputs() -> list[list[int]]:
    out = []
    secs, mins, hours = (0, 59, 60, 128 + 59, 255), (0, 59, 60), (0, 23, 24, 32 + 23, 0xE0 + 1, 255)
    days, mons, years = (0, 1, 28, 29, 30, 31, 32), (0, 2, 4, 12, 13), (0, 2023, 2024, 2100, 9999, 10000)
    for y in years:
        for mo in mons:
            for d in days:
                for h in hours:
                    for mi in mins:
                        out.append([mi, h, d, mo, y >> 8, y & 255])
                        for s in secs:
                            out.append([s, mi, h, d, mo, y >> 8, y & 255])
    out += [[255] * 6, [255] * 7, [0] + [255] * 6, [255] * 5 + [254]]
    return out


def date_dec_inputs() -> list[list[int]]:
    out = [[255] * 4]
    for y in (0, 1, 2023, 2024, 2100, 9999, 10000):
        for mo in (0, 1, 2, 4, 12, 13):
            for d in (0, 1, 28, 29, 30, 31, 32 + 1, 0xE0 + 29, 255):
                out.append([d, mo, y >> 8, y & 255])
    return out


def dts_enc_inputs(tier: str) -> list[list[int]]:
    out = []
    for (y, m, d) in _all_days(2000, 2099):                      # every day of the century window
        n = len(out)
        out.append([y % 100, m, d, n % 24, (n * 7) % 60, (n * 13) % 60])
    days = [(24, 2, 29), (0, 2, 29), (99, 12, 31)] if tier == "thorough" else []
    for (yy, m, d) in days:                                      # every second of whole days
        for h in range(24):
            for mi in range(60):
                for s in range(60):
                    out.append([yy, m, d, h, mi, s])
    for (yy, m, d) in ((24, 2, 29), (0, 1, 1), (1, 1, 1), (99, 12, 31), (23, 2, 28)):
        for h in range(24):                                      # every minute of these days
            for mi in range(60):
                out.append([yy, m, d, h, mi, (h + mi) % 60])
        for h in (0, 23):                                        # every second of two hours
            for mi in range(60):
                for s in range(60):
                    out.append([yy, m, d, h, mi, s])
    return out


def dts_dec_inputs() -> list[list[int]]:
    out = [[0, 127], [0, 0], [0, 126], [1 << 16, 127]]
    for yy in (0, 1, 24, 99, 100, 127):
        for mo in (0, 1, 2, 12, 13, 15):
            for d in (0, 1, 28, 29, 30, 31):
                for h in (0, 23, 24, 31):
                    for mi in (0, 59, 60, 63):
                        for s in (0, 59, 60, 63):
                            for junk_hi, junk_lo in ((0, 0), (0, 127), (1 << 16, 0)):
                                out.append([junk_hi + (mo << 12) + (d << 7) + yy, (h << 19) + (mi << 13) + (s << 7) + junk_lo])
    return out


def _strings(alpha: list[int], maxlen: int) -> list[list[int]]:
    out: list[list[int]] = [[]]
    layer: list[list[int]] = [[]]
    for _ in range(maxlen):
        layer = [s + [c] for s in layer for c in alpha]
        out += layer
    return out


# ----------------------------------------------------------------------------------------------


def _chunks(name: str, fam: str, direction: str, p: list[int], rows: list) -> list[dict]:
    return [{"name": name, "fam": fam, "dir": direction, "p": p, "rows": rows[i: i + ROWS_PER_ITEM]}
            for i in range(0, len(rows), ROWS_PER_ITEM)]


def _rows_job(args: tuple[str, str, list]) -> list:
    """Worker: rows of one slice of one table (kind selects the row function)."""
    kind, name, inputs = args
    if kind == "scalar_enc":
        return [row_scalar_enc(name, k) for k in inputs]
    if kind == "scalar_dec":
        return [row_scalar_dec(name, w) for w in inputs]
    if kind == "scalar_sent":
        return [row_scalar_sent(name, v) for v in inputs]
    if kind == "sp_enc":
        inr = [k for k in inputs if 0 <= k <= 65535]
        return sorted(_sp_enc_rows(inr) + [_sp_enc_one(k) for k in inputs if not 0 <= k <= 65535])
    if kind == "sp_dec":
        return _sp_dec_rows(inputs)
    if kind == "flag_dec":
        return [row_flag_dec(*x) for x in inputs]
    if kind == "flag_enc":
        return [row_flag_enc(*x) for x in inputs]
    if kind == "dtm_enc":
        return [row_dtm_enc(*x) for x in inputs]
    if kind == "dtm_enc_none":
        return [row_dtm_enc(x[0], 0, x[2], none_dst=True) for x in inputs]
    if kind == "dtm_enc_tz":   # the same rows with the process in a time zone that has daylight saving (UK rules)
        import time as _time
        old_tz = os.environ.get("TZ")
        os.environ["TZ"] = "GMT0BST,M3.5.0/1,M10.5.0"
        _time.tzset()
        try:
            return [row_dtm_enc(*x) for x in inputs]
        finally:
            if old_tz is None:
                os.environ.pop("TZ", None)
            else:
                os.environ["TZ"] = old_tz
            _time.tzset()
    if kind == "dtm_dec":
        return [row_dtm_dec(x) for x in inputs]
    if kind == "dtm_sent":
        return [row_dtm_sent(x) for x in inputs]
    if kind == "date_dec":
        return [row_date_dec(x) for x in inputs]
    if kind == "dts_enc":
        return [row_dts_enc(x) for x in inputs]
    if kind == "dts_dec":
        return [row_dts_dec(x) for x in inputs]
    if kind == "dts_sent":
        return [row_dts_sent() for _ in inputs]
    if kind == "str_enc":
        return [row_str_enc(x) for x in inputs]
    if kind == "str_dec":
        return [row_str_dec(x) for x in inputs]
    raise ValueError(kind)


def scalar_names(tier: str) -> list[str]:
    return [n for n in SCALARS if tier == "thorough" or n != "dbl10"]


def build_tables(tier: str, seed: int = 0, only: list[str] | None = None) -> tuple[list[dict], dict]:
    procs = int(os.environ.get("VERIF_PROCS", "8" if tier == "thorough" else "6"))
    specs: list[tuple] = []   # (name, fam, dir, p, what, kind, inputs)
    want = lambda n: not only or n in only  # noqa: E731

    for name in scalar_names(tier):
        c = SCALARS[name]
        ks, ws = list(c["enc_ks"]), list(c["dec_ws"])
        if name == "sched_setpoint":
            specs.append((name, c["fam"], "enc", c["p"], f"all k/100 for k in {ks[0]}..{ks[-1]} through full_sched_to_fragz/"
                          "fragz_to_full_sched", "sp_enc", ks))
            specs.append((name, c["fam"], "dec", c["p"], "all 65536 packed set-point words", "sp_dec", ws))
            continue
        specs.append((name, c["fam"], "enc", c["p"], f"all k/{c['scale']} for k in {ks[0]}..{ks[-1]}", "scalar_enc", ks))
        specs.append((name, c["fam"], "dec", c["p"], f"all {len(ws)} wire words", "scalar_dec", ws))
        specs.append((name, c["fam"], "sent", c["p"], "None / False", "scalar_sent", c["sent"]))
    for lsb in (0, 1):
        nm = "flag8_lsb" if lsb else "flag8_msb"
        specs.append((nm, "flag", "dec", [lsb], "all 256 bytes", "flag_dec", [(w, lsb) for w in range(256)]))
        specs.append((nm, "flag", "enc", [lsb], "all 256 lists of 8 bits", "flag_enc",
                      [([(n >> (7 - i)) & 1 for i in range(8)], lsb) for n in range(256)]))
    specs.append(("dtm", "dtm", "enc", [], "every minute of 12 special days; every day of 2000-2099; every second of "
                  + ("2024-02-29; every minute of 2020-2024" if tier == "thorough" else "two hours of 2024-02-29")
                  + "; DST flag both ways", "dtm_enc", dtm_enc_inputs(tier)))
    # wall-clock values are coded as they are, whatever the host's time zone: the DST-change days again, with the
    # process in a zone that has daylight saving (the skipped and the repeated hour)
    tz_days = {(2024, 3, 31), (2024, 10, 27), (2021, 6, 15)}
    specs.append(("dtm_tz", "dtm", "enc", [], "every minute of 2024-03-31, 2024-10-27, 2021-06-15 with TZ=GMT0BST (UK rules)",
                  "dtm_enc_tz", [x for x in dtm_enc_inputs("quick") if tuple(x[0][:3]) in tz_days]))
    specs.append(("dtm_none", "dtm", "enc", [], "is_dst=None (as decoded from a clear DST bit): the special days, both forms",
                  "dtm_enc_none", [(x[0], 0, inc) for x in dtm_enc_inputs("quick") if tuple(x[0][:3]) in tz_days and x[0][4] % 7 == 0
                                   for inc in (0, 1)]))
    specs.append(("dtm", "dtm", "dec", [], "cross product of boundary / invalid field bytes incl. day-of-week and DST bits, "
                  "6- and 7-byte forms", "dtm_dec", dtm_dec_inputs()))
    specs.append(("dtm", "dtm", "sent", [], "None, both forms", "dtm_sent", [0, 1]))
    specs.append(("date", "date", "dec", [], "boundary / invalid field bytes (decoder only)", "date_dec", date_dec_inputs()))
    specs.append(("dts", "dts", "enc", [], "every day of 2000-2099; every minute and two full hours of 5 days"
                  + ("; every second of 3 days" if tier == "thorough" else ""), "dts_enc", dts_enc_inputs(tier)))
    specs.append(("dts", "dts", "dec", [], "cross product of boundary / invalid bit fields, unused bits set", "dts_dec", dts_dec_inputs()))
    specs.append(("dts", "dts", "sent", [], "None", "dts_sent", [0]))
    alpha = [0x20, 0x41, 0x7E, 0x1F, 0x7F, 0xFF, 0x00]
    maxlen = 4 if tier == "thorough" else 3
    strs = _strings(alpha, maxlen) + [[c] for c in range(256)] + [[0x41, c, 0x42] for c in range(256)]
    bs = list(strs)
    strs += [[ord(ch) for ch in s] for s in ("Living Room", "Kitchen  ", "  Bad", "v0.31.5", "Zone #1 (upstairs)~", "\u00e9t\u00e9", "\u0100x")]
    specs.append(("str", "str", "enc", [], f"all strings <= {maxlen} over 7 character classes; all single codes 0..255", "str_enc", strs))
    specs.append(("str", "str", "dec", [], f"all byte strings <= {maxlen} over 7 byte classes; all single bytes", "str_dec", bs))

    specs = [sp for sp in specs if want(sp[0])]
    SLICE = 1792 * 8
    jobs = [(si, kind, name, inputs[a: a + SLICE]) for si, (name, _f, _d, _p, _w, kind, inputs) in enumerate(specs)
            for a in range(0, len(inputs), SLICE)]
    idjobs = []
    for fam in ("id_helpers", "id_Address"):
        full = tier == "thorough" or fam == "id_helpers"
        if want(fam):
            idjobs.append((fam, full, *id_jobs(fam, full, procs)))

    if procs > 1:
        with ProcessPoolExecutor(procs) as ex:
            idfuts = [[ex.submit(_id_sweep, j) for j in jl] for (_f, _full, jl, _n) in idjobs]
            futs = [ex.submit(_rows_job, (kind, name, inp)) for (_si, kind, name, inp) in jobs]
            rowparts = [f.result() for f in futs]
            idres = [[f.result() for f in fl] for fl in idfuts]
    else:
        rowparts = [_rows_job((kind, name, inp)) for (_si, kind, name, inp) in jobs]
        idres = [[_id_sweep(j) for j in jl] for (_f, _full, jl, _n) in idjobs]

    items: list[dict] = []
    tables: dict[str, Any] = {}
    points = 0
    rows_of: dict[int, list] = {}
    for (si, _k, _n, _i), part in zip(jobs, rowparts):
        rows_of.setdefault(si, []).extend(part)
    for si, (name, fam, direction, p, what, _kind, inputs) in enumerate(specs):
        rows = rows_of.get(si, [])
        if len(rows) != len(inputs):
            raise RuntimeError(f"table {name}/{direction}: {len(rows)} rows for {len(inputs)} inputs")
        items.extend(_chunks(name, fam, direction, p, rows))
        tables[f"{name}/{direction}"] = {"rows": len(rows), "grid": what}
        points += len(rows)
    for (fam, full, _jl, npts), res in zip(idjobs, idres):
        rh, rt = id_finish(fam, res)
        grid = "all 2^24 values" if full else "every tt: first/last 2048 n and every 257th n"
        for direction, runs, what in (("h", rh, "hex -> id -> hex"), ("t", rt, "id -> hex -> id")):
            items.extend(_chunks(fam, "id", direction, [], runs))
            tables[f"{fam}/{direction}"] = {"rows": len(runs), "grid": f"{what}, {grid} (run-length)", "points": npts}
            points += npts

    return items, {"tables": tables, "points": points, "observations": observations()}


def observations() -> list[str]:
    """Things seen on the code that C04 leaves open (recorded in the evidence, never judged)."""
    obs = []

    def t(label: str, fn: Callable[[], Any]) -> None:
        try:
            obs.append(f"{label} -> {fn()!r}")
        except Exception as err:  # noqa: BLE001
            obs.append(f"{label} -> raises {type(err).__name__}")

    t("dev_id_to_hex_id('01:999999') (n >= 2^18, passes the id regex)", lambda: A.hex_id_to_dev_id(A.dev_id_to_hex_id("01:999999")))
    t("dev_id_to_hex_id('64:000000') (tt > 63)", lambda: A.dev_id_to_hex_id("64:000000"))
    t("dev_id_to_hex_id('--:------')", lambda: A.dev_id_to_hex_id("--:------"))
    t("hex_id_to_dev_id('      ')", lambda: A.hex_id_to_dev_id("      "))
    t("hex_to_temp(hex_from_temp(127.99)) (31FF collides with N/A)", lambda: H.hex_to_temp(H.hex_from_temp(127.99)))
    t("hex_from_temp(-273.16) (below the decoder's floor)", lambda: H.hex_from_temp(-273.16))
    t("hex_from_temp(-327.69) (-> sentinel word)", lambda: H.hex_from_temp(-327.69))
    t("hex_from_temp(700.0)", lambda: H.hex_from_temp(700.0))
    t("hex_from_double(-1)", lambda: H.hex_from_double(-1))
    t("hex_id_to_dev_id(hex of 45:000001, friendly_id=True) -> dev_id_to_hex_id (display form, unmapped type)",
      lambda: (A.hex_id_to_dev_id("B40001", friendly_id=True), A.dev_id_to_hex_id(A.hex_id_to_dev_id("B40001", friendly_id=True))))
    t("Address.convert_to_hex('CTL:145038') (docstring says accepted)", lambda: A.Address.convert_to_hex("CTL:145038"))
    t("hex_to_temp('-001') (a malformed word hex_from_temp(-655.37) produces)", lambda: H.hex_to_temp("-001"))
    t("hex_from_dts('1999-01-01T00:00:00') (year outside the 2-digit window)", lambda: H.hex_to_dts(H.hex_from_dts("1999-01-01T00:00:00")))
    return obs


# ----------------------------------------------------------------------------------------------
# batch validation with multi-line VERDICT values (TLC wraps long tuples over several lines, which
# harness.tlc.validate_batch does not read); same convention otherwise


_RE_VERDICT = re.compile(r'<<\s*"VERDICT"')


def _verdicts(out: str):
    i = 0
    while True:
        m = _RE_VERDICT.search(out, i)
        if not m:
            return
        i = m.start()
        depth, j = 0, i
        while True:
            if out.startswith("<<", j):
                depth += 1
                j += 2
            elif out.startswith(">>", j):
                depth -= 1
                j += 2
                if depth == 0:
                    break
            elif out[j] == '"':
                j = out.index('"', j + 1) + 1
            else:
                j += 1
        yield _tlc.parse_value(out[i:j])
        i = j


def validate_items(module: str, items: list, *, workers: int = 4, chunk: int = 1500, timeout: float = 1500) -> dict:
    rejects: list[tuple[int, Any]] = []
    states = trans = 0
    wall = 0.0
    tmp = tempfile.mkdtemp(prefix="vtrc_")
    try:
        for base in range(0, len(items), chunk):
            part = items[base: base + chunk]
            f = os.path.join(tmp, f"batch_{base}.json")
            with open(f, "w") as fh:
                json.dump(part, fh, separators=(",", ":"))
            r = _tlc.run_tlc(module, None, workers=workers, env={"TRACE_FILE": f}, timeout=timeout, parse_prints=False)
            wall += r.wall_s
            if not r.ok:
                raise _tlc.MachineryFailure(f"TLC failed on batch {module} base={base}: violated={r.violated} "
                                            f"errors={r.errors[:3]}\n{r.out[-3000:]}")
            seen = set()
            for v in _verdicts(r.out):
                seen.add(v[1])
                if v[2] != ():
                    rejects.append((base + v[1] - 1, v[2]))
            if len(seen) != len(part):
                raise _tlc.MachineryFailure(f"{module}: {len(part) - len(seen)} of {len(part)} items got no verdict (base={base})")
            states += r.distinct
            trans += r.states
            os.unlink(f)
        return {"n": len(items), "rejects": sorted(rejects, key=lambda x: x[0]), "states": states,
                "transitions": trans, "wall_s": wall}
    finally:
        shutil.rmtree(tmp, ignore_errors=True)


# ----------------------------------------------------------------------------------------------
# replay support


def row_input(it: dict, row: list) -> Any:
    fam, d = it["fam"], it["dir"]
    if fam == "flag":
        return row[:2]
    if fam == "dtm" and d == "enc":
        return row[:3]
    if fam == "dts" and d == "sent":
        return 0
    return row[0]


def recompute(it: dict, inp: Any) -> list:
    name, fam, d = it["name"], it["fam"], it["dir"]
    if fam in ("temp", "pct", "dbl", "sp", "bool"):
        return {"enc": row_scalar_enc, "dec": row_scalar_dec, "sent": row_scalar_sent}[d](name, inp)
    if fam == "flag":
        return row_flag_dec(inp[0], inp[1]) if d == "dec" else row_flag_enc(inp[0], inp[1])
    if fam == "dtm":
        return {"enc": lambda: row_dtm_enc(*inp), "dec": lambda: row_dtm_dec(inp), "sent": lambda: row_dtm_sent(inp)}[d]()
    if fam == "date":
        return row_date_dec(inp)
    if fam == "dts":
        return {"enc": lambda: row_dts_enc(inp), "dec": lambda: row_dts_dec(inp), "sent": row_dts_sent}[d]()
    if fam == "id":
        return row_id(name, d, inp)
    if fam == "str":
        return row_str_enc(inp) if d == "enc" else row_str_dec(inp)
    raise ValueError(fam)


_ECLS = {0: "word", 1: "raised", 2: "malformed text", 5: "not run"}
_DCLS = {0: "value", 1: "None", 2: "False", 3: "raised", 4: "off-grid number", 5: "not run", 6: "other"}


def describe(it: dict, row: list) -> str:
    fam, d, name = it["fam"], it["dir"], it["name"]
    try:
        if fam in ("temp", "pct", "dbl", "sp", "bool"):
            sc = SCALARS[name]["scale"]
            nd = SCALARS[name]["nd"]
            if d == "enc":
                k, ecls, ew, dcls, dk = row
                return (f"{name}: value {k}/{sc} -> encoder {_ECLS[ecls]}" + (f" {ew:0{nd}X}" if ecls == 0 else "")
                        + f" -> decoder {_DCLS[dcls]}" + (f" {dk}/{sc}" if dcls == 0 else ""))
            if d == "dec":
                w, dcls, dk, ecls, ew = row
                return (f"{name}: word {w:0{nd}X} -> decoder {_DCLS[dcls]}" + (f" {dk}/{sc}" if dcls == 0 else "")
                        + f" -> encoder {_ECLS[ecls]}" + (f" {ew:0{nd}X}" if ecls == 0 else ""))
            return f"{name}: sentinel {_DCLS[row[0]]} -> encoder {_ECLS[row[1]]} -> decoder {_DCLS[row[3]]}"
        if fam == "id":
            lo, hi = row[0], row[1]
            return f"{name}/{d}: h in {lo:06X}..{hi:06X} ({hi - lo + 1} ids) classes/deltas {row[2:]}"
        if fam == "dtm" and d == "enc":
            return f"dtm {dtm_text(row[0])} dst={row[1]} secs={row[2]} -> {_ECLS[row[3]]} {bytes(row[4]).hex().upper()} -> {_DCLS[row[5]]} {dtm_text(row[6])}"
        if fam == "dts" and d == "enc":
            return f"dts {dts_text(row[0])} -> {_ECLS[row[1]]} {row[2][0]:06X}{row[2][1]:06X} -> {_DCLS[row[3]]} {dts_text(row[4])}"
    except Exception:  # noqa: BLE001
        pass
    return f"{name}/{d}: {row}"

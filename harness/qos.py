"""Drive the real PortProtocol / ProtocolContext (QoS send machinery) on virtual time and record the
observable trace that spec/QosTrace.tla judges (properties C07, C08, C09).

A *scenario* is a JSON-serialisable dict (it is also the replay object):

  {"mode": null|true|false,                      gateway disable_qos
   "callers": [{"id": 1, "t": 0.0, "kind": "RQ"|"W"|"I"|"IMP"|"LOG", "zone": 1, "prio": 0,
                "mr": 1, "to": 5.0, "wfr": true|false|null, "outer": null|secs,
                "tx": [{"echo": secs|null, "reply": secs|null, "echo2": secs|null, "reply2": secs|null}, ...]}],
   "events": [{"t": secs, "ev": "conn_lost"|"conn_made"|"pause"|"resume"|"fail_write"|"foreign", "of": id, "what": "echo"|"reply"|"otherzone"|"othercode"}],
   "horizon": secs}

Times in the trace are integers in units of 1e-7 s (TU).
"""
from __future__ import annotations

import asyncio
import contextvars
import gc
from typing import Any

from harness import fakes, vloop

TU = 1e7  # trace time units per second
CTL = "01:145038"
GWY = fakes.GWY_ID


def tu(t: float) -> int:
    return int(round(t * TU))


_CUR_CMD: contextvars.ContextVar = contextvars.ContextVar("verif_cur_cmd", default=None)


def make_cmd(kind: str, zone: int):
    from ramses_tx.command import Command
    from ramses_tx.const import I_, Code

    z = f"{zone:02X}"
    if kind == "RQ":
        return Command.get_zone_temp(CTL, z)
    if kind == "W":
        return Command.set_zone_setpoint(CTL, z, 20.0)
    if kind == "I":
        return Command.from_attrs(I_, CTL, Code._0008, f"{z}00")
    if kind == "IMP":
        return Command.put_sensor_temp(f"03:1234{zone:02d}", 19.5)
    if kind == "LOG":
        return Command.get_system_log_entry(CTL, zone)
    raise ValueError(kind)


def reply_frame(kind: str, zone: int, *, null_log: bool = False) -> str | None:
    z = f"{zone:02X}"
    if kind == "RQ":
        return f"RP --- {CTL} {GWY} --:------ 30C9 003 {z}07D0"
    if kind == "W":
        return f" I --- {CTL} {GWY} --:------ 2309 003 {z}07D0"
    if kind == "LOG":
        if null_log:
            return f"RP --- {CTL} {GWY} --:------ 0418 022 000000B0000000000000000000007FFFFF7000000000"
        return f"RP --- {CTL} {GWY} --:------ 0418 022 0040{z}B0040000000000D1A9C05C7FFFFF7000000001"
    return None


class Run:
    def __init__(self, sc: dict) -> None:
        self.sc = sc
        self.ev: list[dict] = []
        self.cmds: dict[int, Any] = {}
        self.frames: dict[str, int] = {}
        self.ntx: dict[int, int] = {}
        self.echo_txt: dict[int, str] = {}
        self.rply_txt: dict[int, set] = {}
        self.loop: vloop.VLoop = None  # type: ignore[assignment]
        self.seq = 0

    def rec(self, **kw: Any) -> None:
        e = {"e": "", "t": tu(self.loop.time()), "i": 0, "k": "", "n": 0, "p": 0, "a": 0, "b": 0, "s": "", "r": 0}
        e.update(kw)
        self.ev.append(e)

    # -- classification of a packet relative to caller i ---------------------------------------
    def classify(self, pkt, i: int) -> str:
        cmd = self.cmds[i]
        txt = str(pkt)
        if txt == self.echo_txt[i]:
            return "echo"
        if txt in self.rply_txt[i]:
            return "reply"
        hdr = pkt._hdr
        if hdr == cmd.tx_header.replace("18:000730", GWY) or hdr == cmd.tx_header:
            return "echo_like"
        if cmd.rx_header and hdr == cmd.rx_header:
            return "reply_like"
        if cmd.rx_header and cmd.rx_header[:8] == "0418|RP|" and hdr[:-2] == cmd.rx_header[:-2] and \
                pkt.payload == "000000B0000000000000000000007FFFFF7000000000":
            return "reply_like"
        for j in self.cmds:
            if j != i and (txt == self.echo_txt[j] or txt in self.rply_txt[j]):
                return f"other"
        return "stranger"

    def owner(self, pkt) -> tuple[int, str]:
        """Which caller's exchange could a received packet answer: (id, 'echo'|'reply'|'x').
        Header-equal look-alikes count: the contract must know that "something answering the
        transmission" was on the air, whoever sent it."""
        txt = str(pkt)
        for i in self.cmds:
            if txt == self.echo_txt[i]:
                return i, "echo"
            if txt in self.rply_txt[i]:
                return i, "reply"
        for i in self.cmds:
            k = self.classify(pkt, i)
            if k == "echo_like":
                return i, "echo"
            if k == "reply_like":
                return i, "reply"
        return 0, "x"


async def _run(sc: dict, holder: dict | None = None) -> dict:
    from ramses_tx import exceptions as exc
    from ramses_tx.protocol import PortProtocol
    from ramses_tx.typing import QosParams
    from ramses_tx.const import Priority

    loop = asyncio.get_running_loop()
    fakes.VDT._loop = loop
    R = Run(sc)
    R.loop = loop

    def on_exc(lp, ctx) -> None:
        e = ctx.get("exception")
        if isinstance(e, _Stuck):
            return
        where = ""
        tb = getattr(e, "__traceback__", None)
        while tb is not None:  # innermost frame inside the library = the tripping site
            if "ramses_tx" in tb.tb_frame.f_code.co_filename:
                where = tb.tb_frame.f_code.co_name
            tb = tb.tb_next
        R.rec(e="LoopExc", k=type(e).__name__ if e else "none", s=where or str(ctx.get("message", ""))[:40],
              a=1 if isinstance(e, AssertionError) else 0)

    loop.set_exception_handler(on_exc)

    proto = PortProtocol(lambda m: None, disable_qos=sc.get("mode"))
    tr = fakes.FakeTransport(proto, loop)
    state = {"fail_writes": 0}

    for c in sc["callers"]:
        cmd = make_cmd(c["kind"], c["zone"])
        R.cmds[c["id"]] = cmd
        R.echo_txt[c["id"]] = fakes.echo_of(str(cmd))
        rs = set()
        for nl in (False, True):
            rf = reply_frame(c["kind"], c["zone"], null_log=nl)
            if rf:
                rs.add(rf)
        R.rply_txt[c["id"]] = rs
        R.ntx[c["id"]] = 0
    by_frame = {str(cmd): i for i, cmd in R.cmds.items()}
    # two callers may hand over *equal* commands (distinct objects, identical frames - two pollers of one value):
    # a write is then attributed through the Command object the state machine handed to its send function
    by_obj = {id(cmd): i for i, cmd in R.cmds.items()}
    twins = len(by_frame) < len(R.cmds)
    last_writer: dict[str, int] = {}
    spec_of = {c["id"]: c for c in sc["callers"]}

    def deliver(frame: str, delay: float) -> None:
        def _d() -> None:
            if tr.closed or not tr.reading:
                return
            loop.call_soon(proto.pkt_received, tr.make_pkt(frame))
        loop.call_later(delay, _d)

    def on_write(t, frame: str) -> None:
        i = by_frame.get(frame, 0)
        if twins and i:
            i = by_obj.get(id(_CUR_CMD.get()), i)
            last_writer[fakes.echo_of(frame)] = i
            for rf in R.rply_txt[i]:
                last_writer[rf] = i
        if i == 0:
            code = frame[41:45] if len(frame) > 45 else ""
            R.rec(e="Write", i=0, k="alert" if " 7FFF " in frame else "unknown", s=code)
            if " 7FFF " in frame:  # answer the impersonation notice / probe promptly
                deliver(fakes.echo_of(frame), 0.01)
            elif frame == str(R.probe_cmd):
                deliver(fakes.echo_of(frame), 0.01)
                deliver(f"RP --- {CTL} {GWY} --:------ 30C9 003 0F07D0", 0.03)
            return
        R.ntx[i] += 1
        n = R.ntx[i]
        R.rec(e="Write", i=i, n=n)
        txs = spec_of[i].get("tx") or [{}]
        tx = txs[min(n, len(txs)) - 1]
        if tx.get("echo") is not None:
            deliver(R.echo_txt[i], tx["echo"])
        if tx.get("echo2") is not None:
            deliver(R.echo_txt[i], tx["echo2"])
        rf = reply_frame(spec_of[i]["kind"], spec_of[i]["zone"], null_log=bool(tx.get("null_log")))
        if rf:
            if tx.get("reply") is not None:
                deliver(rf, tx["reply"])
            if tx.get("reply2") is not None:
                deliver(rf, tx["reply2"])

    tr.on_write = on_write

    real_write = tr.write_frame

    async def write_frame(frame, disable_tx_limits=False):
        if state["fail_writes"] > 0:
            state["fail_writes"] -= 1
            R.rec(e="WriteFail")
            raise exc.TransportError("injected write failure")
        if state.get("fail_writes_os", 0) > 0:    # a failure the transport did not wrap (OSError from the port)
            state["fail_writes_os"] -= 1
            R.rec(e="WriteFail")
            raise OSError(5, "injected write failure (not wrapped by the transport)")
        return await real_write(frame, disable_tx_limits)

    tr.write_frame = write_frame  # type: ignore[method-assign]

    orig_rx = proto.pkt_received

    def pkt_received(pkt) -> None:
        i, what = R.owner(pkt)
        if twins and i and str(pkt) in last_writer:   # of equal commands, the one transmitted last is the one answered
            i = last_writer[str(pkt)]
        R.rec(e="Rx", i=i, k=what)
        orig_rx(pkt)

    proto.pkt_received = pkt_received  # type: ignore[method-assign]

    orig_alert = proto._send_impersonation_alert

    async def alert(cmd):
        i = by_frame.get(str(cmd), 0)
        R.rec(e="NoticeStart", i=i)
        try:
            return await orig_alert(cmd)
        finally:
            R.rec(e="NoticeEnd", i=i)

    proto._send_impersonation_alert = alert  # type: ignore[method-assign]

    R.probe_cmd = make_cmd("RQ", 15)

    if twins:
        ctx_send = proto._context.send_cmd

        async def ctx_send_cmd(send_fnc, cmd, *a, **kw):
            async def fnc(kmd):
                _CUR_CMD.set(kmd)
                return await send_fnc(kmd)
            return await ctx_send(fnc, cmd, *a, **kw)

        proto._context.send_cmd = ctx_send_cmd  # type: ignore[method-assign]

    proto.connection_made(tr, ramses=True)
    connected = {"up": True}
    await vloop.drain(4)
    t_base = loop.time()

    tasks: dict[int, asyncio.Task] = {}
    harness_cancelled: set[int] = set()
    shared: dict[str, Any] = {}
    if holder is not None:
        holder.update(R=R, tasks=tasks, ctx=proto._context)

    async def caller(c: dict) -> None:
        i = c["id"]
        cmd = R.cmds[i]
        if sc.get("share_qos"):     # all callers hand the protocol the same QosParams object (as with the module default)
            qos = shared.setdefault("qos", QosParams(max_retries=c["mr"], timeout=c["to"], wait_for_reply=c.get("wfr")))
        else:
            qos = QosParams(max_retries=c["mr"], timeout=c["to"], wait_for_reply=c.get("wfr"))
        R.rec(e="Call", i=i, k=c["kind"], n=c["mr"], p=c.get("prio", 0), a=tu(min(c["to"], 20.0)),
              b=1 if cmd.rx_header else 0, s="up" if connected["up"] else "down", r=int(c.get("nr", 0)))
        try:
            coro = proto.send_cmd(cmd, priority=Priority(c.get("prio", 0)), qos=qos, num_repeats=int(c.get("nr", 0)))
            if c.get("outer") is not None:
                pkt = await asyncio.wait_for(coro, c["outer"])
            else:
                pkt = await coro
        except exc.ProtocolError as err:
            R.rec(e="Raise", i=i, k="protocol", s=type(err).__name__,
                  a=1 if "Exceeded maximum retries" in str(err) else 0)
        except asyncio.TimeoutError:
            R.rec(e="Raise", i=i, k="outer_timeout" if c.get("outer") is not None else "TimeoutError", s="TimeoutError")
        except asyncio.CancelledError:
            # only the harness cancels a caller task, and only one it has already reported as hung; a CancelledError
            # that reaches the caller otherwise was delivered by the library (not a protocol error: C07b)
            R.rec(e="Raise", i=i, k="cancelled" if i in harness_cancelled else "cancelled_by_library", s="CancelledError")
            raise
        except BaseException as err:  # noqa: BLE001
            R.rec(e="Raise", i=i, k="other", s=type(err).__name__, a=1 if isinstance(err, AssertionError) else 0)
        else:
            R.rec(e="Return", i=i, k=R.classify(pkt, i) if pkt is not None else "none")

    def spawn(c: dict) -> None:
        tasks[c["id"]] = loop.create_task(caller(c), name=f"caller{c['id']}")

    def do_event(e: dict) -> None:
        ev = e["ev"]
        if ev == "conn_lost":
            # the event is recorded at its linearisation point - in the very handle that tells the protocol, not when
            # the transport schedules it: a caller that calls in between still meets a connected protocol
            def _lost() -> None:
                connected["up"] = False
                R.rec(e="ConnLost")
                # why the connection went: nothing said / the serial layer's own exception (what PortTransport passes on
                # when the port dies) / the library's transport error - the callers' errors must stay in the family
                why = e.get("why")
                if why == "serial":
                    from serial import SerialException
                    proto.connection_lost(SerialException("device reports readiness to read but returned no data"))
                elif why == "transport":
                    from ramses_tx import exceptions as _exc
                    proto.connection_lost(_exc.TransportError("the port was closed"))
                elif why == "wrapped":   # as MqttTransport._write_frame does: _close(exc.TransportError(err)) - the argument
                    from ramses_tx import exceptions as _exc    # of the library's error is an exception object, not a text
                    proto.connection_lost(_exc.TransportError(OSError(107, "Transport endpoint is not connected")))
                else:
                    proto.connection_lost(None)
                # the cause is handed to the protocol's owner through wait_for_connection_lost(); the harness is the owner
                # and collects it (an un-awaited notification future is not the send machinery's doing, J29)
                fut = getattr(proto, "_wait_connection_lost", None)
                if fut is not None and fut.done() and not fut.cancelled():
                    fut.exception()

            loop.call_soon(_lost)  # as the real transports do
        elif ev == "conn_made":
            # no help from the harness: the protocol itself must be ready for its next connection (connection_lost()
            # arms a new wait_connection_made future; the active gateway id is learnt again)
            def _made() -> None:
                if connected["up"]:
                    return  # a transport announces a connection once; a second announcement without a loss in between
                    #         (this event overtook a conn_lost still hopping through the loop) is not in the alphabet
                connected["up"] = True
                R.rec(e="ConnMade")
                proto.connection_made(tr, ramses=True)

            loop.call_soon(_made)  # as PortTransport does
        elif ev == "pause":
            R.rec(e="Pause")
            proto.pause_writing()
        elif ev == "resume":
            R.rec(e="Resume")
            proto.resume_writing()
        elif ev == "fail_write":
            state["fail_writes"] += 1
        elif ev == "fail_write_os":
            state["fail_writes_os"] = state.get("fail_writes_os", 0) + 1
        elif ev == "foreign":
            i = e.get("of", 0)
            what = e.get("what", "echo")
            c = spec_of.get(i)
            if c is None:
                return
            if what == "echo":
                f = R.echo_txt[i]
            elif what == "reply":
                f = reply_frame(c["kind"], c["zone"]) or R.echo_txt[i]
            elif what == "otherzone":
                f = reply_frame(c["kind"], (c["zone"] + 7) % 12) or fakes.echo_of(str(make_cmd(c["kind"], (c["zone"] + 7) % 12)))
            elif what == "echo_othergwy":
                f = str(R.cmds[i]).replace("18:000730", "18:999999")
            elif what == "null_otherctl":   # another controller's "no such log entry" reply to the gateway
                f = f"RP --- 01:999999 {GWY} --:------ 0418 022 000000B0000000000000000000007FFFFF7000000000"
            elif what == "reply_otherdst":
                f = (reply_frame(c["kind"], c["zone"]) or R.echo_txt[i]).replace(GWY, "18:999999")
            else:
                f = f"RP --- {CTL} {GWY} --:------ 1F09 003 000532"
            deliver(f, 0.0)

    def hop(n: int, fn, *args) -> None:
        """Act `n` loop iterations later (same virtual instant): I/O events arrive at arbitrary
        iteration boundaries, not only together with timers."""
        if n <= 0:
            fn(*args)
        else:
            loop.call_soon(hop, n - 1, fn, *args)

    for c in sc["callers"]:
        loop.call_at(t_base + c["t"], hop, c.get("hops", 0), spawn, c)
    for e in sc.get("events", []):
        loop.call_at(t_base + e["t"], hop, e.get("hops", 0), do_event, e)

    horizon = sc.get("horizon", 90.0)
    t_last = max([c["t"] for c in sc["callers"]] + [e["t"] for e in sc.get("events", [])] + [0.0])
    # wait for callers to be spawned, then for them to finish (bounded by the horizon)
    await asyncio.sleep(t_last + 1e-3)
    deadline = t_base + horizon
    while loop.time() < deadline:
        pend = [t for t in tasks.values() if not t.done()]
        if not pend:
            break
        await asyncio.wait(pend, timeout=max(1e-3, min(5.0, deadline - loop.time())))
    hung = [i for i, t in tasks.items() if not t.done()]
    for i in hung:
        R.rec(e="Hang", i=i)
    # let every armed timer of the machinery run out, then observe at quiescence
    await asyncio.sleep(30.0)
    await vloop.drain()
    ctx = proto._context
    fut = ctx._fut
    live_q = sum(1 for ent in list(ctx._que.queue) if not ent[-1].done())  # done entries are dead
    R.rec(e="Quiesce", k=type(ctx.state).__name__, a=1 if ctx._cmd is None else 0, n=live_q,
          b=1 if (fut is None or fut.done()) else 0, s="up" if connected["up"] else "down")
    for i in hung:
        harness_cancelled.add(i)
        tasks[i].cancel()
    await vloop.drain()
    # probe: a fresh command to a responsive device must succeed
    if sc.get("probe", True):
        if not connected["up"]:
            do_event({"ev": "conn_made"})
            await vloop.drain()
        if proto._pause_writing:
            proto.resume_writing()
        state["fail_writes"] = 0
        try:
            pkt = await asyncio.wait_for(
                proto.send_cmd(R.probe_cmd, qos=QosParams(max_retries=3, timeout=20, wait_for_reply=True)), 60)
            txt = str(pkt)
            good = txt == fakes.echo_of(str(R.probe_cmd)) or (txt.startswith("RP") and " 30C9 003 0F" in txt)
            R.rec(e="Probe", k="ok" if good else "wrongpkt")
        except BaseException as err:  # noqa: BLE001
            R.rec(e="Probe", k="fail", s=type(err).__name__)
    await asyncio.sleep(30.0)
    await vloop.drain()
    tasks.clear()
    gc.collect()
    await vloop.drain(2)
    R.rec(e="End", k=type(ctx.state).__name__)
    return {"echo_to": tu(ctx.echo_timeout), "rply_to": tu(ctx.reply_timeout), "untimed": 0, "ev": R.ev}


class _Stuck(BaseException):
    pass


def _lib_frame(frame) -> str:
    f, name = frame, ""
    while f is not None:
        if "ramses_tx" in f.f_code.co_filename and not name:
            name = f.f_code.co_name
        f = f.f_back
    return name


def run_scenario(sc: dict, stuck_s: float = 10.0) -> dict:
    """Execute one scenario on a fresh virtual loop; returns the trace item for QosTrace.

    A real-time watchdog (SIGALRM) turns a frozen event-loop thread -- a handle that never returns,
    e.g. blocked on the context's threading.Lock -- into a `Deadlock` event ending the trace.
    """
    import signal

    holder: dict = {}

    def on_alarm(signum, frame):
        R = holder.get("R")
        if R is not None and not holder.get("dead"):
            holder["dead"] = True
            R.rec(e="Deadlock", s=_lib_frame(frame))
            for i, t in holder.get("tasks", {}).items():
                if not t.done():
                    R.rec(e="Hang", i=i)
        if R is not None:
            R.loop.stop()
        raise _Stuck()

    old = signal.signal(signal.SIGALRM, on_alarm)
    signal.setitimer(signal.ITIMER_REAL, stuck_s, 0.2)
    try:
        try:
            item, loop = vloop.run(lambda: _run(sc, holder))
            return item
        except (RuntimeError, _Stuck):
            if not holder.get("dead"):
                raise
            R = holder["R"]
            ctx = holder["ctx"]
            return {"echo_to": tu(ctx.echo_timeout), "rply_to": tu(ctx.reply_timeout), "untimed": 0, "ev": R.ev}
    finally:
        signal.setitimer(signal.ITIMER_REAL, 0)
        signal.signal(signal.SIGALRM, old)

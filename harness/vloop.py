"""Deterministic asyncio loops for running the real ramses_rf code in a controlled world.

VLoop        virtual time: the clock only moves when nothing is ready, and then jumps to the next
             timer deadline.  A 20 s time-out costs microseconds.  Real selector is still polled
             (timeout 0) so socketpair-backed fakes work.
Director     a VLoop whose iteration boundaries are scripted: a `decide(loop)` callback is invoked
             at every boundary and chooses which armed timers fire (in which order) and which
             handles are injected; natural timer firing is off.

Both name every handle they run (see `describe_handle`) and can report it to `on_handle`.
CPython 3.12 only (the iteration semantics are reproduced from its BaseEventLoop._run_once).
"""
from __future__ import annotations

import asyncio
import heapq
import selectors
import sys
from asyncio import events, tasks
from typing import Any, Callable

assert sys.version_info[:2] == (3, 12), "harness is written against CPython 3.12's asyncio"


def _coro_name(task: asyncio.Task) -> str:
    try:
        c = task.get_coro()
        return getattr(c, "__qualname__", None) or getattr(getattr(c, "cr_code", None), "co_qualname", "?")
    except Exception:  # noqa: BLE001
        return "?"


def describe_handle(h: asyncio.Handle) -> str:
    """A stable, human-readable name for a handle: what will run."""
    cb = getattr(h, "_callback", None)
    args = getattr(h, "_args", ()) or ()
    if cb is None:
        return "cancelled"
    slf = getattr(cb, "__self__", None)
    name = getattr(cb, "__qualname__", None) or getattr(cb, "__name__", repr(cb))
    if isinstance(slf, asyncio.Task):  # task step / wakeup (only visible with _PyTask)
        kind = "wakeup" if getattr(cb, "__name__", "").endswith("wakeup") else "step"
        return f"task:{slf.get_name()}:{_coro_name(slf)}:{kind}"
    if slf is not None and type(slf).__name__ == "Timeout":
        t = getattr(slf, "_task", None)
        return f"timeout_of:{t.get_name() if t else '?'}"
    if name == "_set_result_unless_cancelled":
        return "sleepdone"
    if name.endswith("TaskStepMethWrapper") or "TaskStepMethWrapper" in repr(cb):
        return "ctask:step"
    if name.endswith("task_wakeup") or "TaskWakeupMethWrapper" in repr(cb):
        return "ctask:wakeup"
    a = ",".join(_short(x) for x in args)
    return f"call:{name}({a})"


def _short(x: Any) -> str:
    if isinstance(x, (bool, int, float, str)) or x is None:
        return repr(x)
    return type(x).__name__


class VLoop(asyncio.SelectorEventLoop):
    def __init__(
        self,
        *,
        pytask: bool = False,
        on_handle: Callable[[asyncio.Handle, str], None] | None = None,
        on_boundary: Callable[["VLoop"], None] | None = None,
        resolution: float = 1e-6,
        start: float = 0.0,
    ) -> None:
        super().__init__(selectors.SelectSelector())
        self._vt = start
        self._clock_resolution = resolution
        self.exc: list[dict] = []  # contexts passed to the exception handler
        self.set_exception_handler(lambda loop, ctx: self.exc.append(ctx))
        self.on_handle = on_handle
        self.on_boundary = on_boundary
        self.iterations = 0
        self.handles_run = 0
        self.timer_labels: dict[int, str] = {}
        if pytask:
            self.set_task_factory(lambda loop, coro, **kw: tasks._PyTask(coro, loop=loop, **kw))

    # -- clock ---------------------------------------------------------------------------
    def time(self) -> float:
        return self._vt

    def advance(self, delta: float) -> None:
        self._vt += delta

    # -- thread-safety shims (single-threaded world) --------------------------------------
    def call_soon_threadsafe(self, callback, *args, context=None):  # type: ignore[override]
        return self.call_soon(callback, *args, context=context)

    def _write_to_self(self) -> None:  # no self-pipe traffic
        pass

    # -- timers: label at creation --------------------------------------------------------
    def call_at(self, when, callback, *args, context=None):  # type: ignore[override]
        h = super().call_at(when, callback, *args, context=context)
        cur = tasks.current_task(self)
        slf = getattr(callback, "__self__", None)
        if slf is not None and type(slf).__name__ == "Timeout":
            t = getattr(slf, "_task", None)
            lab = f"timeout:{t.get_name() if t else '?'}"
        elif getattr(callback, "__name__", "") == "_set_result_unless_cancelled":
            lab = f"sleep:{cur.get_name() if cur else '?'}:{_coro_name(cur) if cur else '?'}"
        else:
            lab = f"later:{getattr(callback, '__qualname__', repr(callback))}"
        self.timer_labels[id(h)] = lab
        return h

    def armed_timers(self) -> list[tuple[float, str, asyncio.TimerHandle]]:
        out = []
        for h in self._scheduled:
            if not h._cancelled:
                out.append((h._when, self.timer_labels.get(id(h), "?"), h))
        out.sort(key=lambda x: x[0])
        return out

    # -- the iteration ----------------------------------------------------------------------
    def _pre_boundary(self) -> None:
        """Natural virtual time: if nothing is ready, jump to the earliest live deadline."""
        while self._scheduled and self._scheduled[0]._cancelled:
            self._timer_cancelled_count -= 1
            h = heapq.heappop(self._scheduled)
            h._scheduled = False
        if not self._ready and self._scheduled:
            when = self._scheduled[0]._when
            if when > self._vt:
                self._vt = when

    def _move_due_timers(self) -> None:
        end_time = self.time() + self._clock_resolution
        while self._scheduled:
            h = self._scheduled[0]
            if h._when >= end_time:
                break
            h = heapq.heappop(self._scheduled)
            h._scheduled = False
            self._ready.append(h)

    def _run_once(self) -> None:  # type: ignore[override]
        self.iterations += 1
        self._pre_boundary()
        if self.on_boundary is not None:
            self.on_boundary(self)
        event_list = self._selector.select(0)
        self._process_events(event_list)
        event_list = None
        self._move_due_timers()
        ntodo = len(self._ready)
        for _ in range(ntodo):
            handle = self._ready.popleft()
            if handle._cancelled:
                continue
            self.handles_run += 1
            if self.on_handle is not None:
                name = describe_handle(handle)
                handle._run()
                self.on_handle(handle, name)
            else:
                handle._run()
        handle = None

    def quiescent_now(self) -> bool:
        """Nothing ready and nothing due at the current virtual instant."""
        if self._ready:
            return False
        end = self._vt + self._clock_resolution
        return not any((not h._cancelled) and h._when < end for h in self._scheduled)


class Director(VLoop):
    """Scripted boundaries: `decide(loop)` runs at each boundary and may call fire()/inject().

    Natural timer firing is disabled: an armed timer fires only when the script says so; the
    clock is moved to the timer's deadline if that is later than now (never backwards).
    If decide() adds nothing and nothing is ready, `idle` is set and the loop stops.
    """

    def __init__(self, decide: Callable[["Director"], None], **kw: Any) -> None:
        super().__init__(**kw)
        self.decide = decide
        self.idle = False

    def fire(self, h: asyncio.TimerHandle, *, move_clock: bool = False) -> None:
        assert h in self._scheduled and not h._cancelled
        self._scheduled.remove(h)
        heapq.heapify(self._scheduled)
        h._scheduled = False
        if move_clock and h._when > self._vt:
            self._vt = h._when
        self._ready.append(h)

    def inject(self, callback, *args) -> None:
        self._ready.append(events.Handle(callback, args, self))

    def _run_once(self) -> None:  # type: ignore[override]
        self.iterations += 1
        self.decide(self)
        if not self._ready:
            self.idle = True
            self.stop()
        ntodo = len(self._ready)
        for _ in range(ntodo):
            handle = self._ready.popleft()
            if handle._cancelled:
                continue
            self.handles_run += 1
            if self.on_handle is not None:
                name = describe_handle(handle)
                handle._run()
                self.on_handle(handle, name)
            else:
                handle._run()
        handle = None


async def drain(n: int = 12) -> None:
    for _ in range(n):
        await asyncio.sleep(0)


def run(coro_fn: Callable[[], Any], **kw: Any) -> tuple[Any, VLoop]:
    """Run `await coro_fn()` on a fresh VLoop; returns (result, loop).  Loop is closed."""
    loop = VLoop(**kw)
    asyncio.set_event_loop(loop)
    try:
        res = loop.run_until_complete(coro_fn())
        return res, loop
    finally:
        try:
            pending = [t for t in asyncio.all_tasks(loop) if not t.done()]
            for t in pending:
                t.cancel()
            if pending:
                loop.run_until_complete(asyncio.gather(*pending, return_exceptions=True))
        except Exception:  # noqa: BLE001
            pass
        loop.close()
        asyncio.set_event_loop(None)

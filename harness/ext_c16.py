"""C16 helpers: histories derived from the shipped logs, the snapshot/restore pass on real Gateways,
recording of operation traces for SnapshotTrace.  Used by checks/c16.py only."""
from __future__ import annotations

import datetime as _dt
import glob
import json
import os
import random
import re
from typing import Any

from harness import fakes, vloop
from harness.ext_c14 import GRACE_MS, life_ms  # the lifetime of a message's kind, as C14 derives it (J13)

_TS = re.compile(r"^(\d{4}-\d\d-\d\d[T ]\d\d:\d\d:\d\d\.\d{6}) (.*)$")


def tests_dir() -> str:
    repo = os.path.dirname(fakes.REPO_SRC.rstrip("/"))
    t = os.path.join(repo, "tests")
    return t if os.path.isdir(t) else "/repo/tests"


def log_files() -> list[str]:
    return sorted(glob.glob(os.path.join(tests_dir(), "**", "*.log"), recursive=True))


def packet_lines(path: str) -> list[str]:
    """The packet lines of a log (comments / blank lines dropped), each ending in a newline."""
    out = []
    for ln in open(path, errors="replace"):
        s = ln.strip()
        if s and s[:1] != "#" and _TS.match(s):
            out.append(s + "\n")
    return out


def unique_timestamps(lines: list[str]) -> bool:
    """No two different frames share a timestamp (the snapshot is a dict keyed by timestamp)."""
    seen: dict[str, str] = {}
    for ln in lines:
        ts, fr = ln[:26].replace(" ", "T"), ln[27:].split("#")[0].split("<")[0].strip()[4:]
        if seen.setdefault(ts, fr) != fr:
            return False
    return True


def is_chrono(lines: list[str]) -> bool:
    prev = ""
    for ln in lines:
        ts = ln[:26].replace(" ", "T")
        if ts < prev:
            return False
        prev = ts
    return True


# --------------------------------------------------------------------------------------
# derivations (C16's quantifier: prefixes, splices, deletions, duplications)


def derive(rnd: random.Random, base: list[str], other: list[str], how: str) -> list[str]:
    n = len(base)
    if how == "polled":
        return derive_polled(rnd, base)
    if how == "full" or n < 2:
        return list(base)
    if how == "prefix":
        return base[: rnd.randrange(1, n)]
    if how == "delete":
        p = rnd.choice((0.1, 0.3, 0.6))
        return [ln for ln in base if rnd.random() >= p]
    if how == "duplicate":
        out = list(base)
        for _ in range(max(1, n // 10)):
            i = rnd.randrange(len(out))
            j = rnd.randrange(i, len(out) + 1)
            out.insert(j, out[i])  # the same line (same timestamp) again, later
        return out
    if how == "splice":  # a prefix of this system, then (part of) another system's log, then the rest
        i = rnd.randrange(1, n)
        j = rnd.randrange(0, len(other) + 1)
        k = rnd.randrange(j, len(other) + 1)
        return base[:i] + other[j:k] + base[i:]
    if how == "interleave":
        out, a, b = [], list(base), list(other)
        while a or b:
            src = a if (a and (not b or rnd.random() < 0.5)) else b
            out.append(src.pop(0))
        return out
    raise ValueError(how)


# the history as a gateway that polls would have heard it (C16's histories come from gateways that do: the shipped
# logs hold such exchanges, e.g. RQ|1F09 / RP|1F09 in heat_simple): after a controller's announcement of a
# polled code the gateway's RQ for it and the controller's RP - the same data addressed to the gateway, a
# sync-cycle countdown less the time that has passed.  RPs are kept in their own store (code, verb RP).
_ANN = re.compile(r"^(\S+)([T ])(\S+) (\S+)  I --- (01:\d{6}) --:------ \5 (1F09|2309|30C9) (\d{3}) ((?:[0-9A-F]{6})+)\s")
_HGI = re.compile(r" (18:\d{6}) ")


def derive_polled(rnd: random.Random, base: list[str]) -> list[str]:
    hgi = next((m.group(1) for ln in base for m in [_HGI.search(ln)] if m), fakes.GWY_ID)
    out = list(base)
    i = n_ins = 0
    while i < len(out):
        m = _ANN.match(out[i])
        i += 1
        if not m or rnd.random() < 0.5:
            continue
        day, sep, clk, rssi, ctl, code, _, pl = m.groups()
        t0 = _dt.datetime.fromisoformat(f"{day}T{clk}")
        d = rnd.choice((0.4, 7.0, 61.0)) + rnd.randrange(1, 9999) * 1e-6
        if code == "1F09":
            left = max(0, int(pl[2:6], 16) - int(d * 10))
            rq, rp = "00", f"00{left:04X}"
        else:  # one zone of the array
            k = 6 * rnd.randrange(len(pl) // 6)
            rq, rp = pl[k:k + 2], pl[k:k + 6]
        t1, t2 = t0 + _dt.timedelta(seconds=d), t0 + _dt.timedelta(seconds=d + 0.0127)
        fmt = lambda t: t.isoformat(sep=sep, timespec="microseconds")  # noqa: E731
        while i < len(out) and out[i][:26].replace(" ", "T") <= fmt(t2).replace(" ", "T"):
            i += 1  # in arrival order: after what was received before the reply
        out[i:i] = [f"{fmt(t1)} {rssi} RQ --- {hgi} {ctl} --:------ {code} {len(rq) // 2:03d} {rq}\n",
                    f"{fmt(t2)} {rssi} RP --- {ctl} {hgi} --:------ {code} {len(rp) // 2:03d} {rp}\n"]
        i += 2
        n_ins += 1
    return out if n_ins else []


# --------------------------------------------------------------------------------------
# recording


class Interner:
    def __init__(self) -> None:
        self.ids: dict[Any, int] = {}
        self.rev: list[Any] = [None]

    def __call__(self, x: Any) -> int:
        i = self.ids.get(x)
        if i is None:
            i = self.ids[x] = len(self.rev)
            self.rev.append(x)
        return i


class _Clock:
    def __init__(self, now) -> None:
        self.now = now

    def _dt_now(self):
        return self.now


_decode_cache: dict[tuple[str, str], Any] = {}
AGE_CAP_MS = 2_000_000_000  # JSON ints for TLC must stay below 2^31; ~23 days, far beyond 2 x any lifetime (<= 1 day)


def line_facts(dtm: str, line: str, T) -> dict:
    """Re-decode one snapshot line with the library's own decoder (content rules of C16c)."""
    from ramses_tx.message import Message
    from ramses_tx.packet import Packet

    key = (dtm, line)
    m = _decode_cache.get(key)
    if m is None:
        try:
            m = Message(Packet.from_dict(dtm, line))
        except Exception as err:  # noqa: BLE001
            m = err
        _decode_cache[key] = m
    if isinstance(m, Exception):
        return {"und": True, "rq": False, "wr": False, "tc": False, "exp": False, "age": 0, "life": -1}
    m._gwy = _Clock(T)  # type: ignore[assignment]
    m._fraction_expired = None
    try:
        exp = bool(m._expired)
    except Exception:  # noqa: BLE001
        exp = False
    # the inputs of C14's lifetime rule (judged in SnapshotTrace, independently of `_expired`): the packet's age
    # by the clock of the snapshot, rounded down, and the lifetime of its kind as C14 reads it (the payload's
    # countdown for a 1F09 of any verb but RQ, else the packet's lifespan; -1 = never; both are whole ms)
    try:
        life = life_ms(m)
    except Exception:  # noqa: BLE001  (no lifetime to be had: nothing is demanded)
        life = -1
    if 2 * life + GRACE_MS >= AGE_CAP_MS:
        raise RuntimeError(f"lifetime {life} ms of {line!r} is beyond the age cap")
    age = max(0, min(AGE_CAP_MS, (T - m.dtm) // _dt.timedelta(milliseconds=1)))
    return {"und": False, "rq": m.verb == "RQ", "wr": m.verb == " W" and m.code != "0404",
            "tc": m.code == "313F", "exp": exp, "age": int(age), "life": life}


def snap_record(gwy: Any, g: int, ie: int, T, pid: Interner, sid: Interner) -> tuple[dict, dict | None]:
    from ramses_rf.helpers import shrink

    rec = {"op": "snap", "g": g, "ie": ie, "src": 0, "ok": 1, "pk": [], "exp": [], "rq": [], "wr": [],
           "und": [], "tc": [], "age": [], "life": [], "sch": 0}
    try:
        schema, pkts = gwy.get_state(include_expired=bool(ie))
    except Exception as err:  # noqa: BLE001
        rec["ok"] = 0
        rec["err"] = f"{type(err).__name__}: {err}"
        return rec, None
    for dtm, line in pkts.items():
        # a packet = timestamp + frame; the trailing "# header (ctx)" comment of repr(pkt) is derived
        # data (it differs when the library treated the frame as an array fragment) and not compared
        i = pid((dtm, line.split("#")[0].rstrip()))
        rec["pk"].append(i)
        f = line_facts(dtm, line, T)
        for k in ("exp", "rq", "wr", "und", "tc"):
            if f[k]:
                rec[k].append(i)
        rec["age"].append(f["age"])
        rec["life"].append(f["life"])
    rec["sch"] = sid(json.dumps(shrink(schema), sort_keys=True))
    return rec, pkts


async def fresh_gateway(T, cfg: dict) -> Any:
    g = await fakes.load_log_gateway([], **cfg)
    g._transport._dt_now = lambda: T  # the fresh gateway's clock stands where the source's stands
    return g


async def one_pass(lines: list[str], ie: int, eav: int, g_src: int, g_new: int, pid: Interner, sid: Interner,
                   verbose: bool = False, age_s: float = 0.0) -> list[dict]:
    """snapshot -> fresh gateway -> snapshot -> same snapshot again -> snapshot; then the snapshot back
    into its source -> snapshot.  All observations after the loop has drained (J1)."""
    cfg = {"config": {"enable_eavesdrop": bool(eav), "disable_discovery": True}}
    ops: list[dict] = []
    src = await fakes.load_log_gateway(lines, **cfg)
    new = None
    try:
        T = src._dt_now()
        await vloop.drain()
        if age_s:
            # the state is read once while the last packets are fresh (a snapshot nobody keeps, all views), then the
            # clock moves on: what was looked at while fresh must age like everything else
            try:
                src.get_state(include_expired=True)
                for d in list(src.devices):
                    _ = d.status
            except Exception:  # noqa: BLE001  (C13's subject)
                pass
            T = T + _dt.timedelta(seconds=age_s)
            src._transport._dt_now = lambda: T
            await vloop.drain()
        r1, pk = snap_record(src, g_src, ie, T, pid, sid)
        ops.append(r1)
        await vloop.drain()
        if pk is None:
            return ops
        new = await fresh_gateway(T, cfg)

        async def restore(gw: Any, g: int) -> None:
            rec = {"op": "restore", "g": g, "ie": ie, "src": 1, "ok": 1, "pk": [], "exp": [], "rq": [],
                   "wr": [], "und": [], "tc": [], "age": [], "life": [], "sch": 0}
            try:
                await gw._restore_cached_packets(dict(pk))
            except Exception as err:  # noqa: BLE001
                rec["ok"] = 0
                rec["err"] = f"{type(err).__name__}: {err}"
            await vloop.drain()
            ops.append(rec)

        for gw, g in ((new, g_new), (new, g_new), (src, g_src)):
            await restore(gw, g)
            r, _ = snap_record(gw, g, ie, T, pid, sid)
            ops.append(r)
            await vloop.drain()
    finally:
        for gw in (src, new):
            if gw is not None:
                try:
                    await gw.stop()
                except Exception:  # noqa: BLE001
                    pass
    if verbose:
        for i, o in enumerate(ops, 1):
            print(f"  op {i}: {o['op']:7} g={o['g']} ie={o['ie']} ok={o['ok']} n={len(o['pk'])} expired={len(o['exp'])} "
                  f"schema#{o['sch']} {o.get('err', '')}")
    return ops


async def run_history(lines: list[str], eav: int, pid: Interner, sid: Interner, verbose: bool = False,
                      age_s: float = 0.0) -> dict:
    ops1 = await one_pass(lines, 1, eav, 1, 2, pid, sid, verbose, age_s)
    ops0 = await one_pass(lines, 0, eav, 3, 4, pid, sid, verbose, age_s)
    off = len(ops1)
    for o in ops0:  # src refers to the op number of the pass's first snapshot
        if o["op"] == "restore":
            o["src"] = off + 1
    ops = ops1 + ops0
    for o in ops:
        o.pop("err", None)
    return {"eav": eav, "chrono": 1 if is_chrono(lines) else 0, "uniq": 1 if unique_timestamps(lines) else 0,
            "ops": ops}


# --------------------------------------------------------------------------------------
# concretising a Snapshot model history (the counter-example of MC_Snapshot_order)

CTL = "01:145038"
ZMAP = {"z0": ["00", "01"], "z1": ["02", "03"]}


def concretise_model_history(h: tuple) -> list[str]:
    """Model messages (code 1 = 30C9, arrays over the zone pairs of ZMAP) -> log lines in arrival order."""
    base = _dt.datetime(2026, 1, 1, 12, 0, 0)
    lines = [f"{(base - _dt.timedelta(seconds=60)).isoformat(timespec='microseconds')} ... RP --- {CTL} 18:013393 "
             f"--:------ 0005 004 00080F00\n"]
    for i, m in enumerate(h):
        if m["code"] != 1:
            raise ValueError("only code 1 is concretised")
        dtm = (base + _dt.timedelta(seconds=10 * m["t"], microseconds=0 if True else i)).isoformat(timespec="microseconds")
        zones = sorted(z for a in m["zs"] for z in ZMAP[a])
        val = 2000 + 10 * i
        if m["arr"]:
            pl = "".join(f"{z}{val + int(z, 16):04X}" for z in zones)
            lines.append(f"{dtm} ...  I --- {CTL} --:------ {CTL} 30C9 {len(pl) // 2:03d} {pl}\n")
        elif m["verb"] == "RQ":
            lines.append(f"{dtm} ... RQ --- 18:013393 {CTL} --:------ 30C9 001 {zones[0]}\n")
        else:
            lines.append(f"{dtm} ... RP --- {CTL} 18:013393 --:------ 30C9 003 {zones[0]}{val:04X}\n")
    return lines

"""C10 helpers: concretise DevFilter rows and execute them on the real ramses_tx / ramses_rf objects.

Nothing here decides anything: every function records what the real code did with a row
(delivered / newdevs / refused / written / wanted); spec/DevFilterTrace.tla is the judge.
"""
from __future__ import annotations

import asyncio
import datetime as _dt
import os
import signal
import tempfile
from typing import Any

from harness import fakes, vloop
from harness.fakes import VDT, FakeTransport

fakes.quiet_logging()

from ramses_rf import Gateway  # noqa: E402
from ramses_tx import exceptions as exc  # noqa: E402
from ramses_tx.command import Command  # noqa: E402
from ramses_tx.const import SZ_ACTIVE_HGI  # noqa: E402
from ramses_tx.message import Message  # noqa: E402
from ramses_tx.packet import Packet  # noqa: E402
from ramses_tx.protocol import PortProtocol, ReadProtocol, _DeviceIdFilterMixin  # noqa: E402
from ramses_tx.schemas import select_device_filter_mode  # noqa: E402
from ramses_tx.typing import QosParams  # noqa: E402

IDS = {"Listed": "04:111111", "Unlisted": "04:222222", "Blocked": "04:333333", "ListedAndBlocked": "04:444444",
       "Gwy": "18:555555", "Foreign18": "18:666666", "Placeholder": "18:000730", "Broadcast": "63:262142",
       "Null": "--:------"}
DEV_TYPES = [f"{i:02d}" for i in range(64)]
PLACEHOLDER = "18:000730"


def ids_for_type(typ: str) -> dict[str, str]:
    d = dict(IDS)
    d.update({"Listed": f"{typ}:111111", "Unlisted": f"{typ}:222222", "Blocked": f"{typ}:333333",
              "ListedAndBlocked": f"{typ}:444444"})
    return d


def watchdog(secs: int) -> None:
    """A hang of the library (it has blocking threading locks) must become a machinery failure."""
    def _h(signum, frame):  # noqa: ANN001
        raise RuntimeError(f"watchdog: no completion within {secs}s (hang in the code under test or the harness)")
    signal.signal(signal.SIGALRM, _h)
    signal.alarm(secs)


def known_nonempty(cfg: dict) -> bool:
    return bool(cfg["kl"] or cfg["hgi"] != "no" or cfg["ph"] == "known" or cfg["fgn"] == "known")


def concretise(cfg: dict, ids: dict[str, str]) -> tuple[dict, dict, bool, str | None]:
    """Configuration record -> (known_list, block_list, enforce_known_list as configured, active gateway id)."""
    known: dict[str, dict] = {}
    block: dict[str, dict] = {}
    if cfg["kl"]:
        known[ids["Listed"]] = {}
        known[ids["ListedAndBlocked"]] = {}
    if cfg["hgi"] == "explicit":
        known[ids["Gwy"]] = {"class": "HGI"}
    elif cfg["hgi"] == "implicit":
        known[ids["Gwy"]] = {}
    if cfg["ph"] == "known":
        known[ids["Placeholder"]] = {}
    if cfg["fgn"] == "known":
        known[ids["Foreign18"]] = {}
    if cfg["bl"]:
        block[ids["Blocked"]] = {}
        block[ids["ListedAndBlocked"]] = {}
    if cfg["gwb"]:
        block[ids["Gwy"]] = {}
    if cfg["ph"] == "block":
        block[ids["Placeholder"]] = {}
    if cfg["fgn"] == "block":
        block[ids["Foreign18"]] = {}
    active = {"gwy": ids["Gwy"], "foreign": ids["Foreign18"], "none": None}[cfg["act"]]
    return known, block, bool(cfg["enf"]), active


def describe_cfg(cfg: dict, ids: dict[str, str]) -> str:
    known, block, enf, active = concretise(cfg, ids)
    return f"known_list={known} block_list={block} enforce_known_list={enf} active_gwy={active}"


def frame_of(row: dict, ids: dict[str, str], ticker: int = 0xAAD4) -> str:
    s, d = ids[row["src"]], ids[row["dst"]]
    body = f"1FD4 003 00{ticker & 0xFFFF:04X}"
    if row["shape"] == "a0_a2":
        return f" I --- {s} --:------ {d} {body}"
    if row["shape"] == "a0a1_":
        return f" I --- {s} {d} --:------ {body}"
    return f" I --- --:------ --:------ {s} {body}"


_DECODABLE: dict[str, bool] = {}


def decodable(frame: str, as_cmd: bool) -> bool:
    """Precondition of a row: its frame is a packet (or command) the library accepts in isolation."""
    k = ("c" if as_cmd else "p") + frame[:-4]
    if k not in _DECODABLE:
        try:
            if as_cmd:
                Command(frame)
            else:
                Message(Packet(_dt.datetime(2026, 1, 1), f"045 {frame}"))
            _DECODABLE[k] = True
        except Exception:  # noqa: BLE001
            _DECODABLE[k] = False
    return _DECODABLE[k]


class Xport(FakeTransport):
    """FakeTransport that echoes every written frame (as evofw3 does, with its own id for the placeholder)."""

    def __init__(self, protocol, loop, active: str | None) -> None:
        super().__init__(protocol, loop, gwy_id=active or PLACEHOLDER, on_write=None)
        self.active = active
        if active is None:      # see c10_NOTES.md: a None value here trips an unrelated defect in protocol_fsm
            del self._info[SZ_ACTIVE_HGI]
        self.on_write = self._echo

    def _echo(self, _t, frame: str) -> None:
        if self.active and frame[7:16] == PLACEHOLDER:      # evofw3 puts its own id in addr0
            frame = frame[:7] + self.active + frame[16:]
        try:
            pkt = self.make_pkt(frame)
        except exc.PacketInvalid:       # e.g. addr0 == addr1 after the substitution: no echo is heard
            return
        self.loop.call_later(0.001, self.loop.call_soon, self.p.pkt_received, pkt)


def _roles(new_ids, ids: dict[str, str]) -> list[str]:
    inv = {v: k for k, v in ids.items()}
    return sorted(inv.get(i, "Other") for i in new_ids)


def _blank(row: dict) -> dict:
    return {"src": row["src"], "dst": row["dst"], "shape": row["shape"], "dir": row["dir"], "delivered": False,
            "newdevs": 0, "devroles": [], "refused": False, "written": False, "cansend": True, "wanted": -1, "exc": "",
            "stale": False}


def _handled(gwy, pkt) -> bool:
    """The library's own entity layer took the packet in: its source device holds it as its latest of that code."""
    dev = gwy.device_by_id.get(pkt.src.id)
    try:
        m = dev._msgs_.get(pkt.code) if dev is not None else None
        return m is not None and m._pkt.payload == pkt.payload and m._pkt.dtm == pkt.dtm
    except Exception:  # noqa: BLE001
        return False


async def _drain(n: int = 3) -> None:
    for _ in range(n):
        await asyncio.sleep(0)


def _make_protocol(cls, cfg, ids, got):
    known, block, enf_req, active = concretise(cfg, ids)
    enforce = select_device_filter_mode(enf_req, known, block)      # as ramses_tx.gateway.Engine does
    kw = dict(enforce_include_list=enforce, exclude_list=block, include_list=known)
    if cls is PortProtocol:
        return PortProtocol(got.append, disable_qos=False, **kw), active
    return ReadProtocol(got.append, **kw), active


async def _send(call, cmd: Command, t: Xport, out: dict) -> None:
    t.written.clear()
    try:
        await call(cmd)
    except Exception as err:  # noqa: BLE001  (the type is recorded, not judged)
        out["refused"] = True
        out["exc"] = type(err).__name__
    out["written"] = any(w[1] == str(cmd) for w in t.written)
    await asyncio.sleep(0.01)     # let the echo come back and the FSM return to idle
    await _drain()


# ------------------------------------------------------------------------------------------------
async def run_proto_port(run: dict) -> list[dict]:
    loop = asyncio.get_running_loop()
    VDT._loop = loop
    cfg, ids, got, out = run["cfg"], run["ids"], [], []
    p, active = _make_protocol(PortProtocol, cfg, ids, got)
    t = Xport(p, loop, active)
    p.connection_made(t, ramses=True)
    await _drain()
    for n, row in enumerate(run["rows"]):
        fr = frame_of(row, ids, n)
        o = _blank(row)
        if row["dir"] == "rx":
            if not decodable(fr, False):
                continue
            pkt = t.make_pkt(fr)
            o["wanted"] = int(p._is_wanted_addrs(pkt.src.id, pkt.dst.id))
            got.clear()
            p.pkt_received(pkt)
            await _drain()
            o["delivered"] = len(got) > 0
        else:
            if not decodable(fr, True):
                continue
            cmd = Command(fr)
            o["wanted"] = int(p._is_wanted_addrs(cmd.src.id, cmd.dst.id, sending=True))
            await _send(lambda c: p.send_cmd(c, qos=QosParams(max_retries=0, timeout=2)), cmd, t, o)
        out.append(o)
    return out


async def run_proto_late(run: dict) -> list[dict]:
    """History independence: the same address pairs are offered *before* the transport has reported the active
    gateway (judged under the configuration with no active gateway, item `proto_late_pre`) and again after
    connection_made() (judged under the configuration itself): what the filter answered earlier must not matter."""
    loop = asyncio.get_running_loop()
    VDT._loop = loop
    cfg, ids, got = run["cfg"], run["ids"], []
    p, active = _make_protocol(PortProtocol, cfg, ids, got)
    t = Xport(p, loop, active)
    pre: list[dict] = []
    for n, row in enumerate(run["rows"]):
        if row["dir"] != "rx":
            continue
        fr = frame_of(row, ids, n)
        if not decodable(fr, False):
            continue
        o = _blank(row)
        pkt = t.make_pkt(fr)
        got.clear()
        p.pkt_received(pkt)
        await _drain()
        o["delivered"] = len(got) > 0
        pre.append(o)
    run["_pre_out"] = pre
    p.connection_made(t, ramses=True)
    await _drain()
    out = []
    for n, row in enumerate(run["rows"]):
        fr = frame_of(row, ids, n)
        o = _blank(row)
        if row["dir"] == "rx":
            if not decodable(fr, False):
                continue
            pkt = t.make_pkt(fr)
            got.clear()
            p.pkt_received(pkt)
            await _drain()
            o["delivered"] = len(got) > 0
        else:
            if not decodable(fr, True):
                continue
            cmd = Command(fr)
            await _send(lambda c: p.send_cmd(c, qos=QosParams(max_retries=0, timeout=2)), cmd, t, o)
        out.append(o)
    return out


async def run_proto_recon(run: dict) -> list[dict]:
    """Life cycle of one protocol object (DevFilter: Lost / Made): after the connection cfg.act describes, the
    connection is lost and made again - opts["walk"] = what each later transport reports as its active gateway
    ("gwy" / "foreign" / "none": the same dongle, another one, an unknown one).  The rows are offered in every
    phase, also while the connection is down (receive only: there is nothing to send through); each phase is an
    item of its own whose `conns` says what had happened to the connection until then - which configuration is
    in force in a phase is DevFilter!InForce's business, not this function's.  Nothing is done to the protocol
    between the phases but what a transport does: call_soon(connection_lost, None), connection_made(t, ramses=True)."""
    loop = asyncio.get_running_loop()
    VDT._loop = loop
    cfg, ids, opts, got = run["cfg"], run["ids"], run.get("opts", {}), []
    p, active = _make_protocol(PortProtocol, cfg, ids, got)
    t = Xport(p, loop, active)
    p.connection_made(t, ramses=True)
    await _drain()
    conns: list[str] = []
    phases: list[dict] = []

    async def offer(up: bool) -> None:
        out = []
        for n, row in enumerate(run["rows"]):
            fr = frame_of(row, ids, n)
            o = _blank(row)
            if row["dir"] == "rx":
                if not decodable(fr, False):
                    continue
                pkt = t.make_pkt(fr)
                got.clear()
                try:    # (a filter that raises has neither passed nor announced anything: the packet was not delivered)
                    o["wanted"] = int(p._is_wanted_addrs(pkt.src.id, pkt.dst.id))
                    p.pkt_received(pkt)
                except Exception as err:  # noqa: BLE001
                    o["exc"] = type(err).__name__
                await _drain()
                o["delivered"] = len(got) > 0
            else:
                if not up or not decodable(fr, True):
                    continue
                cmd = Command(fr)
                try:
                    o["wanted"] = int(p._is_wanted_addrs(cmd.src.id, cmd.dst.id, sending=True))
                except Exception as err:  # noqa: BLE001
                    o["exc"] = type(err).__name__
                await _send(lambda c: p.send_cmd(c, qos=QosParams(max_retries=0, timeout=2)), cmd, t, o)
            out.append(o)
        phases.append({"conns": list(conns), "rows": out})

    # the calendar moves on while the protocol lives: every re-connection happens on the next day (the filter keeps a
    # per-day memory of the foreign gateways it has warned about; what it passes and drops must not depend on the date)
    import ramses_tx.protocol as _pm
    from datetime import timedelta as _td

    class _Cal(_pm.dt):  # type: ignore[name-defined, misc]
        off = 0

        @classmethod
        def now(cls, tz=None):
            return _real_dt.now(tz) + _td(days=cls.off)

    _real_dt = _pm.dt
    _pm.dt = _Cal  # type: ignore[misc]
    try:
        await offer(True)
        for act in opts["walk"]:
            t.close()                           # the transport goes away and says so: call_soon(connection_lost, None)
            await _drain()
            conns.append("lost")
            await offer(False)
            t = Xport(p, loop, {"gwy": ids["Gwy"], "foreign": ids["Foreign18"], "none": None}[act])
            # from the loop, as a transport does it: an exception in connection_made() goes where it goes in the field
            # (the loop's exception handler), and the rows meet the protocol in the state that leaves it in
            loop.call_soon(lambda t=t: p.connection_made(t, ramses=True))
            await _drain()
            conns.append(act)
            _Cal.off += 1
            await offer(True)
    finally:
        _pm.dt = _real_dt  # type: ignore[misc]
    run["_phases"] = phases
    return phases[-1]["rows"]


async def run_proto_read(run: dict) -> list[dict]:
    loop = asyncio.get_running_loop()
    VDT._loop = loop
    cfg, ids, got, out = run["cfg"], run["ids"], [], []
    p, _active = _make_protocol(ReadProtocol, cfg, ids, got)
    t = Xport(p, loop, None)
    p.connection_made(t, ramses=True)
    await _drain()
    for n, row in enumerate(run["rows"]):
        fr = frame_of(row, ids, n)
        o = _blank(row)
        o["cansend"] = False
        if row["dir"] == "rx":
            if not decodable(fr, False):
                continue
            pkt = t.make_pkt(fr)
            o["wanted"] = int(p._is_wanted_addrs(pkt.src.id, pkt.dst.id))
            got.clear()
            p.pkt_received(pkt)
            await _drain()
            o["delivered"] = len(got) > 0
        else:
            if not decodable(fr, True):
                continue
            cmd = Command(fr)
            o["wanted"] = int(p._is_wanted_addrs(cmd.src.id, cmd.dst.id, sending=True))
            # the filter gate of the mixin itself (ReadProtocol.send_cmd refuses everything before it)
            await _send(lambda c: _DeviceIdFilterMixin.send_cmd(p, c), cmd, t, o)
        out.append(o)
    return out


async def _make_gateway(cfg: dict, ids: dict, eavesdrop: bool, input_file=None):
    import ramses_tx.gateway as txgw

    loop = asyncio.get_running_loop()
    VDT._loop = loop
    known, block, enf_req, active = concretise(cfg, ids)
    holder: dict = {}

    async def tf(protocol, **kw):  # noqa: ANN001
        t = Xport(protocol, loop, active)
        holder["t"] = t
        loop.call_soon(lambda: protocol.connection_made(t, ramses=True))
        return t

    config = {"disable_discovery": True, "enforce_known_list": enf_req, "enable_eavesdrop": eavesdrop}
    got: list = []
    if input_file is not None:
        gwy = Gateway(None, input_file=input_file, config=config, known_list=known, block_list=block)
        gwy.add_msg_handler(got.append)
        await gwy.start()
        await _drain(12)
        return gwy, None, got
    old = txgw.transport_factory
    txgw.transport_factory = tf
    try:
        gwy = Gateway("/dev/fake", config=config, known_list=known, block_list=block)
        gwy.add_msg_handler(got.append)
        await gwy.start()
    finally:
        txgw.transport_factory = old
    await _drain(5)
    return gwy, holder["t"], got


async def run_gateway(run: dict) -> list[dict]:
    cfg, ids, opts, out = run["cfg"], run["ids"], run.get("opts", {}), []
    rows = [(n, r) for n, r in enumerate(run["rows"]) if r["dir"] == "rx"]
    groups: dict[Any, list] = {}
    retry: list = []
    for n, r in rows:
        groups.setdefault(n if opts.get("fresh") else r["src"], []).append((n, r))
    for grp in groups.values():
        gwy, t, got = await _make_gateway(cfg, ids, bool(opts.get("eavesdrop")))
        for n, row in grp:
            fr = frame_of(row, ids, n)
            if not decodable(fr, False):
                continue
            o = _blank(row)
            pkt = t.make_pkt(fr)
            o["wanted"] = int(gwy._protocol._is_wanted_addrs(pkt.src.id, pkt.dst.id))
            got.clear()
            before = set(gwy.device_by_id)
            t.loop.call_soon(gwy._protocol.pkt_received, pkt)
            await _drain(6)
            o["delivered"] = len(got) > 0
            o["newdevs"] = len(set(gwy.device_by_id) - before)
            o["devroles"] = _roles(set(gwy.device_by_id) - before, ids)
            if o["delivered"] and not row.get("drop") and not opts.get("fresh") and not _handled(gwy, pkt):
                retry.append((o, fr))
            out.append(o)
        await gwy.stop()
    # a packet that reached the application but not the library's own entity layer: is that the packet (code /
    # device class rules of the dispatcher) or what this gateway had received before?  The same packet alone,
    # in a gateway of its own, tells: handled there = it was dropped here because of earlier traffic ("stale")
    for o, fr in retry[:400]:
        gwy, t, got = await _make_gateway(cfg, ids, bool(opts.get("eavesdrop")))
        pkt = t.make_pkt(fr)
        t.loop.call_soon(gwy._protocol.pkt_received, pkt)
        await _drain(6)
        o["stale"] = _handled(gwy, pkt)
        await gwy.stop()
    return out


async def _restart_gateway(gwy, ids: dict, act: str):
    """Gateway.stop() + Gateway.start() of the same object (the public way to a new connection of its protocol);
    the transport the engine is given now reports `act` as its active gateway."""
    import ramses_tx.gateway as txgw

    loop = asyncio.get_running_loop()
    holder: dict = {}

    async def tf(protocol, **kw):  # noqa: ANN001
        t = Xport(protocol, loop, {"gwy": ids["Gwy"], "foreign": ids["Foreign18"], "none": None}[act])
        holder["t"] = t
        loop.call_soon(lambda: protocol.connection_made(t, ramses=True))
        return t

    await gwy.stop()
    await _drain(5)
    old = txgw.transport_factory
    txgw.transport_factory = tf
    try:
        await gwy.start()
    finally:
        txgw.transport_factory = old
    await _drain(5)
    return holder["t"]


async def run_send(run: dict) -> list[dict]:
    """opts["walk"] (level `send_recon`): after the rows the gateway is stopped and started again, its new transport
    reporting the next act of the walk, and the rows are sent again - one phase (item) per connection."""
    cfg, ids, opts = run["cfg"], run["ids"], run.get("opts", {})
    gwy, t, _got = await _make_gateway(cfg, ids, False)
    conns: list[str] = []
    phases: list[dict] = []
    for act in [None] + list(opts.get("walk", [])):
        if act is not None:
            t = await _restart_gateway(gwy, ids, act)
            conns += ["lost", act]
        out = []
        for n, row in enumerate(run["rows"]):
            if row["dir"] != "tx":
                continue
            fr = frame_of(row, ids, n)
            if not decodable(fr, True):
                continue
            o = _blank(row)
            cmd = Command(fr)
            o["wanted"] = int(gwy._protocol._is_wanted_addrs(cmd.src.id, cmd.dst.id, sending=True))
            await _send(lambda c: gwy.async_send_cmd(c, max_retries=0, timeout=2), cmd, t, o)
            out.append(o)
        phases.append({"conns": list(conns), "rows": out})
    await gwy.stop()
    if "walk" in opts:
        run["_phases"] = phases
    return phases[-1]["rows"]


async def run_file(run: dict) -> list[dict]:
    """A real Gateway replaying a one-line packet log through the real FileTransport (ReadProtocol inside)."""
    cfg, ids, opts, out = run["cfg"], run["ids"], run.get("opts", {}), []
    for n, row in enumerate(run["rows"]):
        if row["dir"] != "rx":
            continue
        fr = frame_of(row, ids, n)
        if not decodable(fr, False):
            continue
        o = _blank(row)
        o["cansend"] = False
        fd, path = tempfile.mkstemp(suffix=".log", prefix="c10_")
        os.write(fd, f"2026-01-01T12:00:00.000000 045 {fr}\n".encode())
        os.close(fd)
        fh = open(path)
        try:
            gwy, _t, got = await _make_gateway(cfg, ids, bool(opts.get("eavesdrop")), input_file=fh)
        finally:
            fh.close()
            os.unlink(path)
        o["delivered"] = len(got) > 0
        o["newdevs"] = len(gwy.device_by_id)
        o["devroles"] = _roles(set(gwy.device_by_id), ids)
        out.append(o)
    return out


async def run_restore(run: dict) -> list[dict]:
    """Gateway._restore_cached_packets(): a temporary ReadProtocol with its own enforcement decision.
    Application handlers are not attached to it, so only `newdevs` is meaningful at this level."""
    cfg, ids, out = run["cfg"], run["ids"], []
    for n, row in enumerate(run["rows"]):
        if row["dir"] != "rx":
            continue
        fr = frame_of(row, ids, n)
        if not decodable(fr, False):
            continue
        o = _blank(row)
        gwy, _t, _got = await _make_gateway(cfg, ids, False)
        before = set(gwy.device_by_id)
        await gwy._restore_cached_packets({"2026-01-01T12:00:00.000000": f"045 {fr}"})
        await _drain(12)
        o["newdevs"] = len(set(gwy.device_by_id) - before)
        o["devroles"] = _roles(set(gwy.device_by_id) - before, ids)
        await gwy.stop()
        out.append(o)
    return out


async def run_app(run: dict) -> list[dict]:
    """The application (or a payload that names a device) asks the gateway for a device by id: Gateway.get_device()
    -> check_filter_lists.  One row per role that is an id; only `newdevs`/`devroles` are meaningful."""
    cfg, ids, out = run["cfg"], run["ids"], []
    for role in ("Listed", "Unlisted", "Blocked", "ListedAndBlocked", "Gwy", "Foreign18", "Placeholder"):
        if role == "Gwy" and cfg["gwb"]:
            # the gateway's own id in the block list is a configuration the library rejects (error log "MUST NOT be
            # in the block_list"), and get_device() exempts the gateway's own id from both lists on purpose ("have to
            # allow for GWY not being in known_list"): asking for that device by name is not a packet giving rise to
            # a device - not judged here (the packet levels do judge a block-listed gateway) (J28)
            continue
        # the same holds whichever id is the gateway's own: the foreign 18: id when the transport reports it as the active
        # gateway, the placeholder 18:000730 when the transport reports none (protocol.hgi_id falls back to it)
        if (role == "Foreign18" and cfg["act"] == "foreign" and cfg["fgn"] == "block") or \
                (role == "Placeholder" and cfg["act"] == "none" and cfg["ph"] == "block"):
            continue
        for again in (False, True):     # asked once / asked again after having been refused or created once
            row = {"src": role, "dst": "Null", "shape": "__a2", "dir": "rx"}
            o = _blank(row)
            o["cansend"] = False
            gwy, _t, _got = await _make_gateway(cfg, ids, False)
            before = set(gwy.device_by_id)
            for _ in range(2 if again else 1):
                try:
                    gwy.get_device(ids[role])
                except LookupError:
                    o["refused"] = True
                except Exception as err:  # noqa: BLE001
                    o["exc"] = type(err).__name__
            await _drain(4)
            o["newdevs"] = len(set(gwy.device_by_id) - before)
            o["devroles"] = _roles(set(gwy.device_by_id) - before, ids)
            await gwy.stop()
            out.append(o)
    return out


RUNNERS = {"app": run_app, "proto_port": run_proto_port, "proto_recon": run_proto_recon, "proto_read": run_proto_read, "proto_late": run_proto_late,
           "gateway": run_gateway, "send": run_send, "send_recon": run_send,
           "file": run_file, "restore": run_restore}


LOOP_EXC: list[str] = []


def execute_runs(runs: list[dict]) -> tuple[list[dict], int]:
    items, skipped = [], 0
    for run in runs:
        lvl = run["lvl"]
        opts = run.get("opts", {})
        rows, loop = vloop.run(lambda: RUNNERS[lvl](run))
        for ctx in loop.exc[:3]:
            LOOP_EXC.append(f"{lvl}: {ctx.get('message')} {ctx.get('exception')!r}"[:300])
        if lvl in ("proto_recon", "send_recon"):    # one item per phase of the life cycle, each with the history that led to it
            for ph in run.pop("_phases"):
                up = not ph["conns"] or ph["conns"][-1] != "lost"
                skipped += sum(1 for r in run["rows"] if (up and lvl == "proto_recon") or
                               r["dir"] == ("tx" if lvl == "send_recon" else "rx")) - len(ph["rows"])
                for r in ph["rows"]:
                    r.pop("exc", None)
                items.append({"cfg": run["cfg"], "conns": ph["conns"], "lvl": lvl, "ids": run["ids"], "opts": opts,
                              "rows": ph["rows"]})
            continue
        want = sum(1 for r in run["rows"] if lvl in ("proto_port", "proto_read", "proto_late") or
                   r["dir"] == ("tx" if lvl == "send" else "rx"))
        if lvl != "app":    # (its rows are its own: one per id role)
            skipped += want - len(rows)
        for r in rows:
            r.pop("exc", None)
        name = lvl + ("+eav" if opts.get("eavesdrop") else "") + ("+fresh" if opts.get("fresh") else "")
        items.append({"cfg": run["cfg"], "lvl": name, "ids": run["ids"], "opts": opts, "rows": rows})
        if lvl == "proto_late":
            pre = run.get("_pre_out", [])
            for r in pre:
                r.pop("exc", None)
            items.append({"cfg": opts["pre_cfg"], "lvl": "proto_late_pre", "ids": run["ids"], "opts": opts, "rows": pre})
    return [i for i in items if i["rows"]], skipped


def count_levels(items: list[dict]) -> dict[str, int]:
    out: dict[str, int] = {}
    for it in items:
        out[it["lvl"]] = out.get(it["lvl"], 0) + len(it["rows"])
    return out


def histogram(items: list[dict]) -> dict[str, dict[str, int]]:
    """How often each outcome was seen per level (shows the table is not vacuous)."""
    out: dict[str, dict[str, int]] = {}
    for it in items:
        h = out.setdefault(it["lvl"], {})
        for r in it["rows"]:
            if r["dir"] == "rx":
                k = f"rx delivered={int(r['delivered'])} newdevs={r['newdevs']}"
            else:
                k = f"tx written={int(r['written'])} refused={int(r['refused'])}"
            h[k] = h.get(k, 0) + 1
    return out

"""Fakes that let the real ramses_tx / ramses_rf objects run on a VLoop without hardware.

FakeTransport      protocol-level transport (write_frame/get_extra_info/_dt_now/close/pause/resume)
make_port_gateway  a real Gateway("/dev/fake") bound to a FakeTransport (via ramses_tx.gateway.transport_factory)
load_log_gateway   a real Gateway replaying log lines through the real FileTransport
Ether              joins several FakeTransports (loss/dup/delay decided by a policy callback)
VDT                datetime subclass whose now() follows the loop's virtual clock
"""
from __future__ import annotations

import asyncio
import datetime as _dtmod
import logging
import os
import sys
import tempfile
from typing import Any, Callable

REPO_SRC = os.environ.get("VERIF_REPO_SRC", "/repo/src")
if REPO_SRC not in sys.path:
    sys.path.insert(0, REPO_SRC)

EPOCH = _dtmod.datetime(2026, 1, 1, 12, 0, 0)
GWY_ID = "18:111111"


class VDT(_dtmod.datetime):
    """datetime whose now() = EPOCH + loop virtual time (set VDT._loop first)."""

    _loop: Any = None

    @classmethod
    def now(cls, tz=None):  # type: ignore[override]
        t = cls._loop.time() if cls._loop is not None else 0.0
        return EPOCH + _dtmod.timedelta(seconds=t)


def quiet_logging() -> None:
    logging.disable(logging.CRITICAL)


class FakeTransport:
    """Protocol-level fake.  `on_write(transport, frame)` decides what the world answers."""

    def __init__(self, protocol, loop, *, gwy_id: str = GWY_ID, is_evofw3: bool = True,
                 on_write: Callable[["FakeTransport", str], None] | None = None) -> None:
        from ramses_tx.const import SZ_ACTIVE_HGI, SZ_IS_EVOFW3
        self.p, self.loop, self.gwy_id = protocol, loop, gwy_id
        self._info = {SZ_ACTIVE_HGI: gwy_id, SZ_IS_EVOFW3: is_evofw3}
        self._extra: dict = {}
        self.on_write = on_write
        self.written: list[tuple[float, str]] = []
        self.fail_next_write: BaseException | None = None
        self.reading = True
        self.closed = False
        # seconds by which the clock that stamps received packets (Packet.dtm) differs from this transport's own
        # _dt_now(): 0 = a serial port (PortTransport stamps with its own clock); non-zero = a transport whose
        # packets carry a remote device's time (c.f. MqttTransport._on_message: dtm = payload["ts"])
        self.stamp_offset = 0.0

    def get_extra_info(self, name, default=None):
        return self._info.get(name, default)

    def _dt_now(self):
        return VDT.now()

    def close(self) -> None:
        self.closed = True
        self.loop.call_soon(self.p.connection_lost, None)

    def is_closing(self) -> bool:
        return self.closed

    def pause_reading(self) -> None:
        self.reading = False

    def resume_reading(self) -> None:
        self.reading = True

    def is_reading(self) -> bool:
        return self.reading

    def make_pkt(self, frame: str, rssi: str = "045"):
        from ramses_tx.packet import Packet
        dtm = VDT.now()
        if self.stamp_offset:
            dtm += _dtmod.timedelta(seconds=self.stamp_offset)
        return Packet(dtm, f"{rssi} {frame}")

    def rx(self, frame: str, delay: float = 0.0) -> None:
        """Deliver a frame to the protocol the way a transport does (call_soon(pkt_received))."""
        def _deliver() -> None:
            self.loop.call_soon(self.p.pkt_received, self.make_pkt(frame))
        if delay <= 0:
            _deliver()
        else:
            self.loop.call_later(delay, _deliver)

    async def write_frame(self, frame: str, disable_tx_limits: bool = False) -> None:
        if self.fail_next_write is not None:
            err, self.fail_next_write = self.fail_next_write, None
            raise err
        self.written.append((self.loop.time(), frame))
        if self.on_write is not None:
            self.on_write(self, frame)


def echo_of(frame: str, gwy_id: str = GWY_ID) -> str:
    return frame.replace("18:000730", gwy_id)


async def make_port_gateway(*, on_write=None, gwy_id: str = GWY_ID, config: dict | None = None,
                            known_list: dict | None = None, schema: dict | None = None,
                            early_rx: list[str] | None = None, **kwargs: Any):
    """A started real Gateway on a FakeTransport.  Returns (gwy, transport).

    early_rx: frames heard while the gateway is still starting - after the port is open, before the transport has
    identified its gateway and called connection_made() (PortTransport hands those to the protocol as any other,
    spec/TransportLife.tla: DeliveredIsPrefix)."""
    import ramses_tx.gateway as txgw
    from ramses_rf import Gateway

    loop = asyncio.get_running_loop()
    VDT._loop = loop
    holder: dict = {}

    async def tf(protocol, **kw):
        t = FakeTransport(protocol, loop, gwy_id=gwy_id, on_write=on_write)
        holder["t"] = t
        if early_rx:
            for fr in early_rx:
                loop.call_soon(lambda fr=fr: protocol.pkt_received(t.make_pkt(fr)))
            loop.call_later(0.05, lambda: protocol.connection_made(t, ramses=True))
        else:
            loop.call_soon(lambda: protocol.connection_made(t, ramses=True))
        return t

    old = txgw.transport_factory
    txgw.transport_factory = tf
    try:
        cfg = {"disable_discovery": True, "disable_qos": False, "enforce_known_list": False}
        cfg.update(config or {})
        kl = {gwy_id: {"class": "HGI"}}
        kl.update(known_list or {})
        gwy = Gateway("/dev/fake", config=cfg, known_list=kl, **(schema or {}), **kwargs)
        await gwy.start()
    finally:
        txgw.transport_factory = old
    for _ in range(5):
        await asyncio.sleep(0)
    return gwy, holder["t"]


async def load_log_gateway(lines: list[str], **kwargs: Any):
    """A real Gateway fed `lines` (packet-log text) through the real FileTransport; waits for EOF."""
    from ramses_rf import Gateway

    fd, path = tempfile.mkstemp(suffix=".log", prefix="vlog_")
    os.write(fd, "".join(lines).encode())
    os.close(fd)
    fh = open(path)
    try:
        gwy = Gateway(None, input_file=fh, **kwargs)
        await gwy.start()
        await gwy._protocol.wait_for_connection_lost()
        for _ in range(12):
            await asyncio.sleep(0)
    finally:
        fh.close()
        os.unlink(path)
    return gwy


class Ether:
    """Joins FakeTransports.  policy(sender_idx, receiver_idx, frame, n_tx) -> list of delays (one per
    delivery; [] = lost).  Default: own echo after 10 ms, others once after 10 ms."""

    def __init__(self, loop, policy: Callable[[int, int, str, int], list[float]] | None = None) -> None:
        self.loop = loop
        self.ports: list[FakeTransport] = []
        self.policy = policy or (lambda s, r, f, n: [0.01])
        self.log: list[tuple[float, str, str]] = []
        self.n_tx = 0

    def attach(self, t: FakeTransport) -> None:
        self.ports.append(t)
        t.on_write = self._on_write

    def _on_write(self, sender: FakeTransport, frame: str) -> None:
        self.n_tx += 1
        self.log.append((self.loop.time(), sender.gwy_id, frame))
        f = echo_of(frame, sender.gwy_id)
        si = self.ports.index(sender)
        for ri, p in enumerate(self.ports):
            for d in self.policy(si, ri, f, self.n_tx):
                p.rx(f, d)

"""C19 harness helpers: drive a real ramses_rf FaultLog from abstract events (own file per agent brief).

Abstract events are the tuples of spec/FaultLog.tla:  ("new", d, 0) ("reply", i, 0) ("again", 0, 0)
("clear", d, 0) ("rstart", start, limit) ("rstep", pos, 0) ("rend", 0, 0).
The controller is simulated here only to know what to put on the wire; FaultLogTrace re-derives the
controller log from the events and rejects a trace whose carried timestamps disagree (clause "harness").
"""
from __future__ import annotations

import logging
from datetime import datetime as dt, timedelta as td
from typing import Any

from ramses_tx import Command, Message, Packet
from ramses_tx.const import I_, RP, Code
from ramses_tx.helpers import hex_from_dts
from ramses_rf.system.faultlog import FaultLog

CTL = "01:145038"
HGI = "18:000730"
NULL_PAYLOAD = "000000B0000000000000000000007FFFFF7000000000"
T0 = dt(2021, 12, 23, 0, 0, 0)
_NOW = dt(2022, 1, 1, 12, 0, 0)


def ts_str(n: int) -> str:
    return (T0 + td(minutes=n)).strftime("%y-%m-%dT%H:%M:%S")


def ts_int(s: str) -> int:
    return int((dt.strptime(s, "%y-%m-%dT%H:%M:%S") - T0).total_seconds() // 60)


# entry content is a function of the timestamp: odd = fault, even = the restore of the fault before it; every
# fault/restore pair has a device of its own (spec/FaultLog.tla IsFault / ActiveOf rely on exactly this: a fault is
# outstanding iff its restore - the next timestamp - is not held; no two pairs share a (type, class, device, domain))
_KINDS = [("04", "03", "04", "04"), ("06", "06", "02", "03"), ("05", "00", "00", "07")]


def entry_payload(idx: int, n: int) -> str:
    from ramses_tx.address import dev_id_to_hex_id
    pair = (n + 1) // 2
    ftype, domain, dclass, dev_type = _KINDS[pair % 3]
    state = "00" if n % 2 else "40"
    dev_hex = dev_id_to_hex_id(f"{dev_type}:{100000 + pair:06d}")
    return "".join(("00", state, f"{idx:02X}", "B0", ftype, domain, dclass, "0000",
                    hex_from_dts(ts_str(n)), "FFFF7000", dev_hex))


_CACHE: dict[tuple, str] = {}


def frame(verb: str, idx: int, n: int | None) -> str:
    """Frame text of the I (announcement) / RP (reply) 0418 carrying timestamp n (None = null entry)."""
    key = (verb, idx, n)
    if key not in _CACHE:
        payload = NULL_PAYLOAD if n is None else entry_payload(idx, n)
        if verb == I_:
            cmd = Command.from_attrs(I_, CTL, Code._0418, payload, from_id=CTL)
        else:
            cmd = Command.from_attrs(RP, HGI, Code._0418, payload, from_id=CTL)
        _CACHE[key] = cmd._frame
    return _CACHE[key]


def mk_pkt(verb: str, idx: int, n: int | None) -> Packet:
    return Packet.from_port(_NOW, "... " + frame(verb, idx, n))


class _Yield:
    def __init__(self, v: Any) -> None:
        self.v = v

    def __await__(self):
        r = yield self.v
        return r


class _StubGwy:
    async def async_send_cmd(self, cmd, **kw):
        return await _Yield(cmd)


class _StubTcs:
    def __init__(self) -> None:
        self.id = CTL
        self._gwy = _StubGwy()


class Runner:
    """One real FaultLog + the simulated controller; `apply(ev)` performs one abstract event."""

    def __init__(self, depth: int, dispatch: bool = True) -> None:
        self.depth = depth
        # dispatch=False: a gateway configured not to route messages to its entities (config.reduce_processing =
        # DONT_UPDATE_ENTITIES): the replies to get_faultlog's own requests reach it as the result of its send only
        self.dispatch = dispatch
        self.clog: list[int] = []
        self.nts = 0
        self.fl = FaultLog(_StubTcs())  # the real object
        self.coro = None
        self.pending = None  # the RQ the running get_faultlog is waiting on
        self.done = False
        self.returned = None
        self._last_ts = 0

    def _at(self, i: int) -> int | None:
        return self.clog[i] if i < len(self.clog) else None

    def apply(self, ev) -> dict:
        try:
            ts, note, uexc = self._apply(ev)
        except Exception as err:  # noqa: BLE001  an exception escaping handle_msg / get_faultlog
            k, a, b = ev
            ts, note, uexc = self._last_ts, "", f"update:{type(err).__name__}"
            self.pending, self.coro = None, None
        k, a, b = ev
        o = self.observe()
        if uexc and not o["exc"]:
            o["exc"] = uexc
        o["aborted"] = bool(uexc)
        o.update(k=k, a=a, b=b, ts=ts, note=note, running=int(self.coro is not None), done=int(self.done))
        return o

    def _apply(self, ev) -> tuple[int, str, str]:
        k, a, b = ev
        ts = 0
        self._last_ts = 0
        note = ""
        fl = self.fl
        if k == "new":
            self.nts += 1
            self.clog = ([self.nts] + self.clog)[: self.depth]
            if a == 1:
                ts = self._last_ts = self.nts
                fl.handle_msg(Message(mk_pkt(I_, 0, ts)))
        elif k == "reply":
            n = self._at(a)
            ts = self._last_ts = n or 0
            fl.handle_msg(Message(mk_pkt(RP, a if n is not None else 0, n)))
        elif k == "again":
            n = self._at(0)
            ts = self._last_ts = n or 0
            fl.handle_msg(Message(mk_pkt(I_, 0, n)))
        elif k == "clear":
            self.clog = []
            if a == 1:
                fl.handle_msg(Message(mk_pkt(I_, 0, None)))
        elif k == "rstart":
            self.coro = fl.get_faultlog(start=a, limit=b)
            self.done = False
            self.pending = self.coro.send(None)
        elif k == "rstep":
            if self.coro is None and self.done:
                # the real get_faultlog() returned before asking for this position of the range it was given:
                # not a harness fault - the read-through clause (Converged) judges the view it leaves
                note = "code:ended-early"
            elif self.coro is None or self.pending is None:
                note = "no-pending-rq"
            else:
                idx = int(self.pending.payload[4:6], 16)
                if idx != a:
                    note = "code:other-idx"  # answered as asked; judged by the clauses, not by the plan
                n = self._at(idx)
                ts = self._last_ts = n or 0
                ridx = idx if n is not None else 0  # a real controller answers a null entry with idx 00
                if self.dispatch:
                    fl.handle_msg(Message(mk_pkt(RP, ridx, n)))  # the dispatcher's delivery comes first
                try:
                    self.pending = self.coro.send(mk_pkt(RP, ridx, n))  # then get_faultlog resumes
                except StopIteration as stop:
                    self.pending, self.coro, self.done, self.returned = None, None, True, stop.value
        elif k == "rend":
            if not self.done and self.coro is not None and self.pending is not None:
                # the real get_faultlog() asks for more than the range it was given: answer until it returns
                note = "code:ran-late"
                for _ in range(80):
                    idx = int(self.pending.payload[4:6], 16)
                    n = self._at(idx)
                    ridx = idx if n is not None else 0
                    if self.dispatch:
                        fl.handle_msg(Message(mk_pkt(RP, ridx, n)))
                    try:
                        self.pending = self.coro.send(mk_pkt(RP, ridx, n))
                    except StopIteration as stop:
                        self.pending, self.coro, self.done, self.returned = None, None, True, stop.value
                        break
            if not self.done:
                note = "not-done"
            self.done = False
        else:
            raise ValueError(ev)
        return ts, note, ""

    def observe(self) -> dict:
        fl = self.fl
        exc = ""
        view: list[list[int]] = []
        try:
            view = [[int(i), ts_int(e.timestamp)] for i, e in fl.faultlog.items()]
        except Exception as err:  # noqa: BLE001
            exc = f"faultlog:{type(err).__name__}"
        # the other three public projections of the view, as shown (timestamps; 0 / [] = None): judged by TLC
        # (FaultLogTrace: ViewsAgree) against the entries the `faultlog` mapping shows at the same instant
        le, lf, af = -1, -1, []
        for name in ("latest_event", "latest_fault", "active_faults"):
            try:
                v = getattr(fl, name)
                if name == "latest_event":
                    le = ts_int(v.timestamp) if v is not None else 0
                elif name == "latest_fault":
                    lf = ts_int(v.timestamp) if v is not None else 0
                else:
                    af = [ts_int(e.timestamp) for e in v] if v is not None else []
            except Exception as err:  # noqa: BLE001
                exc = exc or f"{name}:{type(err).__name__}"
        return {"view": view, "exc": exc, "latest": le, "le": le, "lf": lf, "af": af,
                "imap": [[int(i), ts_int(t)] for i, t in fl._map.items()],
                "ilog": sorted(ts_int(t) for t in fl._log)}

    def close(self) -> None:
        if self.coro is not None:
            self.coro.close()
            self.coro = None


def nodispatch(events) -> tuple:
    """The history as a gateway that does not route messages to its entities lives it: nothing overheard or announced
    reaches the fault log (announcements count as lost, other devices' replies are not seen)."""
    out = []
    for k, a, b in events:
        if k in ("reply", "again"):
            continue
        out.append((k, 0, b) if k in ("new", "clear") else (k, a, b))
    return tuple(out)


def run_history(events, depth: int, dispatch: bool = True) -> list[dict]:
    r = Runner(depth, dispatch)
    out = []
    try:
        for e in events:
            out.append(r.apply(tuple(e)))
            if out[-1]["aborted"]:
                break  # the update path raised: the rest of the history is meaningless (recorded run is cut here)
        return out
    finally:
        r.close()


# --------------------------------------------------------------------------------------
# two callers: get_faultlog() calls that overlap on one FaultLog.  The calls run as tasks of a real asyncio loop
# (whatever the code awaits besides its own request - a lock, an event, the other call - needs one); the stub
# gateway hands each request to the harness, which answers the request of the reader the event names.
# Events of the second caller: ("r2start", start, limit) ("r2step", pos, 0) ("r2end", 0, 0)  (FaultLogTrace: rd2).


class _LoopGwy:
    def __init__(self) -> None:
        self.pending: list[tuple] = []  # (reader number, cmd, future) in the order asked

    async def async_send_cmd(self, cmd, **kw):
        import asyncio
        fut = asyncio.get_running_loop().create_future()
        name = asyncio.current_task().get_name()
        self.pending.append((int(name[1:]) if name[:1] == "r" and name[1:].isdigit() else 0, cmd, fut))
        return await fut


async def _loop_history(events, depth: int, dispatch: bool = True) -> list[dict]:
    import asyncio
    loop = asyncio.get_running_loop()
    probe = Runner(depth, dispatch)  # the real FaultLog, the simulated controller and observe()
    gwy = _LoopGwy()
    probe.fl._gwy = gwy
    fl = probe.fl
    tasks: dict[int, Any] = {1: None, 2: None}
    out: list[dict] = []

    async def drain() -> None:
        for _ in range(8):
            await asyncio.sleep(0)

    def answer(req) -> int:
        """The controller answers this request; the dispatcher's delivery comes first, then the caller resumes."""
        gwy.pending.remove(req)
        idx = int(req[1].payload[4:6], 16)
        n = probe._at(idx)
        ridx = idx if n is not None else 0  # a real controller answers a null entry with idx 00
        if dispatch:
            fl.handle_msg(Message(mk_pkt(RP, ridx, n)))
        req[2].set_result(mk_pkt(RP, ridx, n))
        return n or 0

    try:
        for ev in events:
            k, a, b = ev
            ts, note, uexc = 0, "", ""
            rdr = 2 if k.startswith("r2") else 1
            kk = k.replace("r2", "r")
            try:
                if kk == "rstart":
                    if tasks[rdr] is not None:
                        note = "reader-busy"
                    else:
                        tasks[rdr] = loop.create_task(fl.get_faultlog(start=a, limit=b), name=f"r{rdr}")
                elif kk == "rstep":
                    t = tasks[rdr]
                    mine = [r for r in gwy.pending if r[0] == rdr]
                    if t is None:
                        note = "no-pending-rq"
                    elif t.done():
                        note = "code:ended-early"  # judged by the read-through clause on the view it leaves (J20)
                    elif not mine:
                        note = "code:not-asking"  # the call waits for something that is not a reply to a request of its own
                    else:
                        if int(mine[0][1].payload[4:6], 16) != a:
                            note = "code:other-idx"
                        ts = answer(mine[0])
                elif kk == "rend":
                    t = tasks[rdr]
                    if t is not None and not t.done():
                        # the call has not returned although every request the plan gave it was answered: answer whatever
                        # is asked (its own requests first, then the other caller's) until it returns
                        note = "code:ran-late"
                        for _ in range(160):
                            await drain()
                            if t.done() or not gwy.pending:
                                break
                            mine = [r for r in gwy.pending if r[0] == rdr]
                            answer((mine or gwy.pending)[0])
                    if t is None or not t.done():
                        note = "not-done"
                    else:
                        tasks[rdr] = None
                        if t.exception() is not None:
                            uexc = f"update:{type(t.exception()).__name__}"
                else:
                    ts, note, _ = probe._apply(ev)  # new / reply / again / clear: as in the one-caller driver
            except Exception as err:  # noqa: BLE001  an exception escaping handle_msg
                uexc = f"update:{type(err).__name__}"
            await drain()
            for r, t in tasks.items():  # a call that raised (anything at all: reading never raises)
                if t is not None and t.done() and not t.cancelled() and t.exception() is not None and not uexc:
                    uexc = f"update:{type(t.exception()).__name__}"
            o = probe.observe()
            if uexc and not o["exc"]:
                o["exc"] = uexc
            o["aborted"] = bool(uexc)
            o.update(k=k, a=a, b=b, ts=ts, note=note,
                     running=sum(1 for t in tasks.values() if t is not None and not t.done()),
                     done=sum(1 for t in tasks.values() if t is not None and t.done()))
            out.append(o)
            if uexc:
                break
    finally:
        for t in tasks.values():
            if t is not None and not t.done():
                t.cancel()
        await drain()
    return out


def run_histories_loop(hists, depth: int, dispatch: bool = True) -> list[list[dict]]:
    """Each history on a fresh real FaultLog; the get_faultlog calls run as tasks of one real asyncio loop."""
    import asyncio
    loop = asyncio.new_event_loop()
    loop.set_exception_handler(lambda lp, ctx: None)
    try:
        return [loop.run_until_complete(_loop_history([tuple(e) for e in h], depth, dispatch)) for h in hists]
    finally:
        loop.close()


def two_caller_histories(depth: int, prefixes, readers, env=()) -> list[tuple]:
    """Every interleaving of two get_faultlog calls (first caller A, second caller B, each (start, limit) from `readers`)
    after each prefix of `new` events: B starts before A's first request is answered / between two of A's replies /
    after A has returned; every order of their replies.  `env`: events one of which may also occur once, at any
    point while a call is under way (a `new` then makes the calls under way not judged by c: rd.dirty).
    A call's last reply and its return are one unit (the model's "done" is only the observation point of c)."""
    out: list[tuple] = []

    def ended(n: int, pos: int, hi: int) -> bool:
        return pos >= n or pos + 1 >= hi

    def go(hist: tuple, n: int, ra, rb, a_spec, b_spec, env_left: bool) -> None:
        # ra / rb: None (not started), (pos, hi) (under way), "ret"
        if ra == "ret" and rb == "ret":
            out.append(hist)
            return
        if ra is None:
            go(hist + (("rstart", a_spec[0], a_spec[1]),), n, (a_spec[0], min(a_spec[0] + a_spec[1], 64)), rb, a_spec, b_spec, env_left)
            return
        if ra != "ret":
            pos, hi = ra
            if ended(n, pos, hi):
                go(hist + (("rstep", pos, 0), ("rend", 0, 0)), n, "ret", rb, a_spec, b_spec, env_left)
            else:
                go(hist + (("rstep", pos, 0),), n, (pos + 1, hi), rb, a_spec, b_spec, env_left)
        if rb is None:
            go(hist + (("r2start", b_spec[0], b_spec[1]),), n, ra, (b_spec[0], min(b_spec[0] + b_spec[1], 64)), a_spec, b_spec, env_left)
        elif rb != "ret":
            pos, hi = rb
            if ended(n, pos, hi):
                go(hist + (("r2step", pos, 0), ("r2end", 0, 0)), n, ra, "ret", a_spec, b_spec, env_left)
            else:
                go(hist + (("r2step", pos, 0),), n, ra, (pos + 1, hi), a_spec, b_spec, env_left)
        if env_left:
            for e in env:
                go(hist + (tuple(e),), min(n + 1, depth) if e[0] == "new" else n, ra, rb, a_spec, b_spec, False)

    for pre in prefixes:
        hist = tuple(("new", d, 0) for d in pre)
        n = min(len(pre), depth)
        for a_spec in readers:
            for b_spec in readers:
                go(hist, n, None, None, a_spec, b_spec, bool(env))
    return out


# --------------------------------------------------------------------------------------
# keys: canonical class of the step at which a clause first trips (never counts / random data)


def _incoming(o: dict) -> tuple[int, int | None] | None:
    """(idx, timestamp|None) the FaultLog was given by this step, or None if nothing was delivered."""
    k, a, ts = o["k"], o["a"], o["ts"]
    if k == "new":
        return (0, ts) if a == 1 else None
    if k == "reply":
        return (a, ts) if ts else None  # a null RP is ignored by handle_msg
    if k == "again":
        return (0, ts or None)
    if k == "clear":
        return (0, None) if a == 1 else None
    if k in ("rstep", "r2step"):
        return (a, ts or None)
    return None


CONTRADICTED = "view-contradicted-at-or-below-idx"


def insert_class(pre: dict[int, int], idx: int, dtm: int | None) -> str:
    """Class of an insert (idx, dtm) relative to the view before it, along the branch structure of
    _insert_into_map.  If the view holds, at or below idx, the entry itself or a newer one (which
    cannot be true together with (idx, dtm)), the class is CONTRADICTED: that is the input class of
    the recorded carry-over defect (`k >= idx or v < dtm`).  Otherwise: where the entry was believed,
    where the first older entry is, what the slot held."""
    if dtm is None:
        return "null"
    where = [k for k, v in pre.items() if v == dtm]
    w = "absent" if not where else ("above" if min(where) < idx else "same" if max(where) == idx else "below")
    if max(where, default=-1) > idx or any(k >= idx and v > dtm for k, v in pre.items()):
        return CONTRADICTED
    older = [k for k, v in pre.items() if v < dtm]
    nx = "none" if not older else ("gt" if min(older) > idx else "eq" if min(older) == idx else "lt")
    slot = "empty" if idx not in pre else ("newer" if pre[idx] > dtm else "older" if pre[idx] < dtm else "same")
    return f"entry-{w},older-{nx},slot-{slot}"


def key_for(obs: list[dict], line: int, clause: str, clog_after: list[int] | None = None) -> str:
    """Canonical key for clause `clause` first tripping at 1-based `line` of the recorded history."""
    o = obs[line - 1]
    pre = {i: t for i, t in (obs[line - 2]["view"] if line >= 2 else [])}
    inc = _incoming(o)
    if clause == "Raises":
        return f"C19b-Raises:{o['exc']}"
    if clause == "Views":
        # which projection(s) contradict the entries the faultlog mapping shows (naming only; the verdict is TLC's)
        held = {t for _, t in o["view"]}
        faults = sorted((t for t in held if t % 2), reverse=True)
        bad = [name for name, got, want in (
            ("latest_event", o["le"], max(held, default=0)), ("latest_fault", o["lf"], faults[0] if faults else 0),
            ("active_faults", o["af"], [t for t in faults if t + 1 not in held])) if got != want]
        return "C19a-Views:" + ("+".join(bad) or "other")
    if clause == "AnnounceShift":
        cls = "empty-view" if not pre else ("top-slot-known" if 0 in pre else "top-slot-unknown")
        return f"C19d-AnnounceShift:{cls}"
    ins = insert_class(pre, *inc) if inc else "nothing-delivered"
    if clause == "Converged":
        if ins == CONTRADICTED:
            return f"C19c-Converged:{ins}"
        view = {i: t for i, t in o["view"]}
        cl = clog_after or []
        cls = "other"
        for i in range(0, 64):
            want = cl[i] if i < len(cl) else None
            if want is None:
                if any(k >= i for k in view):
                    cls = "entries-beyond-end"
                break
            if view.get(i) != want:
                got = view.get(i)
                cls = "missing" if got is None else ("holds-newer" if got > want else "holds-older")
                break
        return f"C19c-Converged:{cls}"
    return f"C19a-{clause}:{ins}"


def controller_after(events, depth: int, upto: int) -> list[int]:
    """The simulated controller's log after the first `upto` events (harness-side mirror, for keys only)."""
    clog: list[int] = []
    nts = 0
    for k, a, b in events[:upto]:
        if k == "new":
            nts += 1
            clog = ([nts] + clog)[:depth]
        elif k == "clear":
            clog = []
    return clog


def validate_parallel(module: str, items: list, *, procs: int = 4, extra_env: dict | None = None,
                      timeout: float = 1500) -> dict:
    """tlc.validate_batch with parallelism across JVMs instead of TLC workers: several workers interleave
    their PrintT lines (lost verdicts = machinery failure), so each JVM runs with -workers 1."""
    from concurrent.futures import ThreadPoolExecutor
    from harness import tlc
    if not items:
        return {"n": 0, "rejects": [], "states": 0, "transitions": 0, "wall_s": 0.0}
    n = max(1, min(procs, (len(items) + 199) // 200))
    size = (len(items) + n - 1) // n
    parts = [(b, items[b:b + size]) for b in range(0, len(items), size)]
    with ThreadPoolExecutor(len(parts)) as tp:
        futs = [(b, tp.submit(tlc.validate_batch, module, part, extra_env=extra_env, workers=1, chunk=4000,
                              timeout=timeout)) for b, part in parts]
        out = {"n": len(items), "rejects": [], "states": 0, "transitions": 0, "wall_s": 0.0}
        for b, f in futs:
            r = f.result()
            out["rejects"] += [(b + i, fail) for i, fail in r["rejects"]]
            out["states"] += r["states"]
            out["transitions"] += r["transitions"]
            out["wall_s"] = max(out["wall_s"], r["wall_s"])
    out["rejects"].sort(key=lambda x: x[0])
    return out


def validate_forest(module: str, runs: list[list[dict]], ident, root: dict, *, procs: int = 4,
                    extra_env: dict | None = None, timeout: float = 1500) -> dict:
    """Trace validation of many recorded runs that share prefixes: the runs are merged into prefix trees
    (one per JVM), so TLC folds every distinct prefix once.  `ident(step)` identifies a step (the real
    code is deterministic: equal event prefixes give equal observations); `root` is the record of the
    initial state (same fields as a step).  The trace spec prints <<"VERDICT", node, new>> per node,
    `new` = <<>> or <<depth, clause>> or <<depth, clause, "clause2,clause3">>: the clauses that trip at
    that node for the first time on its path.
    Returns {"n", "nodes", "rejects": [(run_index, [(line, clause), ...])], "wall_s"}."""
    from concurrent.futures import ThreadPoolExecutor
    from harness import tlc
    if not runs:
        return {"n": 0, "nodes": 0, "rejects": [], "wall_s": 0.0}
    order = sorted(range(len(runs)), key=lambda i: [ident(s) for s in runs[i]])  # neighbours share prefixes
    n = max(1, min(procs, (len(runs) + 49) // 50))
    size = (len(order) + n - 1) // n
    groups = [order[b:b + size] for b in range(0, len(order), size)]

    def one(group: list[int]):
        nodes = [dict(root, p=0, d=0, kids=[])]
        index: dict[tuple, int] = {(): 1}
        path_nodes: dict[int, list[int]] = {}
        for ri in group:
            key: tuple = ()
            cur = 1
            pn = []
            for depth, step in enumerate(runs[ri], 1):
                key = key + (ident(step),)
                nxt = index.get(key)
                if nxt is None:
                    nodes.append(dict(step, p=cur, d=depth, kids=[]))
                    nxt = index[key] = len(nodes)
                    nodes[cur - 1]["kids"].append(nxt)
                cur = nxt
                pn.append(cur)
            path_nodes[ri] = pn
        r = tlc.validate_batch(module, nodes, extra_env=extra_env, workers=1, chunk=10 ** 9, timeout=timeout)
        new_at: dict[int, list[str]] = {}
        for i, fail in r["rejects"]:
            new_at[i + 1] = [fail[1]] + (fail[2].split(",") if len(fail) > 2 and fail[2] else [])
        rej = []
        for ri in group:
            pairs = [(line, c) for line, node in enumerate(path_nodes[ri], 1) for c in new_at.get(node, [])]
            if pairs:
                rej.append((ri, pairs))
        return len(nodes), rej, r["wall_s"]

    out = {"n": len(runs), "nodes": 0, "rejects": [], "wall_s": 0.0}
    with ThreadPoolExecutor(len(groups)) as tp:
        for nn, rej, w in tp.map(one, groups):
            out["nodes"] += nn
            out["rejects"] += rej
            out["wall_s"] = max(out["wall_s"], w)
    out["rejects"].sort(key=lambda x: x[0])
    return out


# --------------------------------------------------------------------------------------
# the same abstract events through a whole real Gateway (real dispatcher, real QoS, real get_faultlog via
# Evohome.get_faultlog) on the fake transport in virtual time: validates the stub used by Runner


async def _gateway_history(events, depth: int) -> list[dict]:
    import asyncio
    from harness import fakes
    gw_id = fakes.GWY_ID
    pending: list[str] = []

    def on_write(t, frame: str) -> None:
        if " 0418 " in frame and frame.startswith("RQ"):
            pending.append(frame)
        t.rx(fakes.echo_of(frame, gw_id), 0.001)

    gwy, t = await fakes.make_port_gateway(
        on_write=on_write, schema={CTL: {"system": {"appliance_control": None}, "zones": {}}})
    tcs = gwy.tcs
    fl = tcs._faultlog
    probe = Runner(depth)
    probe.fl = fl  # reuse observe()
    clog: list[int] = []
    nts = 0
    task = None
    rexc = ""
    out: list[dict] = []

    def at(i: int):
        return clog[i] if i < len(clog) else None

    def rp(idx: int, n, dst: str) -> str:
        payload = NULL_PAYLOAD if n is None else entry_payload(idx, n)
        return Command.from_attrs(RP, dst, Code._0418, payload, from_id=CTL)._frame

    async def settle(dt_: float = 0.004) -> None:
        await asyncio.sleep(dt_)
        for _ in range(25):
            await asyncio.sleep(0)

    try:
        for k, a, b in events:
            ts, note = 0, ""
            if k == "new":
                nts += 1
                clog = ([nts] + clog)[:depth]
                if a == 1:
                    ts = nts
                    t.rx(frame(I_, 0, nts))
            elif k == "reply":
                n = at(a)
                ts = n or 0
                t.rx(rp(a if n is not None else 0, n, HGI))  # somebody else's RQ was answered
            elif k == "again":
                n = at(0)
                ts = n or 0
                t.rx(frame(I_, 0, n))
            elif k == "clear":
                clog = []
                if a == 1:
                    t.rx(frame(I_, 0, None))
            elif k == "rstart":
                task = asyncio.get_running_loop().create_task(tcs.get_faultlog(start=a, limit=b))
            elif k == "rstep":
                if not pending and task is not None and task.done() and task.exception() is None:
                    note = "code:ended-early"  # see the stub driver: judged by the read-through clause
                elif not pending:
                    note = "no-pending-rq"
                else:
                    rq = pending.pop(0)
                    idx = int(rq.split()[-1][4:6], 16)
                    if idx != a:
                        note = "code:other-idx"
                    n = at(idx)
                    ts = n or 0
                    t.rx(rp(idx if n is not None else 0, n, gw_id))
            elif k == "rend":
                if task is not None and not task.done():
                    for _ in range(80):  # the real get_faultlog() asks for more than its range: answer until it returns
                        if task.done() or not pending:
                            break
                        note = "code:ran-late"
                        rq = pending.pop(0)
                        idx = int(rq.split()[-1][4:6], 16)
                        n = at(idx)
                        t.rx(rp(idx if n is not None else 0, n, gw_id))
                        await settle()
                if task is None or not task.done():
                    note = "not-done"
                elif task.exception() is not None:
                    # the read itself raised although every request was answered: the code's doing (never a harness fault);
                    # anything but the library's own error family is "reading it raises" (clause b)
                    from ramses_tx import exceptions as _exc
                    err = task.exception()
                    note = "code:ended-early"
                    if not isinstance(err, _exc.RamsesException):
                        rexc = f"get_faultlog:{type(err).__name__}"
                elif task.result() is None:
                    note = "get_faultlog failed: None"
                task = None
            await settle()
            o = probe.observe()
            if rexc:
                o["exc"] = o["exc"] or rexc
                rexc = ""
            o.update(k=k, a=a, b=b, ts=ts, note=note, aborted=False,
                     running=int(task is not None and not task.done()), done=int(task is not None and task.done()))
            out.append(o)
    finally:
        if task is not None and not task.done():
            task.cancel()
        await gwy.stop()
    return out


def run_history_gateway(events, depth: int) -> tuple[list[dict], list]:
    """(observations, loop exception contexts) of the history run through a real Gateway."""
    import random
    from harness import fakes, vloop
    fakes.quiet_logging()
    random.seed(1)
    res, loop = vloop.run(lambda: _gateway_history([tuple(e) for e in events], depth))
    return res, [str(c.get("exception") or c.get("message")) for c in loop.exc]

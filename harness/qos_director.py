"""Spec -> code: replay behaviours of spec/QosFsm.tla (TLC -simulate / counter-examples) through the real
PortProtocol on a Director loop that reproduces the model's iteration boundaries exactly, comparing the
projected real state with the model state at every boundary (stepwise conformance = drift check), and
recording the observable trace for QosContract (verdict).

Model <-> code mapping (see spec/QosFsm.tla header):
  boundary entry  [io |-> <<handles>>, ts |-> <<timers>>, fw |-> 0/1]
     io "call" i      -> loop.create_task(caller i)        (its first step is the handle)
        "rx" p        -> handle doing call_soon(protocol.pkt_received, pkt)   (as FakeTransport.rx)
        "connlost"    -> handle protocol.connection_lost(None)
        "connmade"    -> handle protocol.connection_made(transport, ramses=True)
     ts <<"callerT", i>>  -> the wait_for time-out handle of caller i's task
        <<"sleep", k>>    -> the sleep timer of the k-th expire_state_on_timeout task
     fw               -> the next transport.write_frame raises TransportError
"""
from __future__ import annotations

import asyncio
from typing import Any

from harness import fakes, vloop
from harness.qos import CTL, GWY, Run, make_cmd, reply_frame, tu

ST = {"Inactive": "Inactive", "IsInIdle": "Idle", "WantEcho": "Echo", "WantRply": "Rply"}


class Replay:
    def __init__(self, callers: dict[int, dict], script: list[dict], pre_states: list[dict | None]) -> None:
        self.callers, self.script, self.pre = callers, script, pre_states
        self.pos = 0
        self.drift: list[str] = []
        self.compared = 0
        self.finishing = False


def _project(rp: Replay, loop, proto, R: Run, st: dict) -> dict:
    ctx = proto._context
    cmd_id = {id(c): i for i, c in R.cmds.items()}
    for ent in list(ctx._que.queue):
        i = cmd_id.get(id(ent[2]))
        if i is not None:
            st["futs"][i] = ent[-1]
    fid = {id(f): i for i, f in st["futs"].items()}

    def fstat(i: int):
        f = st["futs"].get(i)
        if f is None:
            return ("none", 0)
        if f.cancelled():
            return ("canc", 0)
        if not f.done():
            return ("pend", 0)
        if f.exception() is not None:
            return ("exc", 0)
        p = f.result()
        j, what = R.owner(p)
        return ("echo" if what == "echo" else "rply", j)

    timers = set()
    for when, lab, h in loop.armed_timers():
        if lab.startswith("timeout:caller"):
            timers.add(("callerT", int(lab[len("timeout:caller"):])))
        elif lab.startswith("sleep:exp"):
            a = getattr(h, "_args", None) or ()
            if a and isinstance(a[0], asyncio.Future) and a[0].cancelled():
                continue  # task cancelled: the handle is dropped when the task's wake-up runs (stutter)
            timers.add(("sleep", int(lab.split(":")[1][3:])))
    return {
        "st": ST[type(ctx._state).__name__],
        "cmd": cmd_id.get(id(ctx._cmd), 0) if ctx._cmd is not None else 0,
        "fut": fid.get(id(ctx._fut), -1) if ctx._fut is not None else 0,
        "fs": tuple(fstat(i) for i in sorted(rp.callers)),
        "txc": ctx._cmd_tx_count, "txl": ctx._cmd_tx_limit, "mult": ctx._multiplier,
        "writes": tuple(R.ntx[i] for i in sorted(rp.callers)),
        "pc": tuple(st["pc"][i] for i in sorted(rp.callers)),
        "timers": frozenset(timers),
        "sent": cmd_id.get(id(ctx._state._sent_cmd), 0) if ctx._state._sent_cmd is not None else 0,
    }


def _model_view(w: dict, callers) -> dict:
    return {
        "st": w["st"], "cmd": w["cmd"], "fut": w["fut"], "fs": tuple(tuple(x) for x in w["fs"]),
        "txc": w["txc"], "txl": w["txl"], "mult": w["mult"], "writes": tuple(w["writes"]),
        "pc": tuple(w["pc"]), "timers": frozenset(tuple(t) for t in w["timers"]), "sent": w["sent"],
    }


async def _main(rp: Replay, mode) -> dict:
    from ramses_tx import exceptions as exc
    from ramses_tx.const import Priority
    from ramses_tx.protocol import PortProtocol
    from ramses_tx.typing import QosParams

    loop: vloop.Director = asyncio.get_running_loop()  # type: ignore[assignment]
    fakes.VDT._loop = loop
    R = Run({"callers": []})
    R.loop = loop
    st: dict[str, Any] = {"futs": {}, "exp_tasks": {}, "pc": {i: "idle" for i in rp.callers}, "fail": 0}

    def on_exc(lp, ctx) -> None:
        e = ctx.get("exception")
        where = ""
        tb = getattr(e, "__traceback__", None)
        while tb is not None:
            if "ramses_tx" in tb.tb_frame.f_code.co_filename:
                where = tb.tb_frame.f_code.co_name
            tb = tb.tb_next
        R.rec(e="LoopExc", k=type(e).__name__ if e else "none", s=where or str(ctx.get("message", ""))[:40],
              a=1 if isinstance(e, AssertionError) else 0)

    loop.set_exception_handler(on_exc)
    proto = PortProtocol(lambda m: None, disable_qos=mode)
    tr = fakes.FakeTransport(proto, loop)
    for i, c in rp.callers.items():
        cmd = make_cmd(c["kind"], c["zone"])
        R.cmds[i] = cmd
        R.echo_txt[i] = fakes.echo_of(str(cmd))
        R.rply_txt[i] = {f for f in (reply_frame(c["kind"], c["zone"]),) if f}
        R.ntx[i] = 0
    by_frame = {str(cmd): i for i, cmd in R.cmds.items()}

    async def write_frame(frame, disable_tx_limits=False):
        if st["fail"] > 0:
            st["fail"] -= 1
            R.rec(e="WriteFail")
            raise exc.TransportError("injected write failure")
        i = by_frame.get(frame, 0)
        if i:
            R.ntx[i] += 1
            R.rec(e="Write", i=i, n=R.ntx[i])
        elif rp.finishing and frame == str(probe_cmd):
            R.rec(e="Write", i=0, k="probe")
            tr.rx(fakes.echo_of(frame), 0.01)
            tr.rx(f"RP --- {CTL} {GWY} --:------ 30C9 003 0F07D0", 0.03)

    tr.write_frame = write_frame  # type: ignore[method-assign]
    orig_rx = proto.pkt_received

    def pkt_received(pkt) -> None:
        i, what = R.owner(pkt)
        R.rec(e="Rx", i=i, k=what)
        orig_rx(pkt)

    proto.pkt_received = pkt_received  # type: ignore[method-assign]
    probe_cmd = make_cmd("RQ", 15)
    connected = {"up": True}
    tasks: dict[int, asyncio.Task] = {}

    async def caller(i: int) -> None:
        c = rp.callers[i]
        st["pc"][i] = "wait"
        cmd = R.cmds[i]
        R.rec(e="Call", i=i, k=c["kind"], n=c["mr"], p=c.get("prio", 0), a=tu(20.0), b=1 if cmd.rx_header else 0,
              s="up" if connected["up"] else "down")
        try:
            pkt = await proto.send_cmd(cmd, priority=Priority(c.get("prio", 0)),
                                       qos=QosParams(max_retries=c["mr"], timeout=20.0, wait_for_reply=c["wfr"]))
        except exc.ProtocolError as err:
            R.rec(e="Raise", i=i, k="protocol", s=type(err).__name__)
        except BaseException as err:  # noqa: BLE001
            R.rec(e="Raise", i=i, k="other", s=type(err).__name__, a=1 if isinstance(err, AssertionError) else 0)
        else:
            R.rec(e="Return", i=i, k=R.classify(pkt, i))
        st["pc"][i] = "done"

    def decide(lp: vloop.Director) -> None:
        if not st.get("started"):
            return
        if rp.finishing:
            if not lp._ready:  # natural completion: fire the earliest armed timer
                arm = lp.armed_timers()
                if arm:
                    lp.fire(arm[0][2], move_clock=True)
            return
        if rp.pos >= len(rp.script):
            rp.finishing = True
            done.set_result(None) if not done.done() else None
            return
        # compare the real state with the model's state before this boundary
        pre = rp.pre[rp.pos]
        if pre is not None:
            real = _project(rp, lp, proto, R, st)
            model = _model_view(pre, rp.callers)
            rp.compared += 1
            for k in model:
                if model[k] != real[k] and len(rp.drift) < 5:
                    rp.drift.append(f"boundary {rp.pos}: {k}: model={model[k]!r} code={real[k]!r}")
        ent = rp.script[rp.pos]
        rp.pos += 1
        for x in ent["io"]:
            k = x["k"]
            if k == "call":
                i = x["i"]
                st["pc"][i] = "spawned"
                tasks[i] = lp.create_task(caller(i), name=f"caller{i}")
            elif k == "rx":
                kind, j = x["p"]
                frame = R.echo_txt[j] if kind == "echo" else next(iter(R.rply_txt[j]))
                lp.inject(lambda f=frame: lp.call_soon(proto.pkt_received, tr.make_pkt(f)))
            elif k == "connlost":
                connected["up"] = False
                R.rec(e="ConnLost")
                lp.inject(proto.connection_lost, None)
            elif k == "connmade":
                connected["up"] = True
                R.rec(e="ConnMade")

                lp.inject(lambda: proto.connection_made(tr, ramses=True))
        if ent["fw"]:
            st["fail"] += ent["fw"]
        for t in ent["ts"]:
            kind, n = t
            found = None
            for when, lab, h in lp.armed_timers():
                if kind == "callerT" and lab == f"timeout:caller{n}":
                    found = h
                elif kind == "sleep" and lab.startswith(f"sleep:exp{n}:"):
                    found = h
            if found is None:
                if len(rp.drift) < 5:
                    rp.drift.append(f"boundary {rp.pos - 1}: model fires timer {t} which the code has not armed")
                continue
            lp.fire(found)

    from asyncio import tasks as _tasks

    def factory(lp, coro, **kw):
        if getattr(coro, "__qualname__", "").endswith("expire_state_on_timeout"):
            st["nexp"] = st.get("nexp", 0) + 1
            kw["name"] = f"exp{st['nexp']}"
        return _tasks._PyTask(coro, loop=lp, **kw)

    loop.set_task_factory(factory)
    loop.decide = decide
    proto.connection_made(tr, ramses=True)
    await vloop.drain(6)  # the model starts in IsInIdle with nothing pending
    done: asyncio.Future = loop.create_future()
    st["started"] = True
    await done  # the scripted part has been replayed (decide() resolves it)
    # natural completion, quiescence observation, probe
    for _ in range(200):
        if all(t.done() for t in tasks.values()):
            break
        await asyncio.sleep(1.0)
    for i, t in tasks.items():
        if not t.done():
            R.rec(e="Hang", i=i)
    await asyncio.sleep(30.0)
    ctx = proto._context
    fut = ctx._fut
    live_q = sum(1 for ent in list(ctx._que.queue) if not ent[-1].done())
    R.rec(e="Quiesce", k=type(ctx.state).__name__, a=1 if ctx._cmd is None else 0, n=live_q,
          b=1 if (fut is None or fut.done()) else 0, s="up" if connected["up"] else "down")
    if not connected["up"]:
        connected["up"] = True
        proto.connection_made(tr, ramses=True)
        await asyncio.sleep(0.01)
    st["fail"] = 0
    try:
        pkt = await proto.send_cmd(probe_cmd, qos=QosParams(max_retries=3, timeout=20, wait_for_reply=True))
        R.rec(e="Probe", k="ok" if pkt is not None else "wrongpkt")
    except BaseException as err:  # noqa: BLE001
        R.rec(e="Probe", k="fail", s=type(err).__name__)
    R.rec(e="End")
    return {"echo_to": tu(ctx.echo_timeout), "rply_to": tu(ctx.reply_timeout), "untimed": 1, "ev": R.ev,
            "drift": rp.drift, "compared": rp.compared}


def replay_behaviour(beh: list[tuple[str, dict]], callers: dict[int, dict], mode=False) -> dict:
    """beh = [(action, {"w":..., "h":...}), ...] from tlc.read_sim_traces / an error trace."""
    script, pre = [], []
    for n in range(1, len(beh)):
        act, stt = beh[n]
        hn, hp = stt["h"], beh[n - 1][1]["h"]
        if len(hn) == len(hp) + 1:  # a Boundary step
            script.append(hn[-1])
            pre.append(beh[n - 1][1]["w"])
    rp = Replay(callers, script, pre)
    loop = vloop.Director(lambda lp: None, pytask=True)
    asyncio.set_event_loop(loop)
    try:
        return loop.run_until_complete(_main(rp, mode))
    except RuntimeError as err:
        if "stopped before" not in str(err):
            raise
        # the code had nothing left to run although the model's script was not finished
        return {"echo_to": 0, "rply_to": 0, "untimed": 1, "ev": [], "compared": rp.compared, "aborted": True,
                "drift": rp.drift + [f"boundary {rp.pos}: the code went idle before the model's script ended"]}
    finally:
        try:
            for t in asyncio.all_tasks(loop):
                t.cancel()
            loop.finishing = True
        except Exception:  # noqa: BLE001
            pass
        loop.close()
        asyncio.set_event_loop(None)

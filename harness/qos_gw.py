"""The send machinery driven through a real *Gateway* across its life cycle (start / stop / start again / a port that
dies), on virtual time.  The observable trace has the format of harness/qos.py (so spec/QosTrace.tla judges it with the
C07-C09 contract unchanged) plus life-cycle events that spec/GwyLifeTrace.tla folds against spec/GwyLife.tla:

  StartCall / StartRet(k=ok|err, s=type)      Gateway.start()
  StopCall  / StopRet(k=ok|err, s=type)       Gateway.stop()
  TpNew(n=k)                                   transport_factory() made transport k
  TpClose(n=k)                                 transport k: close() called (first time)
  ConnMade(n=k) / ConnLost(n=k)                protocol.connection_made / connection_lost ran (linearisation points)
  Proj(...)                                    projection of the live objects at a quiescent point

A scenario (JSON, also the replay object):

  {"via": "gateway", "mode": null|true|false,
   "callers": [{"id", "t", "hops", "kind", "zone", "prio", "mr", "to", "wfr", "api": "async"|"task", "tx": [...], "outer"}],
   "events":  [{"t", "hops", "ev": "gw_stop"|"gw_start"|"conn_lost"|"foreign"|"fail_write", ...}],
   "dead": [k, ...]          transports (by creation order) that never announce a connection (a port that stays silent)
   "sig": secs               how long a live transport takes to announce its connection (signature echo), default 0.05}

Callers use Gateway.async_send_cmd() (api=async) or Gateway.send_cmd() (api=task: a task the gateway tracks and
Gateway.stop() cancels - such a cancellation is the application's own doing, J30).
"""
from __future__ import annotations

import asyncio
import gc
from typing import Any

from harness import fakes, vloop
from harness.qos import CTL, GWY, Run, make_cmd, reply_frame, tu, _Stuck, _lib_frame  # noqa: F401


OTHER_GWY = "18:222222"


class GwTransport(fakes.FakeTransport):
    """FakeTransport with the close() discipline of the real transports (_ReadTransport._close: once only)."""

    def __init__(self, *a, k: int, R: Run, **kw) -> None:
        super().__init__(*a, **kw)
        self.k, self.R = k, R

    def close(self) -> None:
        if self.closed:
            return
        self.closed = True
        self.R.rec(e="TpClose", n=self.k)
        self.loop.call_soon(self.p.connection_lost, None)


async def _run(sc: dict, holder: dict | None = None) -> dict:
    import ramses_tx.gateway as txgw
    from ramses_rf import Gateway
    from ramses_tx import exceptions as exc
    from ramses_tx.const import DEFAULT_MAX_RETRIES, Priority

    loop = asyncio.get_running_loop()
    fakes.VDT._loop = loop
    R = Run(sc)
    R.loop = loop

    def on_exc(lp, ctx) -> None:
        e = ctx.get("exception")
        if isinstance(e, _Stuck):
            return
        where = ""
        tb = getattr(e, "__traceback__", None)
        while tb is not None:
            if "ramses_tx" in tb.tb_frame.f_code.co_filename or "ramses_rf" in tb.tb_frame.f_code.co_filename:
                where = tb.tb_frame.f_code.co_name
            tb = tb.tb_next
        R.rec(e="LoopExc", k=type(e).__name__ if e else "none", s=where or str(ctx.get("message", ""))[:40],
              a=1 if isinstance(e, AssertionError) else 0)

    loop.set_exception_handler(on_exc)

    cfg = {"disable_discovery": True, "disable_qos": sc.get("mode"), "enforce_known_list": False}
    gwy = Gateway("/dev/fake", config=cfg, known_list={GWY: {"class": "HGI"}})
    proto = gwy._protocol
    state: dict[str, Any] = {"fail_writes": 0, "ntp": 0, "stops": 0, "stopped": True}
    cur: dict[str, Any] = {"tr": None}
    connected = {"up": False}
    dead = set(sc.get("dead", []))
    sig = float(sc.get("sig", 0.05))

    for c in sc["callers"]:
        cmd = make_cmd(c["kind"], c["zone"])
        R.cmds[c["id"]] = cmd
        R.echo_txt[c["id"]] = fakes.echo_of(str(cmd))
        R.rply_txt[c["id"]] = {rf for nl in (False, True) if (rf := reply_frame(c["kind"], c["zone"], null_log=nl))}
        R.ntx[c["id"]] = 0
    by_frame = {str(cmd): i for i, cmd in R.cmds.items()}
    spec_of = {c["id"]: c for c in sc["callers"]}
    R.probe_cmd = make_cmd("RQ", 15)
    probe2_cmd = make_cmd("IMP", 14)      # a second probe, impersonating: its notice names the gateway in its header

    def deliver(frame: str, delay: float, tr: GwTransport) -> None:
        def _d() -> None:
            if tr.closed or not tr.reading:
                return
            loop.call_soon(proto.pkt_received, tr.make_pkt(frame))
        loop.call_later(delay, _d)

    def on_write(t, frame: str) -> None:
        i = by_frame.get(frame, 0)
        if i == 0:
            code = frame[41:45] if len(frame) > 45 else ""
            R.rec(e="Write", i=0, k="alert" if " 7FFF " in frame else "unknown", s=code, n=t.k)
            if " 7FFF " in frame:
                deliver(fakes.echo_of(frame, t.gwy_id), 0.01, t)
            elif frame == str(R.probe_cmd):
                deliver(fakes.echo_of(frame, t.gwy_id), 0.01, t)
                deliver(f"RP --- {CTL} {t.gwy_id} --:------ 30C9 003 0F07D0", 0.03, t)
            elif frame == str(probe2_cmd):
                deliver(fakes.echo_of(frame, t.gwy_id), 0.01, t)
            return
        R.ntx[i] += 1
        n = R.ntx[i]
        if t.gwy_id != GWY:      # what answers this transmission names the dongle it went through
            R.echo_txt[i] = fakes.echo_of(frame, t.gwy_id)
            R.rply_txt[i] = {x.replace(GWY, t.gwy_id) for x in R.rply_txt[i]}
        R.rec(e="Write", i=i, n=n, p=t.k, a=1 if t.closed else 0)
        txs = spec_of[i].get("tx") or [{}]
        tx = txs[min(n, len(txs)) - 1]
        for key in ("echo", "echo2"):
            if tx.get(key) is not None:
                deliver(R.echo_txt[i], tx[key], t)
        rf = reply_frame(spec_of[i]["kind"], spec_of[i]["zone"], null_log=bool(tx.get("null_log")))
        if rf:
            rf = rf.replace(GWY, t.gwy_id)
            for key in ("reply", "reply2"):
                if tx.get(key) is not None:
                    deliver(rf, tx[key], t)

    def new_transport(protocol) -> GwTransport:
        state["ntp"] += 1
        # "ids": "alternate" - every other connection is to another dongle (the application swapped it, or the port name now
        # leads to another one): its echoes carry that id and the controller answers to it
        gid = OTHER_GWY if sc.get("ids") == "alternate" and state["ntp"] % 2 == 0 else GWY
        t = GwTransport(protocol, loop, gwy_id=gid, on_write=on_write, k=state["ntp"], R=R)
        real_write = t.write_frame

        async def write_frame(frame, disable_tx_limits=False):
            if state["fail_writes"] > 0:
                state["fail_writes"] -= 1
                R.rec(e="WriteFail")
                raise exc.TransportError("injected write failure")
            return await real_write(frame, disable_tx_limits)

        t.write_frame = write_frame  # type: ignore[method-assign]
        R.rec(e="TpNew", n=t.k)
        return t

    async def tf(protocol, **kw):
        # as ramses_tx.transport.transport_factory does for a serial port: make the transport (which announces its connection
        # once it has identified its gateway), wait for that announcement, return the transport
        from ramses_tx.transport import _DEFAULT_TIMEOUT_PORT
        t = new_transport(protocol)
        cur["tr"] = t
        if t.k in dead:
            state.setdefault("silent", []).append(t.k)
        else:
            def _announce() -> None:
                if not t.closed:
                    R.rec(e="TpAnn", n=t.k)
                    loop.call_soon(lambda: protocol.connection_made(t, ramses=True))
            loop.call_later(sig, _announce)
        try:
            await protocol.wait_for_connection_made(timeout=_DEFAULT_TIMEOUT_PORT)
        except BaseException as err:  # noqa: BLE001
            R.rec(e="FactoryRet", k="err", s=type(err).__name__)
            raise
        R.rec(e="FactoryRet", k="ok")
        return t

    # linearisation points of the two protocol callbacks
    orig_made, orig_lost = proto.connection_made, proto.connection_lost

    def connection_made(transport, *a, **kw):
        connected["up"] = True
        R.rec(e="ConnMade", n=getattr(transport, "k", 0))
        return orig_made(transport, *a, **kw)

    def connection_lost(err):
        connected["up"] = False
        R.rec(e="ConnLost", n=getattr(cur["tr"], "k", 0))
        try:
            return orig_lost(err)
        finally:
            fut = getattr(proto, "_wait_connection_lost", None)   # J29: the harness owns the notification future
            if fut is not None and fut.done() and not fut.cancelled():
                fut.exception()

    proto.connection_made = connection_made  # type: ignore[method-assign]
    proto.connection_lost = connection_lost  # type: ignore[method-assign]

    orig_rx = proto.pkt_received

    def pkt_received(pkt) -> None:
        i, what = R.owner(pkt)
        R.rec(e="Rx", i=i, k=what)
        orig_rx(pkt)

    proto.pkt_received = pkt_received  # type: ignore[method-assign]

    orig_alert = proto._send_impersonation_alert

    async def alert(cmd):
        i = by_frame.get(str(cmd), 0)
        R.rec(e="NoticeStart", i=i)
        try:
            return await orig_alert(cmd)
        finally:
            R.rec(e="NoticeEnd", i=i)

    proto._send_impersonation_alert = alert  # type: ignore[method-assign]

    async def gw_start() -> None:
        R.rec(e="StartCall")
        old = txgw.transport_factory
        txgw.transport_factory = tf
        try:
            await gwy.start()
        except asyncio.CancelledError:
            if asyncio.current_task().cancelling():     # somebody cancelled this operation
                R.rec(e="StartRet", k="cancelled", s="CancelledError")
                raise
            R.rec(e="StartRet", k="err", s="CancelledError")   # nobody did: the library raised it by itself
        except BaseException as err:  # noqa: BLE001
            R.rec(e="StartRet", k="err", s=type(err).__name__, a=1 if isinstance(err, exc.RamsesException) else 0)
        else:
            state["stopped"] = False
            R.rec(e="StartRet", k="ok")
        finally:
            txgw.transport_factory = old

    async def gw_stop() -> None:
        state["stops"] += 1
        R.rec(e="StopCall")
        try:
            await gwy.stop()
        except asyncio.CancelledError:
            if asyncio.current_task().cancelling():
                R.rec(e="StopRet", k="cancelled", s="CancelledError")
                raise
            R.rec(e="StopRet", k="err", s="CancelledError")
        except BaseException as err:  # noqa: BLE001
            R.rec(e="StopRet", k="err", s=type(err).__name__, a=1 if isinstance(err, exc.RamsesException) else 0)
        else:
            R.rec(e="StopRet", k="ok")
        state["stopped"] = True

    def proj(tag: str) -> None:
        ctx = proto._context
        t = gwy._transport
        R.rec(e="Proj", k=type(ctx.state).__name__, s=tag, n=getattr(t, "k", 0),
              a=1 if proto._wait_connection_made.done() else 0,
              b=0 if proto._wait_connection_lost is None else (2 if proto._wait_connection_lost.done() else 1),
              p=1 if proto._active_hgi else 0, i=0, r=len([x for x in gwy._tasks if not x.done()]))

    if not sc.get("manual_start"):      # (scenarios taken from the model bring their own first start())
        await gw_start()
        await vloop.drain(4)
        proj("started")
    t_base = loop.time()

    tasks: dict[int, asyncio.Task] = {}
    ops: list[asyncio.Task] = []
    harness_cancelled: set[int] = set()
    if holder is not None:
        holder.update(R=R, tasks=tasks, ctx=proto._context)

    async def caller(c: dict) -> None:
        i = c["id"]
        cmd = R.cmds[i]
        api = c.get("api", "async")
        mr = c["mr"] if api == "async" else DEFAULT_MAX_RETRIES
        R.rec(e="Call", i=i, k=c["kind"], n=mr, p=c.get("prio", 0), a=tu(min(c["to"], 20.0)),
              b=1 if cmd.rx_header else 0, s="up" if connected["up"] else "down", r=0)
        stops0 = state["stops"]
        try:
            if api == "async":
                coro = gwy.async_send_cmd(cmd, priority=Priority(c.get("prio", 0)), max_retries=c["mr"], timeout=c["to"],
                                          wait_for_reply=c.get("wfr"))
            else:
                coro = gwy.send_cmd(cmd, priority=Priority(c.get("prio", 0)), timeout=c["to"], wait_for_reply=c.get("wfr"))
            if c.get("outer") is not None:
                pkt = await asyncio.wait_for(coro, c["outer"])
            else:
                pkt = await coro
        except exc.ProtocolError as err:
            R.rec(e="Raise", i=i, k="protocol", s=type(err).__name__, a=1 if "Exceeded maximum retries" in str(err) else 0)
        except asyncio.TimeoutError:
            R.rec(e="Raise", i=i, k="outer_timeout" if c.get("outer") is not None else "TimeoutError", s="TimeoutError")
        except asyncio.CancelledError:
            # a task handed out by Gateway.send_cmd() is cancelled by Gateway.stop(): the application that stops the gateway
            # abandons its own tracked sends (J30); any other CancelledError was delivered by the library (C07b)
            by_app = i in harness_cancelled or (api == "task" and state["stops"] > stops0)
            R.rec(e="Raise", i=i, k="cancelled" if by_app else "cancelled_by_library", s="CancelledError")
            if i in harness_cancelled:
                raise
        except BaseException as err:  # noqa: BLE001
            R.rec(e="Raise", i=i, k="other", s=type(err).__name__, a=1 if isinstance(err, AssertionError) else 0)
        else:
            R.rec(e="Return", i=i, k=R.classify(pkt, i) if pkt is not None else "none")

    def spawn(c: dict) -> None:
        tasks[c["id"]] = loop.create_task(caller(c), name=f"caller{c['id']}")

    def do_event(e: dict) -> None:
        ev = e["ev"]
        if ev == "gw_stop":
            ops.append(loop.create_task(gw_stop(), name="gw_stop"))
        elif ev == "gw_start":
            ops.append(loop.create_task(gw_start(), name="gw_start"))
        elif ev == "conn_lost":      # the port dies under the gateway (what serial_asyncio's _abort / a failed MQTT publish ends in)
            t = cur["tr"]
            if t is None or t.closed:
                return
            t.closed = True
            why = e.get("why")
            R.rec(e="TpDied", n=t.k, a=1 if why == "transport" else 0)
            err = exc.TransportError("the port was closed") if why == "transport" else None
            loop.call_soon(lambda: proto.connection_lost(err))
        elif ev == "fail_write":
            state["fail_writes"] += 1
        elif ev == "foreign":
            i = e.get("of", 0)
            c = spec_of.get(i)
            t = cur["tr"]
            if c is None or t is None:
                return
            what = e.get("what", "echo")
            if what == "echo":
                f = R.echo_txt[i]
            elif what == "reply":
                f = reply_frame(c["kind"], c["zone"]) or R.echo_txt[i]
            else:
                f = f"RP --- {CTL} {GWY} --:------ 1F09 003 000532"
            deliver(f, 0.0, t)

    def hop(n: int, fn, *args) -> None:
        if n <= 0:
            fn(*args)
        else:
            loop.call_soon(hop, n - 1, fn, *args)

    for c in sc["callers"]:
        loop.call_at(t_base + c["t"], hop, c.get("hops", 0), spawn, c)
    for e in sc.get("events", []):
        loop.call_at(t_base + e["t"], hop, e.get("hops", 0), do_event, e)

    horizon = sc.get("horizon", 90.0)
    t_last = max([c["t"] for c in sc["callers"]] + [e["t"] for e in sc.get("events", [])] + [0.0])
    await asyncio.sleep(t_last + 1e-3)
    deadline = t_base + horizon
    while loop.time() < deadline:
        pend = [t for t in list(tasks.values()) + ops if not t.done()]
        if not pend:
            break
        await asyncio.wait(pend, timeout=max(1e-3, min(5.0, deadline - loop.time())))
    hung = [i for i, t in tasks.items() if not t.done()]
    for i in hung:
        R.rec(e="Hang", i=i)
    for t in ops:
        if not t.done():
            R.rec(e="OpHang", s=t.get_name())
            t.cancel()
    await asyncio.sleep(30.0)
    await vloop.drain()
    ctx = proto._context
    fut = ctx._fut
    live_q = sum(1 for ent in list(ctx._que.queue) if not ent[-1].done())
    proj("quiesce")
    R.rec(e="Quiesce", k=type(ctx.state).__name__, a=1 if ctx._cmd is None else 0, n=live_q,
          b=1 if (fut is None or fut.done()) else 0, s="up" if connected["up"] else "down")
    for i in hung:
        harness_cancelled.add(i)
        tasks[i].cancel()
    await vloop.drain()
    if sc.get("probe", True):
        if not connected["up"]:
            # the application's way back: stop what is left of the old connection, start again
            if not state["stopped"]:
                await gw_stop()
            dead.clear()        # "a responsive device": the port of the probe's connection answers
            await gw_start()
            await vloop.drain()
        state["fail_writes"] = 0
        try:
            pkt = await asyncio.wait_for(gwy.async_send_cmd(R.probe_cmd, max_retries=3, timeout=20, wait_for_reply=True), 60)
            txt = str(pkt)
            good = txt == fakes.echo_of(str(R.probe_cmd), cur["tr"].gwy_id) or (txt.startswith("RP") and " 30C9 003 0F" in txt)
            R.rec(e="Probe", k="ok" if good else "wrongpkt")
        except BaseException as err:  # noqa: BLE001
            R.rec(e="Probe", k="fail", s=type(err).__name__)
        try:    # ... and so must a fresh impersonating command (mandatory notice first, then the command itself)
            pkt = await asyncio.wait_for(gwy.async_send_cmd(probe2_cmd, max_retries=3, timeout=20, wait_for_reply=False), 60)
            R.rec(e="Probe", k="ok" if str(pkt) == fakes.echo_of(str(probe2_cmd), cur["tr"].gwy_id) else "wrongpkt", s="imp")
        except BaseException as err:  # noqa: BLE001
            R.rec(e="Probe", k="fail", s=type(err).__name__ + ":imp")
    await asyncio.sleep(30.0)
    await vloop.drain()
    proj("probed")
    await gw_stop()
    await vloop.drain()
    proj("end")
    tasks.clear()
    gc.collect()
    await vloop.drain(2)
    R.rec(e="End", k=type(ctx.state).__name__)
    return {"echo_to": tu(ctx.echo_timeout), "rply_to": tu(ctx.reply_timeout), "untimed": 0, "ev": R.ev,
            "dead": sorted(state.get("silent", []))}      # the ports that did stay silent


def run_scenario(sc: dict, stuck_s: float = 10.0) -> dict:
    """As harness.qos.run_scenario (real-time watchdog included), for a gateway-level scenario."""
    import signal

    holder: dict = {}

    def on_alarm(signum, frame):
        R = holder.get("R")
        if R is not None and not holder.get("dead"):
            holder["dead"] = True
            R.rec(e="Deadlock", s=_lib_frame(frame))
            for i, t in holder.get("tasks", {}).items():
                if not t.done():
                    R.rec(e="Hang", i=i)
        if R is not None:
            R.loop.stop()
        raise _Stuck()

    old = signal.signal(signal.SIGALRM, on_alarm)
    signal.setitimer(signal.ITIMER_REAL, stuck_s, 0.2)
    try:
        try:
            item, loop = vloop.run(lambda: _run(sc, holder))
            return item
        except (RuntimeError, _Stuck):
            if not holder.get("dead"):
                raise
            R = holder["R"]
            ctx = holder["ctx"]
            return {"echo_to": tu(ctx.echo_timeout), "rply_to": tu(ctx.reply_timeout), "untimed": 0, "ev": R.ev,
                    "dead": sorted(sc.get("dead", []))}
    finally:
        signal.setitimer(signal.ITIMER_REAL, 0)
        signal.signal(signal.SIGALRM, old)
